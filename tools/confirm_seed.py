"""Confirm a sub-agent's seeded change in a fresh scratch worktree and file it under /verif/seeded/<id>/.

usage: python3-vt tools/confirm_seed.py <PROP> <i> <seed-id> [source dir name under /tmp/wtout, default <PROP>]
  reads /tmp/wtout/<PROP>/patch<i>.diff, demo<i>.py, meta<i>.json
"""
import json
import os
import shutil
import subprocess
import sys

prop, i, sid = sys.argv[1], sys.argv[2], sys.argv[3]
src = f"/tmp/wtout/{sys.argv[4] if len(sys.argv) > 4 else prop}"
patch, demo, meta = f"{src}/patch{i}.diff", f"{src}/demo{i}.py", f"{src}/meta{i}.json"
wt = f"/tmp/wt/confirm_{sid}"
env = dict(os.environ, PYTHONPATH=wt)


def _has_fail(line):
    import re
    return re.search(r"(?<![a-z])\d+ (failed|error)", line) is not None


def run(cmd, **kw):
    return subprocess.run(cmd, shell=True, capture_output=True, text=True, env=env, **kw)


subprocess.run(f"git -C /repo worktree add -q {wt} HEAD", shell=True, check=True)
try:
    clean = run(f"cd {wt} && /venv/bin/python {demo}")
    ap = run(f"git -C {wt} apply {patch}")
    if ap.returncode:
        print("APPLY-FAILED", ap.stderr)
        sys.exit(2)
    comp = run(f"cd {wt} && /venv/bin/python -m compileall -q coxeter")
    broken = run(f"cd {wt} && /venv/bin/python {demo}")
    tests = run(f"cd {wt} && /venv/bin/python -m pytest -q -p no:cacheprovider -n 12 --timeout=900 tests 2>&1 | tail -3")
    summary = [l for l in tests.stdout.splitlines() if "passed" in l or "failed" in l]
    ok = clean.returncode == 0 and broken.returncode != 0 and comp.returncode == 0 and bool(summary) and not _has_fail(summary[-1])
    print(f"{sid}: demo clean rc={clean.returncode}, demo with change rc={broken.returncode}, tests: {summary[-1] if summary else tests.stdout[-200:]}")
    if not ok and summary and _has_fail(summary[-1]):
        # hypothesis deadlines under load are flaky: re-run once
        tests = run(f"cd {wt} && /venv/bin/python -m pytest -q -p no:cacheprovider -n 12 --timeout=900 tests 2>&1 | tail -3")
        summary = [l for l in tests.stdout.splitlines() if "passed" in l or "failed" in l]
        ok = clean.returncode == 0 and broken.returncode != 0 and bool(summary) and not _has_fail(summary[-1])
        print(f"   re-run tests: {summary[-1] if summary else '?'}")
    if ok:
        dst = f"/verif/seeded/{sid}"
        os.makedirs(dst, exist_ok=True)
        shutil.copy(patch, f"{dst}/patch.diff")
        shutil.copy(demo, f"{dst}/demo.py")
        m = json.load(open(meta)) if os.path.exists(meta) else {}
        out = {"property": prop, "summary": m.get("summary"), "files": m.get("files"), "needs": m.get("needs"),
               "origin": "independent sub-agent given only the property text and a scratch worktree",
               "confirmed": {"demo_on_clean_tree": "exit 0", "demo_with_change": f"exit {broken.returncode}",
                             "existing_suite_with_change": summary[-1].strip(), "worktree": "scratch worktree of /repo HEAD, removed afterwards"},
               "agent_ran": m.get("ran")}
        json.dump(out, open(f"{dst}/meta.json", "w"), indent=1)
        print("KEPT", dst)
    else:
        print("REJECTED", sid, (clean.stderr or "")[-300:], (broken.stdout or "")[-200:])
finally:
    subprocess.run(f"git -C /repo worktree remove --force {wt}", shell=True)
