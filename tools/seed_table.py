"""Markdown table of seeded changes from their meta.json files: python3-vt tools/seed_table.py <glob or ids...>"""
import glob
import json
import os
import sys

HERE = os.path.dirname(os.path.dirname(os.path.abspath(__file__)))
ids = []
for a in sys.argv[1:]:
    ids += sorted(os.path.basename(p.rstrip("/")) for p in glob.glob(os.path.join(HERE, "seeded", a)))
print("| seeded change (property given) | what it does | first | now: caught by |")
print("|---|---|---|---|")
for i in ids:
    m = json.load(open(os.path.join(HERE, "seeded", i, "meta.json")))
    s = (m.get("summary") or "").replace("|", "/").replace("\n", " ")
    s = s if len(s) <= 170 else s[:167].rsplit(" ", 1)[0] + " ..."
    first = m.get("first_verdict", "")
    now = m.get("caught_by_rules") or ("**not caught** - " + str(m.get("not_caught_reason", "")) if m.get("not_caught") else ", ".join(m.get("caught_by", [])))
    print(f"| {i} | {s} | {first} | {now} |")
