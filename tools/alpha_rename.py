"""Robustness probe: write an alpha-renamed (and ast.unparse-normalised) copy of /repo/coxeter to <dst>.

Every function-local variable (assigned inside a function, not a parameter, not global/nonlocal) is renamed to
`v<n>_` consistently within its outermost enclosing function; comments and formatting are dropped by ast.unparse.
Behaviour is unchanged (the test suite of the copy passes); every check must stay silent on it and keep its rule
instance counts (python3-vt tools/compare_trees.py /repo <dst>).  The same probe runs inside `cxa selftest`.
usage: python3-vt tools/alpha_rename.py <dst> [--keep-names]   (--keep-names: only the unparse normalisation)
"""
import os
import sys

sys.path.insert(0, os.path.dirname(os.path.dirname(os.path.abspath(__file__))))
from cxa.alpha import write_tree  # noqa: E402

if __name__ == "__main__":
    dst = sys.argv[1]
    n = write_tree(os.environ.get("CXA_REPO", "/repo"), dst, rename="--keep-names" not in sys.argv)
    print(f"renamed {n} local variables under {dst}/coxeter")
