import json
CHECKS = {
 "C03": ("structured forward dataflow (dirty-cache gen/kill) over inlined mutators, per concrete class",
         "Static: the inductive invariant 'every derived cache agrees with the primary state' is shown to be preserved by each of the (class, mutator) pairs analysed once for all inputs, hence by every history; constructors establish it; eigenvector rotations pass a determinant normalisation. Decides the stale-cache / lagging-state / mirror clauses; value-level equality with a fresh object and exception atomicity are not decided.",
         "trusts: refresh functions compute the right value from clean inputs (derived set listed in evidence); cache dependency/invariance table cxa.components.cache_effect; numpy model table. Exception atomicity and value equality with a fresh object are not decided.", "DESIGN.md 5/C03"),
 "C08": ("closed-form normal form of setter scale factors + guard dominance dataflow, per (class, setter)",
         "Static: for each of the ~100 (class, setter) pairs: the scale factor passed to _rescale is (value/getter)^(1/degree) for the same property, or getter(setter(value)) normalises to value for closed forms; _rescale scales every length-bearing attribute; centroid setters only translate; a strict positivity test (ValueError on refusal) dominates the first state write. Numerical preservation of angles/ratios is implied only up to rounding.",
         "trusts: E3 degree inference of getters, E4 normal form, numpy model; getters outside the fragment are opaque atoms.", "DESIGN.md 5/C08"),
 "C15": ("escape/alias analysis of constructor parameters + must-pass-through of validation tests",
         "Static: no array-valued constructor argument is stored or modified; every normal exit of each constructor has evaluated the class's validation tests, each controlling a raise ValueError; size parameters reach their attribute only under the guarded setter. Whether qhull / Bentley-Ottmann classify margin-separated inputs correctly is not decided.",
         "trusts: provenance signatures of the validation tests (table in cxa/props/c15.py); boolean defaults assumed; loops over vertices assumed non-empty.", "DESIGN.md 5/C15"),
 "C16": ("interprocedural effect/alias analysis of every public query + temporary-move typestate",
         "Static: every public non-mutating member of every class (enumerated from the index) and the io writers have an empty write set on non-scratch state except for balanced move/restore; no by-reference attribute is rebound while moved; no argument is modified in place. 'Same answer on repetition' is decided only up to the noted rowan.random retry path.",
         "trusts: alias model of numpy calls (views vs copies; unknown index kinds are treated as copies); scratch attributes derived.", "DESIGN.md 5/C16"),
 "C19": ("sibling cross-check: symbolic writer dict fed to the reader, repr template vs constructor signature/storage, to_hoomd protocol typestate + escape-then-mutate",
         "Static: structural agreement of the GSD writer/reader pairs (class, keys, inverse encodings), of each __repr__ with its constructor, of to_json, and of every to_hoomd with the centre-collect-restore protocol, returned aliases and documented keys. Value equality of measures after a round trip follows only up to the constructors' own reordering.",
         "trusts: interpreter's dict/f-string model; docstring bullet syntax '* key (type)'.", "DESIGN.md 5/C19"),
}
m = json.load(open('/verif/MANIFEST.json'))
m["checks"] = []
for pid,(tech,text,note,ref) in sorted(CHECKS.items()):
    m["checks"].append({
        "property_id": pid,
        "quick_cmd": f"python3-vt -m cxa check {pid} --tier quick",
        "thorough_cmd": f"python3-vt -m cxa check {pid} --tier thorough",
        "evidence_file": f"/verif/evidence/{pid}.json",
        "replay_cmd_template": "python3-vt -m cxa replay {path}",
        "engine": "cxa",
        "level_claimed": {"category": "other", "text": text, "design_ref": ref},
        "level_note": note,
        "technique": "static analysis: " + tech,
    })
m["engines"] = [{"name":"cxa","path":"/verif/cxa","serves_properties":sorted(CHECKS),"kind_free_text":"ast-based inlining abstract interpreter (alias / effect / length-dimension / closed-form product domain) + per-property rule sets; never imports or runs coxeter"}]
allp=[f"C{i:02d}" for i in range(1,21)]
m["not_applicable"]=[{"property_id":p,"reason":"check not built yet in this round (see DESIGN.md for the planned rules)"} for p in allp if p not in CHECKS and p!="C07"]
m["not_applicable"].append({"property_id":"C07","reason":"every clause is about values produced by qhull / angular sorts / BFS orientation on arbitrary input; no sound static argument in reach; its stale-cache clause is decided under C03 (DESIGN.md section 6)"})
m["notes"]="All checks are static (technique family: static analysis). Known findings: /verif/known_findings.json. Self-test corpus: cxa/variants.py (thorough tier)."
json.dump(m, open('/verif/MANIFEST.json','w'), indent=1)
