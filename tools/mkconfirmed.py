"""Regenerate cxa/confirmed_rules.json from the current tree (run after adding rules; the tree must be the confirmed one).
For every property: the rules that decide at least one instance; for rules with at most 40 instances also the instance keys."""
import json
import os
import sys

HERE = os.path.dirname(os.path.dirname(os.path.abspath(__file__)))
sys.path.insert(0, HERE)
from cxa.index import Index  # noqa: E402
from cxa.report import run_property  # noqa: E402

ALL = [f"C{i:02d}" for i in range(1, 21)]
out = {"instances": {}}
for p in ALL:
    res = run_property(p, Index(os.environ.get("CXA_REPO", "/repo")))
    # rules decided for one formulation of the code only (DESIGN 11.9): another formulation gives no verdict (listed in the
    # evidence under not_in_fragment), it is not an analysis error - these rules are not part of the anti-vacuity table
    FORMULATION_BOUND = {("C07", "MRG-2"), ("C14", "BIN-1")}
    out[p] = sorted(k for k, v in res.rules.items() if v["instances"] > 0 and (p, k) not in FORMULATION_BOUND)
    # instance-level confirmation only for rules whose instance keys are semantic; C09 SC-1 keys carry the source text of the
    # comparison (diagnostic), which every refactoring changes - that rule is confirmed by count only
    # (SC-3 / EX-2 instance keys name the form, degree and constant of a decision site: a refactoring that rewrites the test
    # changes them without changing what is decided - confirmed by count as well)
    TEXT_KEYED = {("C09", "SC-1"), ("C09", "SC-3"), ("C13", "EX-2")}
    out["instances"][p] = {r: sorted(keys) for r, keys in res.decided.items() if 0 < len(keys) <= 40 and (p, r) not in TEXT_KEYED and (p, r) not in FORMULATION_BOUND}
json.dump(out, open(os.path.join(HERE, "cxa", "confirmed_rules.json"), "w"), indent=1, sort_keys=True)
print({p: (len(out[p]), sum(len(v) for v in out["instances"][p].values())) for p in ALL})
# reference of the private helpers (rename detection, cxa/canon.py)
from cxa import canon  # noqa: E402
os.environ["CXA_NO_CANON"] = "1"
_idx = Index(os.environ.get("CXA_REPO", "/repo"))
json.dump(canon.reference_of({k: m.tree for k, m in _idx.modules.items()}), open(canon.REF_FILE, "w"), indent=1, sort_keys=True)
