"""Print the DESIGN.md 11.6 verdict table from the evidence files of the last run (python3-vt tools/verdict_table.py)."""
import glob
import json
import os

here = os.path.dirname(os.path.dirname(os.path.abspath(__file__)))
print("| id | obligations | discharged | known findings | rule instances |")
print("|---|---|---|---|---|")
for f in sorted(glob.glob(os.path.join(here, "evidence", "C*.json"))):
    d = json.load(open(f))
    c = d["coverage"]
    rules = ", ".join(f"{k} {v['instances']}" for k, v in c.get("rules", {}).items())
    print(f"| {d['property_id']} | {c['obligations']} | {c['discharged']} | {len(c.get('known_findings_matched', []))} | {rules} |")
