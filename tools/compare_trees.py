"""Compare the verdicts of all checks on two trees (rule instance counts, findings, not-in-fragment notes).
usage: python3-vt tools/compare_trees.py <treeA> <treeB> [C01 ...]"""
import importlib
import os
import sys
from concurrent.futures import ProcessPoolExecutor

sys.path.insert(0, os.path.dirname(os.path.dirname(os.path.abspath(__file__))))
from cxa.index import AnalysisError, Index  # noqa: E402
from cxa.report import run_property  # noqa: E402

ALL = [f"C{i:02d}" for i in range(1, 21)]


def run(args):
    p, repo = args
    try:
        res = run_property(p, Index(repo))
    except AnalysisError as e:
        return p, repo, None, [f"ANALYSIS-ERROR {e}"], []
    counts = {k: v["instances"] for k, v in res.rules.items()}
    return p, repo, counts, sorted(f"{f.rule}|{f.key}" for f in res.findings), sorted(res.not_in_fragment)


if __name__ == "__main__":
    a, b = sys.argv[1], sys.argv[2]
    props = sys.argv[3:] or ALL
    with ProcessPoolExecutor(16) as ex:
        out = list(ex.map(run, [(p, t) for p in props for t in (a, b)]))
    by = {(p, t): (c, f, n) for p, t, c, f, n in out}
    for p in props:
        ca, fa, na = by[(p, a)]
        cb, fb, nb = by[(p, b)]
        diffs = []
        if ca != cb:
            keys = set(ca or {}) | set(cb or {})
            diffs.append("counts " + ", ".join(f"{k}: {(ca or {}).get(k)} -> {(cb or {}).get(k)}" for k in sorted(keys) if (ca or {}).get(k) != (cb or {}).get(k)))
        if set(fa) != set(fb):
            diffs.append("findings only in B: " + "; ".join(sorted(set(fb) - set(fa))) + " | only in A: " + "; ".join(sorted(set(fa) - set(fb))))
        if na != nb:
            diffs.append("not-in-fragment only in B: " + "; ".join(sorted(set(nb) - set(na))))
        print(p, "same" if not diffs else "DIFF\n   " + "\n   ".join(diffs))
