"""Apply a seeded patch to a scratch copy of /repo/coxeter and report which checks fire (beyond known findings).

usage: python3-vt tools/try_patch.py <patch.diff> [C03 C08 ...]     (run from /verif)
The per-property checks run in parallel; the baseline of the unchanged tree is cached under /verif/scratch/
(git-ignored) keyed by a digest of /repo/coxeter and /verif/cxa.
"""
import hashlib
import importlib
import json
import os
import shutil
import subprocess
import sys
import tempfile
from concurrent.futures import ProcessPoolExecutor

HERE = os.path.dirname(os.path.dirname(os.path.abspath(__file__)))
sys.path.insert(0, HERE)
from cxa.index import AnalysisError, Index  # noqa: E402
from cxa.report import run_property  # noqa: E402
from cxa.report import load_known  # noqa: E402

ALL = [f"C{i:02d}" for i in range(1, 21)]


def _digest():
    h = hashlib.sha256()
    for root in ("/repo/coxeter", os.path.join(HERE, "cxa")):
        for dp, dn, fn in sorted(os.walk(root)):
            dn[:] = sorted(d for d in dn if d != "__pycache__")
            for f in sorted(fn):
                if f.endswith((".py", ".json")):
                    h.update(f.encode())
                    h.update(open(os.path.join(dp, f), "rb").read())
    return h.hexdigest()[:16]


def _run(args):
    p, repo = args
    try:
        res = run_property(p, Index(repo))
        out = [(f.rule, f.key, f.where, f.what) for f in res.findings]
        if res.incomplete:
            out.append(("ANALYSIS-ERROR", "", "", str(res.incomplete)))
        from cxa.report import confirmed_lost
        lm = confirmed_lost(p, res)
        known_ = {f"{k['rule']}|{k['key']}" for k in load_known() if k.get("status") == "known"}
        if lm and not [f for f in res.findings if f"{f.rule}|{f.key}" not in known_]:
            out.append(("ANALYSIS-ERROR", "", "", lm))
        return p, out
    except AnalysisError as e:
        return p, [("ANALYSIS-ERROR", "", "", str(e))]


def main():
    patch = os.path.abspath(sys.argv[1])
    props = sys.argv[2:] or ALL
    tmp = tempfile.mkdtemp(prefix="cxa_seed_")
    try:
        shutil.copytree("/repo/coxeter", os.path.join(tmp, "coxeter"), ignore=shutil.ignore_patterns("__pycache__"))
        r = subprocess.run(["patch", "-p1", "-s", "-d", tmp, "-i", patch], capture_output=True, text=True)
        if r.returncode != 0:
            print("PATCH-FAILED", r.stdout, r.stderr)
            return 2
        known = {f"{k['rule']}|{k['key']}" for k in load_known() if k.get("status") == "known"}
        cache = os.path.join(HERE, "scratch", f"baseline_{_digest()}.json")
        base = json.load(open(cache)) if os.path.exists(cache) else {}
        need = [p for p in props if p not in base]
        with ProcessPoolExecutor(max_workers=16) as ex:
            for p, fs in ex.map(_run, [(p, "/repo") for p in need]):
                base[p] = [f"{f[0]}|{f[1]}" for f in fs]
            if need:
                os.makedirs(os.path.dirname(cache), exist_ok=True)
                json.dump(base, open(cache, "w"))
            fired = {}
            for p, fs in ex.map(_run, [(p, tmp) for p in props]):
                new = [f for f in fs if f"{f[0]}|{f[1]}" not in base[p] and f"{f[0]}|{f[1]}" not in known]
                if new:
                    fired[p] = new
        for p, fs in fired.items():
            for f in fs[:4]:
                print(f"{p} {f[0]} [{f[1]}] {f[2]}: {f[3][:170]}")
        print("FIRED:", " ".join(sorted(fired)) if fired else "-")
        if not fired:
            print("NO CHECK FIRED")
        return 0
    finally:
        shutil.rmtree(tmp, ignore_errors=True)


if __name__ == "__main__":
    sys.exit(main())
