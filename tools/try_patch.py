"""Apply a seeded patch to a scratch copy of /repo/coxeter and report which checks fire (beyond known findings).

usage: python3-vt tools/try_patch.py <patch.diff> [C03 C08 ...]     (run from /verif)
"""
import importlib
import os
import shutil
import subprocess
import sys
import tempfile

sys.path.insert(0, os.path.dirname(os.path.dirname(os.path.abspath(__file__))))
from cxa.index import AnalysisError, Index  # noqa: E402
from cxa.report import load_known  # noqa: E402

ALL = [f"C{i:02d}" for i in range(1, 21) if i != 7]


def main():
    patch = os.path.abspath(sys.argv[1])
    props = sys.argv[2:] or ALL
    tmp = tempfile.mkdtemp(prefix="cxa_seed_")
    try:
        shutil.copytree("/repo/coxeter", os.path.join(tmp, "coxeter"), ignore=shutil.ignore_patterns("__pycache__"))
        r = subprocess.run(["patch", "-p1", "-s", "-d", tmp, "-i", patch], capture_output=True, text=True)
        if r.returncode != 0:
            print("PATCH-FAILED", r.stdout, r.stderr)
            return 2
        known = {f"{k['rule']}|{k['key']}" for k in load_known() if k.get("status") == "known"}
        fired = {}
        for p in props:
            mod = importlib.import_module(f"cxa.props.{p.lower()}")
            try:
                base = {f"{f.rule}|{f.key}" for f in mod.run(Index("/repo")).findings}
                res = mod.run(Index(tmp))
                new = [f for f in res.findings if f"{f.rule}|{f.key}" not in base and f"{f.rule}|{f.key}" not in known]
                if new:
                    fired[p] = new
            except AnalysisError as e:
                fired[p] = [type("F", (), {"rule": "ANALYSIS-ERROR", "key": "", "where": "", "what": str(e)})()]
        for p, fs in fired.items():
            for f in fs[:4]:
                print(f"{p} {f.rule} [{f.key}] {f.where}: {f.what[:170]}")
        if not fired:
            print("NO CHECK FIRED")
        return 0
    finally:
        shutil.rmtree(tmp, ignore_errors=True)


if __name__ == "__main__":
    sys.exit(main())
