"""Whole-tree probe: rename every private function / method (`_name`, not dunder) of the package consistently and run the checks.

A rename of private helpers is behaviour preserving, so no check may report a new finding; an analysis error (exit 2) shows a rule
that is anchored on a private name.  usage: python3-vt tools/private_rename_probe.py [C01 ...]   (run from /verif)
"""
import ast
import os
import shutil
import sys
import tempfile
from concurrent.futures import ProcessPoolExecutor

HERE = os.path.dirname(os.path.dirname(os.path.abspath(__file__)))
sys.path.insert(0, HERE)
from cxa.index import AnalysisError, Index  # noqa: E402
from cxa.report import confirmed_lost, load_known, run_property  # noqa: E402

ALL = [f"C{i:02d}" for i in range(1, 21)]


def collect(root):
    names = set()
    data = set()
    for dp, dn, fn in os.walk(os.path.join(root, "coxeter")):
        for f in fn:
            if f.endswith(".py"):
                tree = ast.parse(open(os.path.join(dp, f)).read())
                for n in ast.walk(tree):
                    if isinstance(n, (ast.FunctionDef, ast.AsyncFunctionDef)) and n.name.startswith("_") and not n.name.startswith("__"):
                        # properties / setters are data-like accessors: keep (they are attribute names)
                        if any(isinstance(d, ast.Name) and d.id in ("property", "cached_property") or
                               isinstance(d, ast.Attribute) and d.attr in ("setter", "getter", "deleter", "cached_property") for d in n.decorator_list):
                            data.add(n.name)
                        else:
                            names.add(n.name)
                    elif isinstance(n, ast.Attribute) and isinstance(n.ctx, ast.Store):
                        data.add(n.attr)
    return sorted(names - data)


def transform(src, mapping):
    tree = ast.parse(src)
    for n in ast.walk(tree):
        if isinstance(n, (ast.FunctionDef, ast.AsyncFunctionDef)) and n.name in mapping:
            n.name = mapping[n.name]
        elif isinstance(n, ast.Name) and n.id in mapping:
            n.id = mapping[n.id]
        elif isinstance(n, ast.Attribute) and n.attr in mapping:
            n.attr = mapping[n.attr]
        elif isinstance(n, ast.ImportFrom):
            for al in n.names:
                if al.name in mapping:
                    al.name = mapping[al.name]
                if al.asname in mapping:
                    al.asname = mapping[al.asname]
        elif isinstance(n, ast.keyword) and n.arg in mapping:
            pass
    return ast.unparse(tree) + "\n"


def _run(args):
    p, root = args
    try:
        res = run_property(p, Index(root), tier="quick", seed=0)
        known = {f"{k['rule']}|{k['key']}" for k in load_known() if k.get("status") == "known"}
        keys = {f"{f.rule}|{f.key}" for f in res.findings}
        lost = confirmed_lost(p, res)
        return p, keys, (str(res.incomplete) if res.incomplete else (lost or None)), known
    except AnalysisError as e:
        return p, set(), str(e), set()


def main():
    props = sys.argv[1:] or ALL
    names = collect("/repo")
    mapping = {n: f"_p{i}_" for i, n in enumerate(names)}
    tmp = tempfile.mkdtemp(prefix="cxa_priv_")
    try:
        shutil.copytree("/repo/coxeter", os.path.join(tmp, "coxeter"), ignore=shutil.ignore_patterns("__pycache__"))
        for dp, dn, fn in os.walk(os.path.join(tmp, "coxeter")):
            for f in fn:
                if f.endswith(".py"):
                    q = os.path.join(dp, f)
                    new = transform(open(q).read(), mapping)
                    open(q, "w").write(new)
        if os.environ.get("KEEP"):
            shutil.copytree(tmp, os.environ["KEEP"], dirs_exist_ok=True)
        with ProcessPoolExecutor(max_workers=16) as ex:
            base = {p: k for (p, k, _e, _kn) in ex.map(_run, [(p, "/repo") for p in props])}
            out = list(ex.map(_run, [(p, tmp) for p in props]))
        print(f"{len(mapping)} private functions renamed")
        bad = 0
        for p, keys, err, known in out:
            new = keys - base[p]
            if new:
                bad += 1
                print(f"{p} FALSE ALARM {sorted(new)[:4]}")
            elif err:
                print(f"{p} analysis-error: {err[:200]}")
            else:
                print(f"{p} silent")
        return 1 if bad else 0
    finally:
        shutil.rmtree(tmp, ignore_errors=True)


if __name__ == "__main__":
    sys.exit(main())
