"""Abstract evaluation of pure token-formatting helpers of coxeter.io on one representative per token class.

A helper such as

    def _float_literal(value):
        text = str(value)
        return text if "." in text else f"{text}.0"

maps a coordinate to the token written into the file.  Its behaviour is uniform on each *class* of float spellings
(`D.D`, `-D.D`, `D.De-DD`, `De-DD`, `De+DD`, long mantissas), so it is evaluated here - by this module's own evaluator
over the helper's syntax tree, never by importing or running coxeter - on one representative of each class; the
resulting tokens are then judged by the format grammars (FMT-1) and by the read-back rule (PREC-0).  Only a small pure
fragment is supported (assignments, if / return, conditional expressions, comparisons, string methods, str / repr /
float / format / f-strings); anything else raises NotPure and the field stays unclassified (analysis error, no verdict).
"""

from __future__ import annotations

import ast
import math


class NotPure(Exception):
    pass


_STR_METHODS = {"replace", "rstrip", "lstrip", "strip", "lower", "upper", "startswith", "endswith", "zfill", "ljust", "rjust",
                "center", "format", "find", "count", "split", "partition", "rpartition", "join", "isdigit", "removeprefix",
                "removesuffix", "index", "title"}
_FLOAT_METHODS = {"is_integer", "hex", "__format__", "__repr__", "__str__"}
_FUNCS = {"str": str, "repr": repr, "float": float, "int": int, "len": len, "abs": abs, "round": round, "format": format,
          "min": min, "max": max, "bool": bool}
_MATH = {"isfinite": math.isfinite, "isnan": math.isnan, "isinf": math.isinf, "floor": math.floor, "ceil": math.ceil,
         "trunc": math.trunc, "fabs": math.fabs, "log10": math.log10}


class _Return(Exception):
    def __init__(self, v):
        self.v = v


def eval_helper(fn: ast.FunctionDef, args, budget=400):
    params = [a.arg for a in fn.args.args]
    if len(params) < len(args) or fn.args.vararg or fn.args.kwarg:
        raise NotPure("signature")
    env = {}
    defaults = fn.args.defaults
    for p, d in zip(params[len(params) - len(defaults):], defaults):
        try:
            env[p] = ast.literal_eval(d)
        except Exception:
            raise NotPure("default")
    env.update(dict(zip(params, args)))
    if any(p not in env for p in params):
        raise NotPure("missing argument")
    ev = _Ev(env, budget)
    try:
        ev.block(fn.body)
    except _Return as r:
        return r.v
    return None


class _Ev:
    def __init__(self, env, budget):
        self.env = env
        self.budget = budget

    def tick(self):
        self.budget -= 1
        if self.budget < 0:
            raise NotPure("budget")

    def block(self, stmts):
        for s in stmts:
            self.tick()
            if isinstance(s, ast.Expr) and isinstance(s.value, ast.Constant):
                continue
            if isinstance(s, ast.Assign) and all(isinstance(t, ast.Name) for t in s.targets):
                v = self.ev(s.value)
                for t in s.targets:
                    self.env[t.id] = v
            elif isinstance(s, ast.AugAssign) and isinstance(s.target, ast.Name) and isinstance(s.op, ast.Add):
                self.env[s.target.id] = self.env[s.target.id] + self.ev(s.value)
            elif isinstance(s, ast.If):
                self.block(s.body if self.ev(s.test) else s.orelse)
            elif isinstance(s, ast.Return):
                raise _Return(self.ev(s.value) if s.value is not None else None)
            elif isinstance(s, ast.Pass):
                continue
            else:
                raise NotPure(type(s).__name__)

    def ev(self, n):
        self.tick()
        if isinstance(n, ast.Constant):
            return n.value
        if isinstance(n, ast.Name):
            if n.id in self.env:
                return self.env[n.id]
            raise NotPure(f"name {n.id}")
        if isinstance(n, ast.JoinedStr):
            out = ""
            for v in n.values:
                if isinstance(v, ast.Constant):
                    out += v.value
                else:
                    x = self.ev(v.value)
                    if v.conversion == 114:
                        x = repr(x)
                    elif v.conversion == 115:
                        x = str(x)
                    spec = self.ev(v.format_spec) if v.format_spec is not None else ""
                    out += format(x, spec)
            return out
        if isinstance(n, ast.IfExp):
            return self.ev(n.body) if self.ev(n.test) else self.ev(n.orelse)
        if isinstance(n, ast.BoolOp):
            r = None
            for v in n.values:
                r = self.ev(v)
                if isinstance(n.op, ast.And) and not r:
                    return r
                if isinstance(n.op, ast.Or) and r:
                    return r
            return r
        if isinstance(n, ast.UnaryOp):
            v = self.ev(n.operand)
            if isinstance(n.op, ast.Not):
                return not v
            if isinstance(n.op, ast.USub):
                return -v
            raise NotPure("unary")
        if isinstance(n, ast.BinOp):
            l, r = self.ev(n.left), self.ev(n.right)
            try:
                if isinstance(n.op, ast.Add):
                    return l + r
                if isinstance(n.op, ast.Sub):
                    return l - r
                if isinstance(n.op, ast.Mult):
                    return l * r
                if isinstance(n.op, ast.Mod):
                    return l % r
                if isinstance(n.op, ast.Div):
                    return l / r
            except Exception as e:
                raise NotPure(f"binop {e}")
            raise NotPure("binop")
        if isinstance(n, ast.Compare):
            cur = self.ev(n.left)
            for op, c in zip(n.ops, n.comparators):
                r = self.ev(c)
                try:
                    ok = {ast.In: lambda a, b: a in b, ast.NotIn: lambda a, b: a not in b, ast.Eq: lambda a, b: a == b,
                          ast.NotEq: lambda a, b: a != b, ast.Lt: lambda a, b: a < b, ast.LtE: lambda a, b: a <= b,
                          ast.Gt: lambda a, b: a > b, ast.GtE: lambda a, b: a >= b}[type(op)](cur, r)
                except KeyError:
                    raise NotPure("compare")
                except Exception as e:
                    raise NotPure(f"compare {e}")
                if not ok:
                    return False
                cur = r
            return True
        if isinstance(n, ast.Subscript):
            v = self.ev(n.value)
            if not isinstance(v, (str, tuple, list)):
                raise NotPure("subscript")
            sl = n.slice
            try:
                if isinstance(sl, ast.Slice):
                    lo = self.ev(sl.lower) if sl.lower is not None else None
                    hi = self.ev(sl.upper) if sl.upper is not None else None
                    st = self.ev(sl.step) if sl.step is not None else None
                    return v[lo:hi:st]
                return v[self.ev(sl)]
            except NotPure:
                raise
            except Exception as e:
                raise NotPure(f"subscript {e}")
        if isinstance(n, (ast.Tuple, ast.List)):
            return tuple(self.ev(e) for e in n.elts)
        if isinstance(n, ast.Call):
            f = n.func
            if isinstance(f, ast.Attribute) and isinstance(f.value, ast.Name) and f.value.id in ("np", "numpy") \
                    and f.attr in ("format_float_positional", "format_float_scientific", "float64", "float32", "float16", "format_float"):
                # numpy's own scalar formatters / casts (pure functions of the number): evaluated with the tooling venv's numpy
                import numpy as _np
                try:
                    kw = {k.arg: self.ev(k.value) for k in n.keywords}
                    return getattr(_np, f.attr)(*[self.ev(a) for a in n.args], **kw)
                except NotPure:
                    raise
                except Exception as e:
                    raise NotPure(f"numpy formatter {e}")
            if n.keywords:
                raise NotPure("keywords")
            args = [self.ev(a) for a in n.args]
            try:
                if isinstance(f, ast.Name) and f.id in _FUNCS:
                    return _FUNCS[f.id](*args)
                if isinstance(f, ast.Name) and f.id == "isinstance" and len(n.args) == 2:
                    tn = ast.unparse(n.args[1])
                    raise NotPure(f"isinstance {tn}")
                if isinstance(f, ast.Attribute) and isinstance(f.value, ast.Name) and f.value.id in ("math", "np", "numpy") and f.attr in _MATH:
                    return _MATH[f.attr](*args)
                if isinstance(f, ast.Attribute):
                    base = self.ev(f.value)
                    if isinstance(base, str) and f.attr in _STR_METHODS:
                        return getattr(base, f.attr)(*args)
                    if isinstance(base, float) and f.attr in _FLOAT_METHODS:
                        return getattr(base, f.attr)(*args)
            except NotPure:
                raise
            except Exception as e:
                raise NotPure(f"call {e}")
            raise NotPure(f"call {ast.unparse(f)}")
        raise NotPure(type(n).__name__)
