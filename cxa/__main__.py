"""python3-vt -m cxa check <ID> [--tier quick|thorough]   |   python3-vt -m cxa replay <path>"""

import argparse
import importlib
import json
import os
import sys
import time
import traceback

from . import REPO
from .index import AnalysisError, get_index
from .report import finish


def run_check(prop_id, tier, seed, repo=None):
    t0 = time.time()
    repo = repo or os.environ.get("CXA_REPO", REPO)
    try:
        from .report import run_property
        index = get_index(repo)
        res = run_property(prop_id, index, tier=tier, seed=seed)
        from .report import confirmed_lost
        lost_msg = confirmed_lost(prop_id, res)
        if lost_msg:
            # listed known findings do not count: a rule that lost its instances must not hide behind them
            from .report import load_known
            known_ = {f"{k_['rule']}|{k_['key']}" for k_ in load_known() if k_.get("property") == prop_id and k_.get("status") == "known"}
            if not [f_ for f_ in res.findings if f"{f_.rule}|{f_.key}" not in known_]:
                raise AnalysisError(lost_msg)
        code = finish(res, tier, seed, t0)
        if res.incomplete and code == 0:
            print(f"ANALYSIS-ERROR property={prop_id}: {res.incomplete}")
            return 2
        if tier == "thorough" and code == 0:
            # thorough = quick + the checker self-test for this property (seeded faults must fire, rewrites stay silent)
            from .selftest import run_selftest
            ok = run_selftest(prop_id, seed, repo=repo, verbose=False)
            try:
                from . import VERIF
                evp = os.path.join(VERIF, "evidence", f"{prop_id}.json")
                ev = json.load(open(evp))
                ev["coverage"]["selftest"] = getattr(run_selftest, "last_summary", {})
                ev["wall_s"] = round(time.time() - t0, 3)
                json.dump(ev, open(evp, "w"), indent=1)
            except Exception:
                pass
            if not ok:
                print(f"SELFTEST-FAIL property={prop_id}")
                return 2
        return code
    except AnalysisError as e:
        print(f"ANALYSIS-ERROR property={prop_id}: {e}")
        return 2
    except Exception as e:  # internal error: never reported as a violation
        traceback.print_exc()
        print(f"ANALYSIS-ERROR property={prop_id}: internal {type(e).__name__}: {e}")
        return 2


def main(argv=None):
    ap = argparse.ArgumentParser(prog="cxa")
    sub = ap.add_subparsers(dest="cmd", required=True)
    c = sub.add_parser("check")
    c.add_argument("prop")
    c.add_argument("--tier", default=os.environ.get("VERIF_TIER", "quick"))
    r = sub.add_parser("replay")
    r.add_argument("path")
    s = sub.add_parser("selftest")
    s.add_argument("prop", nargs="?")
    args = ap.parse_args(argv)
    seed = int(os.environ.get("VERIF_SEED", "0") or 0)
    if args.cmd == "check":
        return run_check(args.prop.upper(), args.tier, seed)
    if args.cmd == "replay":
        with open(args.path) as f:
            rec = json.load(f)
        print(f"replaying rule {rec['rule']} key {rec['key']} of {rec['property']} on the current tree")
        t0 = time.time()
        mod = importlib.import_module(f"cxa.props.{rec['property'].lower()}")
        try:
            res = mod.run(get_index(os.environ.get("CXA_REPO", REPO)), tier="quick", seed=seed)
        except AnalysisError as e:
            print(f"ANALYSIS-ERROR: {e}")
            return 2
        hit = [f for f in res.findings if f.rule == rec["rule"] and f.key == rec["key"]]
        for f in hit:
            print(f"  {f.rule} {f.where}: {f.what}")
            print(f"VIOLATION property={rec['property']} replay={args.path}")
        if not hit:
            print("not reproduced on the current tree")
        return 1 if hit else 0
    if args.cmd == "selftest":
        from .selftest import run_selftest
        props = [args.prop.upper()] if args.prop else None
        return 0 if run_selftest(props, seed) else 2
    return 2


if __name__ == "__main__":
    sys.exit(main())
