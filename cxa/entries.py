"""Enumeration of entry points (mutators, queries, constructors) and derived code-base facts."""

from __future__ import annotations

import ast
from typing import Dict, List, Tuple

from .components import CACHE_PARTS, MustWritten, ReadBeforeWrite
from .index import AnalysisError, ClassInfo, FuncInfo, Index, PropInfo
from .interp import Interp
from .model import VERTEX_BASED

MUTATING_METHODS = ("diagonalize_inertia", "merge_faces", "sort_faces")
NON_API = ("plot", "to_plato_scene", "_plato_primitive")


def setters(index: Index, cls: ClassInfo) -> List[Tuple[str, FuncInfo]]:
    out = []
    for name in sorted(cls.public_members()):
        p = index.effective_prop(cls, name)
        if p is not None and p.setter is not None:
            out.append((name, p.setter))
    return out


def mutators(index: Index, cls: ClassInfo) -> List[Tuple[str, FuncInfo, str]]:
    out = [(n, f, "setter") for n, f in setters(index, cls)]
    for m in MUTATING_METHODS:
        f = cls.lookup(m)
        if isinstance(f, FuncInfo):
            out.append((m, f, "method"))
    return out


def queries(index: Index, cls: ClassInfo) -> List[Tuple[str, FuncInfo, str]]:
    """every public non-setter member that is not a mutating method."""
    out = []
    for name, m in sorted(cls.public_members().items()):
        if name in MUTATING_METHODS or name in NON_API or name == "__init__":
            continue
        if isinstance(m, PropInfo):
            p = index.effective_prop(cls, name)
            if p is not None and p.getter is not None:
                out.append((name, p.getter, "getter"))
        elif isinstance(m, FuncInfo):
            out.append((name, m, "method"))
    return out


def all_methods(cls: ClassInfo) -> Dict[str, FuncInfo]:
    out = {}
    for c in reversed(cls.mro):
        for n, f in c.methods.items():
            out[n] = f
    return out


def stored_attrs(cls: ClassInfo):
    """every self._x stored anywhere in the hierarchy of cls."""
    attrs = set()
    for c in cls.mro:
        for f in list(c.methods.values()) + [p.getter for p in c.props.values() if p.getter] + \
                [p.setter for p in c.props.values() if p.setter]:
            for n in ast.walk(f.node):
                tgt = None
                if isinstance(n, (ast.Assign,)):
                    tgts = n.targets
                elif isinstance(n, (ast.AugAssign, ast.AnnAssign)):
                    tgts = [n.target]
                else:
                    continue
                for t in tgts:
                    for x in ast.walk(t):
                        if isinstance(x, ast.Attribute) and isinstance(x.value, ast.Name) and x.value.id == "self" \
                                and isinstance(x.ctx, ast.Store):
                            attrs.add(x.attr)
                    # subscript stores  self._x[...] = ...
                    if isinstance(t, ast.Subscript):
                        b = t.value
                        while isinstance(b, ast.Subscript):
                            b = b.value
                        if isinstance(b, ast.Attribute) and isinstance(b.value, ast.Name) and b.value.id == "self":
                            attrs.add(b.attr)
        for p in c.props.values():
            if p.cached:
                attrs.add(p.name)
    return attrs


def refresh_functions(index: Index, cls: ClassInfo) -> Dict[int, set]:
    """private methods that rebind a cache attribute (not from itself) on all normal paths."""
    out = {}
    for name, f in all_methods(cls).items():
        if not name.startswith("_") or name.startswith("__"):
            continue
        if f.kind != "method":
            continue
        mw = MustWritten()
        it = Interp(index, [mw])
        try:
            r = it.run_entry(f, cls)
        except RecursionError:
            continue
        must = None
        for (v, s, n) in r["returns"]:
            m = s.comp[mw.name]
            must = m if must is None else (must & m)
        if not must:
            continue
        cs = {attr for (oid, attr) in must if oid == "self" and attr in CACHE_PARTS}
        # a function that only *covariantly updates* is not a refresh: handled by rhs.deps in MustWritten
        if cs:
            out[id(f.node)] = cs
            out[("name", name)] = cs
    return out


def register_lazy_caches(index: Index):
    """Attributes filled lazily (`if self._x is None: self._x = <computed>`) that the tables do not know are derived caches:
    registered like unknown cached_property members, with the state attributes their fill reads (conservative: stale
    whenever one of them is written; `self._x = None` invalidates).  Done once per Index."""
    from .components import CACHE_PARTS, EXTRA_CACHE_READS, bind_tables
    from .model import ATTR, PRIMARY
    bind_tables(index)
    if getattr(index, "_lazy_caches_done", False):
        return
    index._lazy_caches_done = True
    found = {}
    for cls in index.shape_classes():
        fns = list(cls.methods.values()) + [x for p in cls.props.values() for x in (p.getter, p.setter) if x]
        for f in fns:
            for n in ast.walk(f.node):
                if not isinstance(n, ast.If):
                    continue
                t = n.test
                if not (isinstance(t, ast.Compare) and len(t.ops) == 1 and isinstance(t.ops[0], ast.Is)
                        and isinstance(t.comparators[0], ast.Constant) and t.comparators[0].value is None
                        and isinstance(t.left, ast.Attribute) and isinstance(t.left.value, ast.Name) and t.left.value.id == "self"):
                    continue
                x = t.left.attr
                if x in PRIMARY or x in CACHE_PARTS or not x.startswith("_"):
                    continue        # (attributes the tables know as scratch may become lazily filled caches)
                stores = [m for b in n.body for m in ast.walk(b) if isinstance(m, ast.Assign)
                          and any(isinstance(tt, ast.Attribute) and tt.attr == x or (isinstance(tt, ast.Tuple) and any(
                              isinstance(e, ast.Attribute) and e.attr == x for e in tt.elts)) for tt in m.targets)]
                if stores:
                    found.setdefault(x, []).append((cls, f))
    from .components import DERIVED_ATTRS
    for x, sites in found.items():
        reads = set()
        dim = None
        for cls, f in sites:
            try:
                r = Interp(index).run_entry(f, cls)
            except RecursionError:
                continue
            reads |= {e.loc[1] for e in r["events"] if e.type == "read" and e.loc[0] == "self" and e.loc[1] != x}
            for e in r["events"]:
                if e.type == "write" and e.loc == ("self", x) and e.rhs is not None and not e.rhs.has_const():
                    dim = (e.rhs.dim, e.rhs.kind if e.rhs.kind in ("arr", "float") else "arr")
        CACHE_PARTS[x] = ("",)
        EXTRA_CACHE_READS[x] = reads
        if dim is not None and x not in ATTR:
            ATTR[x] = dim                      # the degree of what the fill stores (so that readers are typed)
            DERIVED_ATTRS.add(x)


def register_cached_properties(index: Index, cls: ClassInfo):
    """every functools.cached_property of the hierarchy is a cache: unknown ones are registered with the set of
    state attributes their getter reads (conservative: dirty whenever one of them is written, whatever the kind)."""
    from .components import CACHE_PARTS, EXTRA_CACHE_READS, bind_tables
    bind_tables(index)
    for c in cls.mro:
        for name, p in c.props.items():
            if p.cached and name not in CACHE_PARTS:
                it = Interp(index)
                r = it.run_entry(p.getter, cls)
                reads = {e.loc[1] for e in r["events"] if e.type == "read" and e.loc[0] == "self"}
                CACHE_PARTS[name] = ("",)
                EXTRA_CACHE_READS[name] = reads


def tracked_objects(index: Index, interp_cls: ClassInfo, it: Interp):
    """oid -> cache attrs stored by that object's class ('self' and composite fields)."""
    register_lazy_caches(index)
    register_cached_properties(index, interp_cls)
    for c in interp_cls.mro:
        for (cn, attr), comp in it.composites.items():
            if cn == c.name:
                register_cached_properties(index, comp)
    tracked = {}
    tracked["self"] = {a for a in stored_attrs(interp_cls) if a in CACHE_PARTS}
    for c in interp_cls.mro:
        for (cn, attr), comp in it.composites.items():
            if cn == c.name:
                tracked[f"self.{attr}"] = {a for a in stored_attrs(comp) if a in CACHE_PARTS}
    # `_centroid` is a cache wherever a vertex-based class stores it (derived from the vertices); curved shapes store it as primary
    for oid in list(tracked):
        cls = interp_cls if oid == "self" else None
        if oid != "self":
            attr = oid.split(".", 1)[1]
            cls = it.composite_of(interp_cls, attr)
        from .model import VERTEX_BASED
        if cls is None or cls.name not in VERTEX_BASED:
            tracked[oid].discard("_centroid")        # curved shapes: the centre is primary state
    return tracked


def derive_scratch(index: Index):
    """attributes that are scratch: every read in every public entry is preceded by a write in the same entry."""
    register_lazy_caches(index)
    rb = ReadBeforeWrite()
    n = 0
    for cls in index.shape_classes():
        for name, m in sorted(cls.public_members().items()):
            if name in NON_API:
                continue
            fns = []
            if isinstance(m, PropInfo):
                p = index.effective_prop(cls, name)
                fns = [f for f in (p.getter, p.setter) if f is not None]
            elif isinstance(m, FuncInfo):
                fns = [m]
            for f in fns:
                if name == "__init__":
                    continue
                it = Interp(index, [rb])
                it.run_entry(f, cls)
                n += 1
    scratch = {a for a in rb.written if a not in rb.persistent and a.startswith("_")}
    scratch |= accessor_private_attrs(index)
    return scratch, rb, n


def _lookup_or_compute(fnode, name):
    """every store `self.<name> = ...` sits under an `if` whose test looks at the current value of the attribute (directly, through
    __dict__ / getattr, or through a local bound from it), and the attribute is never written in place: a memo that is either
    reused or recomputed - not a buffer that is overwritten, not a counter, not a flag set unconditionally."""
    mentions = lambda e: any((isinstance(n, ast.Attribute) and n.attr == name) or (isinstance(n, ast.Constant) and n.value == name) for n in ast.walk(e))
    locals_from = {t.id for n in ast.walk(fnode) if isinstance(n, ast.Assign) and mentions(n.value) for t in n.targets if isinstance(t, ast.Name)}
    looks = lambda e: mentions(e) or any(isinstance(n, ast.Name) and n.id in locals_from for n in ast.walk(e))
    parents = {}
    for p_ in ast.walk(fnode):
        for c_ in ast.iter_child_nodes(p_):
            parents[c_] = p_
    stores = [n for n in ast.walk(fnode) if isinstance(n, ast.Assign)
              and any(isinstance(t, ast.Attribute) and t.attr == name and isinstance(t.value, ast.Name) and t.value.id == "self" for t in n.targets)]
    if not stores:
        return False
    for n in ast.walk(fnode):
        # in-place writes into the attribute
        if isinstance(n, (ast.AugAssign,)) and mentions(n.target):
            return False
        if isinstance(n, ast.Assign) and any(isinstance(t, ast.Subscript) and mentions(t.value) for t in n.targets):
            return False
    for st_ in stores:
        if isinstance(st_.value, ast.Constant) and st_.value.value is None:
            continue
        p_ = parents.get(st_)
        guarded = False
        while p_ is not None and p_ is not fnode:
            if isinstance(p_, ast.If) and looks(p_.test):
                guarded = True
                break
            p_ = parents.get(p_)
        if not guarded:
            return False
    return True


def accessor_private_attrs(index: Index):
    """Attributes every access of which (self._x, self.__dict__["_x"], self.__dict__.get("_x"), getattr(self, "_x")) sits in ONE
    function and which the tables do not know: a memo private to its accessor.  The rest of the program only ever sees what
    the accessor returns, so the attribute is not observable state (it is treated like scratch); that the accessor's result
    is a function of the current geometry is judged on the accessor's return value like any other query."""
    from .model import ATTR, PRIMARY
    from .components import CACHE_PARTS
    cached = getattr(index, "_accessor_private", None)
    if cached is not None:
        return cached
    where = {}
    for cls in index.shape_classes():
        fns = list(cls.methods.values()) + [x for p in cls.props.values() for x in (p.getter, p.setter) if x]
        for f in fns:
            for n in ast.walk(f.node):
                name = None
                if isinstance(n, ast.Attribute) and isinstance(n.value, ast.Name) and n.value.id == "self" and n.attr.startswith("_") \
                        and not n.attr.startswith("__"):
                    name = n.attr
                elif isinstance(n, ast.Constant) and isinstance(n.value, str) and n.value.startswith("_") and not n.value.startswith("__"):
                    name = n.value          # a string key of __dict__ / getattr / setattr
                if name is not None:
                    where.setdefault(name, set()).add((cls.name, f.name, id(f.node)))
    fn_by_id = {}
    for cls in index.shape_classes():
        for f in list(cls.methods.values()) + [x for p in cls.props.values() for x in (p.getter, p.setter) if x]:
            fn_by_id[id(f.node)] = f.node
    out = set()
    for name, sites in where.items():
        if name in ATTR or name in PRIMARY or name in CACHE_PARTS:
            continue
        if len({s[2] for s in sites}) == 1:
            fnode = fn_by_id.get(next(iter(sites))[2])
            if fnode is not None and _lookup_or_compute(fnode, name):
                out.add(name)
    # keep only names that are stored as attributes (not arbitrary string constants)
    stored = set()
    for cls in index.shape_classes():
        stored |= stored_attrs(cls)
    out &= stored
    index._accessor_private = out
    return out
