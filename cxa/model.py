"""Frozen tables about the code base (one line of reason each); cross-checked at run time.

Everything here is *data the checkers consult*; anything missing from a table is treated as
unknown (TOP / 'other'), recorded in the evidence, and never alarms.
"""

from .values import D, D0, COLS, TOP, ANY

# state attribute -> (dimension, kind)   (dimension = length exponent)
ATTR = {
    "_vertices": (D(1), "arr"),            # coordinates
    "_radius": (D(1), "float"),            # rounding / circle / sphere radius
    "_a": (D(1), "float"), "_b": (D(1), "float"), "_c": (D(1), "float"),  # semi axes
    "_centroid": (D(1), "arr"),
    "_normal": (D0, "arr"),                # unit normal (divided by its norm)
    "_equations": (COLS((0, 0, 0, 1)), "arr"),          # (n, d): unit normal, offset
    "_simplex_equations": (COLS((0, 0, 0, 1)), "arr"),
    "_volume": (D(3), "float"),
    "_area": (D(2), "float"),
    "_simplices": (D0, "idx"),
    "_faces": (D0, "idxlist"),
    "_neighbors": (D0, "idxlist"),
    "_simplex_neighbors": (D0, "idx"),
    "_coplanar_simplices": (D0, "idxlist"),
    "_faces_are_convex": (D0, "bool"),
    "_simplex_areas": (D(2), "arr"),
    "_face_centroids": (D(1), "arr"),
    "_maximal_extents": (D(1), "arr"),
    "_ndim": (D0, "int"),
    "edges": (D0, "idx"),
    # families
    "_data": (D0, "dict"), "_shape_names": (D0, "list"), "_shape_specs": (D0, "list"),
}

# entry parameter name -> (dimension, kind)
PARAM = {
    "vertices": (D(1), "arr"), "points": (D(1), "arr"), "center": (D(1), "arr"),
    "radius": (D(1), "float"), "a": (D(1), "float"), "b": (D(1), "float"), "c": (D(1), "float"),
    "q": (D(-1), "arr"),
    "angles": (D0, "arr"), "scale": (D0, "float"), "scale_factor": (D0, "float"),
    "density": (D0, "float"), "atol": (D0, "float"), "rtol": (D0, "float"),
    "planar_tolerance": (D0, "float"), "tol": (D0, "float"),
    "faces": (D0, "idxlist"), "face": (D0, "other"), "normal": (D0, "arr"),
    "test_simple": (D0, "bool"), "faces_are_convex": (D0, "bool"), "centered": (D0, "bool"),
    "filename": (D0, "str"), "filetype": (D0, "str"), "attributes": (D0, "list"),
    "displacement": (D(1), "arr"), "inertia_tensor": (TOP, "arr"), "volume": (TOP, "float"),
    "rotation": (D0, "arr"), "tensor": (TOP, "arr"),
    "polygon": (D(1), "list"),  # polytri
    "n": (D0, "int"), "truncation": (D0, "float"),
}

# primary (defining) vs derived state, per attribute
PRIMARY = {"_vertices", "_faces", "_faces_are_convex", "_simplices", "_simplex_neighbors", "_normal",
           "_radius", "_a", "_b", "_c", "_centroid", "_polygon", "_polyhedron"}

# classes whose centroid is stored state (primary); for vertex-based classes it is derived
CURVED = {"Circle", "Sphere", "Ellipse", "Ellipsoid"}
VERTEX_BASED = {"Polygon", "ConvexPolygon", "ConvexSpheropolygon", "Polyhedron", "ConvexPolyhedron",
                "ConvexSpheropolyhedron"}

# getters that hand out internal storage by reference (derived again by the checker: a getter
# whose returned value aliases a state attribute)
