"""Rename detection for private helpers (the reference is the confirmed tree).

Many rules are anchored on private helpers of the library (`_rescale`, `_find_equations`, `_make_ngon` ...): their names are
not part of any property, and renaming one is behaviour preserving.  `cxa/private_ref.json` (written by tools/mkconfirmed.py
from the confirmed tree) records, per container (class or module), the private functions with their source text in which
every private-function name is masked.  When a recorded name is missing from its container and the container holds private
functions the reference does not know, the two sets are matched by text similarity; a unique, sufficiently similar match is
a rename, and the function (with every reference to it, in the whole package) is given its reference name back *in the
parsed trees only*.  Everything downstream (anchors, instance keys, evidence) then reads the tree as if the helper had
kept its name; the evidence lists the renames that were undone.

No match (a helper that was removed or rewritten beyond recognition) leaves the tree alone: the rule that needs the anchor
reports an analysis error, as before.  A wrong match cannot be silent either: the matched function is analysed as the
helper, so a rule either judges its body or leaves its fragment.
"""
from __future__ import annotations

import ast
import difflib
import json
import os
import re

REF_FILE = os.path.join(os.path.dirname(__file__), "private_ref.json")
THRESHOLD = 0.6
MARGIN = 0.08
MOVED_THRESHOLD = 0.75


def _is_accessor(n):
    return any((isinstance(d, ast.Name) and d.id in ("property", "cached_property")) or
               (isinstance(d, ast.Attribute) and d.attr in ("setter", "getter", "deleter", "cached_property"))
               for d in n.decorator_list)


def private_functions(trees):
    """{container: {name: FunctionDef}} for module-level functions and methods named `_x` (not dunder, not accessors).
    `trees`: {dotted module name: ast.Module}."""
    out = {}
    for mod, tree in trees.items():
        for n in tree.body:
            if isinstance(n, (ast.FunctionDef, ast.AsyncFunctionDef)):
                if n.name.startswith("_") and not n.name.startswith("__"):
                    out.setdefault(mod, {})[n.name] = n
            elif isinstance(n, ast.ClassDef):
                for m in n.body:
                    if isinstance(m, (ast.FunctionDef, ast.AsyncFunctionDef)) and m.name.startswith("_") and not m.name.startswith("__") \
                            and not _is_accessor(m):
                        out.setdefault(f"{mod}:{n.name}", {})[m.name] = m
    return out


def _strip_doc(fn):
    body = fn.body
    if body and isinstance(body[0], ast.Expr) and isinstance(body[0].value, ast.Constant) and isinstance(body[0].value.value, str):
        body = body[1:] or [ast.Pass()]
    return body


def masked_text(fn, private_names):
    """source of the function without docstring, its own name and every private-function name replaced by `_F`."""
    import copy
    f2 = copy.deepcopy(fn)
    f2.body = _strip_doc(f2)
    f2.name = "_F"
    f2.decorator_list = []
    for n in ast.walk(f2):
        if isinstance(n, ast.Name) and n.id in private_names:
            n.id = "_F"
        elif isinstance(n, ast.Attribute) and n.attr in private_names:
            n.attr = "_F"
        elif isinstance(n, (ast.FunctionDef, ast.AsyncFunctionDef)) and n.name in private_names:
            n.name = "_F"
    # locals (parameters other than self / cls, assigned names) numbered in order of first appearance: a rename of the
    # helper that comes with a rename of its locals still matches
    local = set()
    for n in ast.walk(f2):
        if isinstance(n, ast.arg) and n.arg not in ("self", "cls"):
            local.add(n.arg)
        elif isinstance(n, ast.Name) and isinstance(n.ctx, (ast.Store, ast.Del)):
            local.add(n.id)
    order = {}

    class _R(ast.NodeVisitor):
        def visit_arg(self, n):
            if n.arg in local:
                n.arg = order.setdefault(n.arg, f"v{len(order)}")

        def visit_Name(self, n):
            if n.id in local:
                n.id = order.setdefault(n.id, f"v{len(order)}")

        def visit_keyword(self, n):
            self.generic_visit(n)
    # the signature is not compared (a method that becomes a function gains / loses parameters): locals are numbered by their
    # first appearance in the body
    for st_ in f2.body:
        _R().visit(st_)
    return "\n".join(ast.unparse(st_) for st_ in f2.body)


def reference_of(trees):
    pf = private_functions(trees)
    names = {n for c in pf.values() for n in c}
    return {c: {n: masked_text(f, names) for n, f in fs.items()} for c, fs in pf.items()}


def _sim(a, b):
    if a == b:
        return 1.0
    ta, tb = re.findall(r"\w+|\S", a), re.findall(r"\w+|\S", b)
    return difflib.SequenceMatcher(None, ta, tb, autojunk=False).ratio()


def detect(trees, ref=None):
    """-> {current name: reference name} for the private helpers that were renamed (consistent over the whole package)."""
    if ref is None:
        if not os.path.exists(REF_FILE):
            return {}
        ref = json.load(open(REF_FILE))
    cur = private_functions(trees)
    cur_names = {n for c in cur.values() for n in c}
    ref_names = {n for c in ref.values() for n in c}
    votes = {}            # new -> {old: best similarity}
    for cont, rfs in ref.items():
        cfs = cur.get(cont, {})
        missing = [n for n in rfs if n not in cfs]
        extra = [n for n in cfs if n not in rfs and n not in ref_names]
        if not missing or not extra:
            continue
        texts = {n: masked_text(cfs[n], cur_names) for n in extra}
        cand = []
        for old in missing:
            row = sorted(((_sim(rfs[old], texts[new]), new) for new in extra), reverse=True)
            if not row or row[0][0] < THRESHOLD:
                continue
            if len(row) > 1 and row[0][0] - row[1][0] < MARGIN and row[0][0] < 0.999:
                continue            # ambiguous
            cand.append((row[0][0], old, row[0][1]))
        taken_new = {}
        for s, old, new in sorted(cand, reverse=True):
            if new in taken_new:
                continue            # two reference helpers claim the same function: the better one keeps it
            taken_new[new] = old
            votes.setdefault(new, {}).setdefault(old, s)
    mapping = {}
    for new, olds in votes.items():
        if len(olds) == 1:
            old = next(iter(olds))
            mapping[new] = old
    # helpers that moved to another container (method <-> module function, another module): reference names that occur nowhere
    # in the current tree are matched against the unknown private functions of the whole package, with a higher threshold
    cur_all = {}
    for cont, cfs in cur.items():
        for n, f in cfs.items():
            cur_all.setdefault(n, []).append((cont, f))
    gone = {}
    for cont, rfs in ref.items():
        for old, text in rfs.items():
            if old not in cur_names and old not in mapping.values():
                gone.setdefault(old, []).append(text)
    unknown = {n: v for n, v in cur_all.items() if n not in ref_names and n not in mapping}
    if gone and unknown:
        utexts = {n: [masked_text(f, cur_names) for (_c, f) in v] for n, v in unknown.items()}
        cand = []
        for old, texts in gone.items():
            row = sorted(((max(_sim(t_, u_) for t_ in texts for u_ in us), new) for new, us in utexts.items()), reverse=True)
            if row and row[0][0] >= MOVED_THRESHOLD and (len(row) == 1 or row[0][0] - row[1][0] >= MARGIN):
                cand.append((row[0][0], old, row[0][1]))
        taken = set()
        for s_, old, new in sorted(cand, reverse=True):
            if new in taken or new in mapping:
                continue
            taken.add(new)
            mapping[new] = old
    # one reference name is claimed by one current name only, and must not be in use for anything else in the current tree
    inv = {}
    for new, old in mapping.items():
        inv.setdefault(old, []).append(new)
    used = set()
    for tree in trees.values():
        for n in ast.walk(tree):
            if isinstance(n, ast.Attribute):
                used.add(n.attr)
            elif isinstance(n, ast.Name):
                used.add(n.id)
            elif isinstance(n, (ast.FunctionDef, ast.AsyncFunctionDef, ast.ClassDef)):
                used.add(n.name)
    mapping = {new: old for new, old in mapping.items() if len(inv[old]) == 1 and old not in used}
    return mapping


def apply(trees, mapping):
    if not mapping:
        return
    for tree in trees.values():
        for n in ast.walk(tree):
            if isinstance(n, (ast.FunctionDef, ast.AsyncFunctionDef)) and n.name in mapping:
                n.name = mapping[n.name]
            elif isinstance(n, ast.Name) and n.id in mapping:
                n.id = mapping[n.id]
            elif isinstance(n, ast.Attribute) and n.attr in mapping:
                n.attr = mapping[n.attr]
            elif isinstance(n, ast.ImportFrom):
                for al in n.names:
                    if al.name in mapping:
                        al.name = mapping[al.name]
                    if al.asname and al.asname in mapping:
                        al.asname = mapping[al.asname]
