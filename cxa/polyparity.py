"""Orientation parity / axis support of the Polygon measures (clients: C04, C12)."""

from __future__ import annotations

import ast
from fractions import Fraction

from . import cyc
from .algebra import Poly
from .cyc import SV, Evaluator, NotInFragment, fatom, parity, axis_signature
from .index import AnalysisError

ODD_ATOMS = {"SAREA", "SGN"}


def _reverse_with_odd(p: Poly) -> Poly:
    r = cyc.reverse_poly(p)
    out = Poly()
    for mono, c in r.terms.items():
        sign = 1
        for a, e in mono:
            if a in ODD_ATOMS and e.denominator == 1 and e.numerator % 2:
                sign = -sign
        out = out + Poly({mono: c * sign})
    return out


def par(p: Poly) -> str:
    a = cyc.normalise(p)
    b = cyc.normalise(_reverse_with_odd(p))
    if a.is_zero():
        return "zero"
    if a == b:
        return "even"
    if (a + b).is_zero():
        return "odd"
    return "mixed"


def base_env():
    verts = SV("cyc", [Poly.atom(cyc.sym(c, 0)) for c in "xyz"])
    normal = SV("vec", [Poly.atom(f"n.{c}") for c in "xyz"])
    centre = SV("vec", [Poly.atom(f"c.{c}") for c in "xyz"])
    attr = {
        "self.centroid": centre, "self.center": centre,
        "self.vertices": verts, "self._vertices": verts,
        "self.normal": normal, "self._normal": normal,
        "self.area": SV("scal", [Poly.atom("AREA")]),
        "self.signed_area": SV("scal", [Poly.atom("SAREA")]),
        "self.num_vertices": SV("scal", [Poly.atom("NV")]),
    }
    return attr


def hooks():
    def align(ev, n):
        pts = cyc.aligned_points_arg(ev, n)
        return SV("tuple", items=[pts, SV("rot")])

    def argmax(ev, n):
        return SV("colsym", [Poly.atom("p")])

    def mod(ev, n):
        # np.mod(proj_coord + k, 3): the two in-plane coordinates
        a0 = n.args[0]
        k = None
        if isinstance(a0, ast.BinOp) and isinstance(a0.op, ast.Add):
            for side in (a0.right, a0.left):
                if isinstance(side, ast.Constant) and isinstance(side.value, int):
                    k = str(side.value)
        if k is None:
            k = ast.unparse(a0).strip()[-1]
        return SV("colsym", [Poly.atom({"1": "u", "2": "w"}.get(k, "u"))])

    def norm(ev, n):
        v = ev.ev(n.args[0])
        if v.kind == "cyc":
            tot = Poly()
            for c in v.comps:
                tot = tot + c * c
            return SV("cyc", [fatom("abs", tot)], v.summed)
        return SV("scal", [Poly.atom("AN")])

    def isclose(ev, n):
        return SV("scal", [Poly.atom("MASK")])

    def zeros(ev, n):
        return SV("scal", [Poly.const(0)])

    def sign(ev, n):
        v = ev.ev(n.args[0])
        if v.comps and v.comps[0] == Poly.atom("SAREA"):
            return SV("scal", [Poly.atom("SGN")])
        if v.kind in ("scal", "cyc") and len(v.comps) == 1:
            # sign() is odd: canonicalise through an odd function atom
            return SV(v.kind, [fatom("sign", v.comps[0])], v.summed)
        raise NotInFragment("sign of a non-orientation quantity")

    def length(ev, n):
        return SV("scal", [Poly.atom("LEN")])

    return {"_align_points_by_normal": align, "np.argmax": argmax, "np.mod": mod, "np.linalg.norm": norm,
            "np.isclose": isclose, "np.zeros": zeros, "np.sign": sign, "len": length}


class PolyEval(Evaluator):
    def __init__(self, attr, extra_env=None):
        super().__init__(extra_env or {}, attr, hooks())
        self.masked_stores = {}
        self.result_names = set()      # the local(s) the function returns: stores into them are the branches of the result

    def subscript(self, n):
        # self._normal[proj_coord]
        if ast.unparse(n.value) in ("self._normal", "self.normal") and isinstance(n.slice, ast.Name) \
                and n.slice.id in self.env and self.env[n.slice.id].kind == "colsym":
            return SV("scal", [Poly.atom("NPROJ")])
        return super().subscript(n)

    methods = None        # name -> FunctionDef of the polygon classes (zero-argument private helpers are inlined)

    def call(self, n):
        f = n.func
        if isinstance(f, ast.Attribute) and isinstance(f.value, ast.Name) and f.value.id == "self" and not n.keywords \
                and self.methods and f.attr in self.methods and getattr(self, "_depth", 0) < 3:
            # self._helper(args): evaluate its body; a lazy fill `if self._x is None: self._x = ...` is taken (the value a
            # coherent cache holds is the one the fill computes)
            fdef = self.methods[f.attr]
            params = [a.arg for a in fdef.args.args][1:]
            if len(params) == len(n.args):
                argv = [self.ev(a) for a in n.args]
                self._depth = getattr(self, "_depth", 0) + 1
                try:
                    return self._inline(fdef, dict(zip(params, argv)))
                except NotInFragment:
                    # the helper leaves the fragment: is its result a rotation matrix (abstract interpreter, tag 'orth')?
                    if not n.args and self.is_rotation is not None and self.is_rotation(f.attr):
                        return SV("rot")
                    raise
                finally:
                    self._depth -= 1
        return super().call(n)

    is_rotation = None       # callable(method name) -> bool, supplied by evaluate()

    def _inline(self, fdef, bound=None):
        saved_env, saved_names = self.env, self.result_names
        self.env, self.result_names = dict(bound or {}), set()
        try:
            for s in fdef.body:
                if isinstance(s, ast.Expr) and isinstance(s.value, ast.Constant):
                    continue
                if isinstance(s, ast.If) and not s.orelse and isinstance(s.test, ast.Compare) and len(s.test.ops) == 1 \
                        and isinstance(s.test.ops[0], ast.Is) and isinstance(s.test.comparators[0], ast.Constant) and s.test.comparators[0].value is None:
                    for b in s.body:
                        Evaluator.run(self, [b])
                    continue
                if isinstance(s, ast.Return):
                    return self.ev(s.value)
                Evaluator.run(self, [s])
            raise NotInFragment("helper without return")
        finally:
            self.env, self.result_names = saved_env, saved_names

    def bind(self, t, v):
        if isinstance(t, ast.Attribute) and isinstance(t.value, ast.Name) and t.value.id == "self":
            self.attr["self." + t.attr] = v        # a store into a (cache) attribute inside an inlined helper
            return
        if isinstance(t, ast.Name) and t.id == "_":
            return
        if isinstance(t, ast.Subscript) and isinstance(t.value, ast.Name) and t.value.id in self.result_names:
            self.masked_stores[ast.unparse(t.slice)] = v
            return
        Evaluator.bind(self, t, v)

    def run(self, stmts):
        out = None
        for s in stmts:
            if isinstance(s, ast.AugAssign) and isinstance(s.target, ast.Name) and s.target.id in self.result_names:
                continue
            r = super().run([s])
            if isinstance(s, ast.Return):
                out = r
        return out


def constant_state(fn, index, classes=None):
    """state attributes `fn` reads beyond the geometric ones that are stored as a numeric constant somewhere in the polygon
    classes (an orientation flag set to 1.0 at construction ...): on the histories that take that store the attribute is
    orientation-free - the measure is evaluated with that value."""
    # (only stores made by the class that defines the measure and its bases: a subclass that normalises the vertex order -
    # ConvexPolygon sorts counter-clockwise - may rightly store a constant orientation)
    if classes is None:
        classes = [c.name for c in fn.cls.mro] if fn.cls is not None else ["Polygon"]
    known_attr = set(base_env())
    out = {}
    reads = {a_.attr for a_ in ast.walk(fn.node) if isinstance(a_, ast.Attribute) and isinstance(a_.value, ast.Name) and a_.value.id == "self"
             and isinstance(a_.ctx, ast.Load) and f"self.{a_.attr}" not in known_attr}
    for cn_ in classes:
        if cn_ not in index.classes:
            continue
        cdef = index.cls(cn_)
        for f_ in list(cdef.methods.values()) + [x for p_ in cdef.props.values() for x in (p_.getter, p_.setter) if x]:
            for st_ in ast.walk(f_.node):
                if isinstance(st_, ast.Assign) and isinstance(st_.value, ast.Constant) and isinstance(st_.value.value, (int, float)) \
                        and not isinstance(st_.value.value, bool):
                    for t_ in st_.targets:
                        if isinstance(t_, ast.Attribute) and isinstance(t_.value, ast.Name) and t_.value.id == "self" and t_.attr in reads \
                                and not _overwritten_later(f_.node, st_, t_.attr):
                            out[f"self.{t_.attr}"] = SV("scal", [Poly.const(st_.value.value)])
    return out


def _overwritten_later(fn_node, store, attr):
    """the constant store is a placeholder: an unconditional store into the same attribute follows it in the same block or
    in a block that encloses it (then no history keeps the constant)."""
    def stores_attr(s_):
        return isinstance(s_, (ast.Assign, ast.AugAssign)) and any(
            isinstance(t_, ast.Attribute) and isinstance(t_.value, ast.Name) and t_.value.id == "self" and t_.attr == attr
            for t_ in (s_.targets if isinstance(s_, ast.Assign) else [s_.target]))

    def visit(block):
        """-> True if `store` lies in this block (at any depth) and is overwritten by a later statement of this block or of a block below"""
        for i, s_ in enumerate(block):
            if s_ is store:
                return any(stores_attr(x) for x in block[i + 1:]), True
            for sub in (getattr(s_, "body", None), getattr(s_, "orelse", None), getattr(s_, "finalbody", None)):
                if isinstance(sub, list):
                    r_ = visit(sub)
                    if r_[1]:
                        return (r_[0] or any(stores_attr(x) for x in block[i + 1:])), True
            for h in getattr(s_, "handlers", []) or []:
                r_ = visit(h.body)
                if r_[1]:
                    return (r_[0] or any(stores_attr(x) for x in block[i + 1:])), True
        return False, False
    return visit(fn_node.body)[0]


def evaluate(fn, extra_env=None, extra_attr=None, index=None):
    attr = base_env()
    if index is not None and extra_attr is None:
        extra_attr = constant_state(fn, index)
    attr.update(extra_attr or {})
    ev = PolyEval(attr, extra_env)
    if fn.cls is not None:
        ev.methods = {}
        infos = {}
        for c in reversed(fn.cls.mro):
            for name, m in c.methods.items():
                ev.methods[name] = m.node
                infos[name] = m
        if index is not None:
            def _is_rot(name, _cache={}):
                if name not in _cache:
                    from .interp import Interp
                    try:
                        r = Interp(index).run_entry(infos[name], fn.cls)
                        v = r["result"]
                        _cache[name] = v is not None and "orth" in v.tags
                    except Exception:
                        _cache[name] = False
                return _cache[name]
            ev.is_rotation = _is_rot
    ev.functions = {k_: v_.node for k_, v_ in fn.module.functions.items() if k_ not in ("_align_points_by_normal",)}
    ev.result_names = {n.value.id for n in ast.walk(fn.node) if isinstance(n, ast.Return) and isinstance(n.value, ast.Name)}
    body = [s for s in fn.node.body if not (isinstance(s, ast.Expr) and isinstance(s.value, ast.Constant))]
    ret = ev.run(body)
    return ret, ev
