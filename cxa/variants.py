"""Seeded faults and behaviour-preserving rewrites for the checker self-test (thorough tier).

Each entry: id, kind ('fault' | 'rewrite'), props (checks that must fire / stay silent), optional
rule (prefix of the rule expected to fire), file (relative to the repo root), old, new.
"""

P = "coxeter/shapes/"

VARIANTS = []


def V(id, kind, props, file, old, new, rule=None, **kw):
    VARIANTS.append(dict(id=id, kind=kind, props=props if isinstance(props, list) else [props], file=file,
                         old=old, new=new, rule=rule, **kw))


# ------------------------------------------------------------------------------------------ C03
V("c03-drop-find-equations-centroid", "fault", "C03", P + "polyhedron.py",
  "        self._vertices += np.asarray(value) - self.centroid\n        self._find_equations()\n",
  "        self._vertices += np.asarray(value) - self.centroid\n", rule="COH-1")
V("c03-drop-simplex-eq-scale", "fault", "C03", P + "convex_polyhedron.py",
  "        self._simplex_equations[:, 3] *= scale_factor\n", "", rule="COH-1")
V("c03-wrong-power-area", "fault", "C03", P + "convex_polyhedron.py",
  "self._area = self._area * scale_factor**2", "self._area = self._area * scale_factor**3", rule="COH-3")
V("c03-wrong-power-volume", "fault", "C03", P + "convex_polyhedron.py",
  "self._volume = self._volume * scale_factor**3", "self._volume = self._volume * scale_factor**2", rule="COH-3")
V("c03-centroid-before-volume", "fault", "C03", P + "convex_polyhedron.py",
  "        self._volume = self._volume * scale_factor**3\n        self._area = self._area * scale_factor**2\n\n        # Recalculate centroid of shape\n        self._centroid_from_triangulated_surface()\n",
  "        self._centroid_from_triangulated_surface()\n        self._volume = self._volume * scale_factor**3\n        self._area = self._area * scale_factor**2\n",
  rule="COH-2")
V("c03-drop-equation-offset-scale-polyhedron", "fault", "C03", P + "polyhedron.py",
  "        self._vertices *= scale\n        self._equations[:, 3] *= scale\n", "        self._vertices *= scale\n", rule="COH-1")
V("c03-drop-det-normalisation", "fault", "C03", P + "polyhedron.py",
  "        if np.linalg.det(principal_axes) < 0:\n            principal_axes[:, 0] *= -1\n", "", rule="ROT-1")
V("c03-drop-refind-after-diag", "fault", "C03", P + "convex_polyhedron.py",
  "        self._sort_simplices()\n        self._find_equations()\n", "        self._sort_simplices()\n", rule="COH-1")
V("c03-drop-edges-invalidation", "fault", "C03", P + "convex_polyhedron.py",
  '        self.__dict__.pop("edges", None)\n', "", rule="COH-4")
V("c03-drop-flip-equations", "fault", "C03", P + "polyhedron.py",
  "                self._faces[i] = self._faces[i][::-1]\n                self._equations[i] *= -1\n",
  "                self._faces[i] = self._faces[i][::-1]\n", rule="COH-1")
V("c03-centroid-setter-skip-simplex-eq", "fault", "C03", P + "convex_polyhedron.py",
  "        self._find_equations()\n        self._find_simplex_equations()\n        self._centroid_from_triangulated_surface()\n",
  "        self._find_equations()\n        self._centroid_from_triangulated_surface()\n", rule="COH-1")
V("c03-ctor-skip-neighbors", "fault", "C03", P + "polyhedron.py",
  "        self._find_equations()\n        self._find_neighbors()\n\n    def _find_equations",
  "        self._find_equations()\n\n    def _find_equations", rule="COH-0")
V("c03-sphero-rescale-bypass", "fault", ["C03"], P + "convex_spheropolyhedron.py",
  "        self.polyhedron._rescale(scale)\n", "        self.polyhedron._vertices *= scale\n", rule="COH-1")
V("c03-rw-rename-local", "rewrite", ["C03", "C08"], P + "convex_polyhedron.py",
  "        scale_factor = np.cbrt(value / self._volume)\n            self._rescale(scale_factor)",
  "        sf = np.cbrt(value / self._volume)\n            self._rescale(sf)")
V("c03-rw-volume-inplace-form", "rewrite", "C03", P + "convex_polyhedron.py",
  "self._volume = self._volume * scale_factor**3", "self._volume = scale_factor**3 * self._volume")
V("c03-rw-reorder-independent", "rewrite", "C03", P + "convex_polyhedron.py",
  "        self._equations[:, 3] *= scale_factor\n        self._simplex_equations[:, 3] *= scale_factor\n",
  "        self._simplex_equations[:, 3] *= scale_factor\n        self._equations[:, 3] *= scale_factor\n")
V("c03-rw-del-edges", "rewrite", "C03", P + "polyhedron.py",
  '        self.__dict__.pop("edges", None)\n', '        if "edges" in self.__dict__:\n            del self.edges\n')

# ------------------------------------------------------------------------------------------ C07
V("c07-normal-operands-swapped", "fault", "C07", P + "polyhedron.py",
  "                self.vertices[face[2]] - self.vertices[face[1]],\n                self.vertices[face[0]] - self.vertices[face[1]],",
  "                self.vertices[face[0]] - self.vertices[face[1]],\n                self.vertices[face[2]] - self.vertices[face[1]],", rule="NRM-1")
V("c07-convex-normal-operands-swapped", "fault", "C07", P + "convex_polyhedron.py", "        normals = np.cross(v1, v2)", "        normals = np.cross(v2, v1)", rule="NRM-1")
V("c07-rw-normal-consecutive-edges", "rewrite", "C07", P + "convex_polyhedron.py", "        v2 = vertices[:, 0] - vertices[:, 1]", "        v2 = vertices[:, 0] - vertices[:, 2]")
V("c07-normal-not-normalised", "fault", "C07", P + "polyhedron.py", "            normal /= np.linalg.norm(normal)\n", "", rule="NRM-2")
V("c07-kabsch-minus-z", "fault", "C07", P + "convex_polyhedron.py",
  "                [normal, -normal], [[0, 0, 1], [0, 0, -1]]\n            )\n            vertices = np.dot(vertices - np.mean(vertices, axis=0), rotation.T)",
  "                [normal, -normal], [[0, 0, -1], [0, 0, 1]]\n            )\n            vertices = np.dot(vertices - np.mean(vertices, axis=0), rotation.T)", rule="CCW-1")
V("c07-lexsort-keys-swapped", "fault", "C07", P + "convex_polyhedron.py",
  "            vert_order = np.lexsort((distances, angles))\n\n            # Apply reordering to every simplex", "            vert_order = np.lexsort((angles, distances))\n\n            # Apply reordering to every simplex", rule="CCW-1")
V("c07-neighbors-one-direction", "fault", "C07", P + "polyhedron.py", "            self._neighbors[i].append(j)\n            self._neighbors[j].append(i)\n", "            self._neighbors[i].append(j)\n", rule="NBR-1")
V("c07-pairs-skip-adjacent", "fault", "C07", P + "polyhedron.py", "            for j in range(i + 1, self.num_faces):", "            for j in range(i + 2, self.num_faces):", rule="NBR-2")
V("c07-pairs-cut-last", "fault", "C07", P + "polyhedron.py", "            for j in range(i + 1, self.num_faces):", "            for j in range(i + 1, self.num_faces - 1):", rule="NBR-2")
V("c07-edges-one-direction-sets", "fault", "C07", P + "polyhedron.py", "            set(_face_to_edges(f) + _face_to_edges(f, True)) for f in self.faces", "            set(_face_to_edges(f)) for f in self.faces", rule="NBR-2")
V("c07-edges-no-filter", "fault", "C07", P + "polyhedron.py", "                for i, j in zip(face, np.roll(face, -1))\n                if i < j\n", "                for i, j in zip(face, np.roll(face, -1))\n", rule="EDG-1")
V("c07-edges-open-cycle", "fault", "C07", P + "polyhedron.py", "                for i, j in zip(face, np.roll(face, -1))\n", "                for i, j in zip(face[:-1], face[1:])\n", rule="EDG-1")
V("c07-euler-off-by-one", "fault", "C07", P + "convex_polyhedron.py", "        return self.num_vertices + self.num_faces - 2", "        return self.num_vertices + self.num_faces - 1", rule="EUL-1")
V("c07-lookup-isclose", "fault", "C07", P + "polyhedron.py", "np.where(np.all(self.vertices == vertex, axis=1))[0][0]", "np.where(np.all(np.isclose(self.vertices, vertex), axis=1))[0][0]", rule="IDX-2")
V("c07-orientation-by-first-face", "fault", "C07", P + "polyhedron.py", "        if self.volume < 0:\n            for i in range(len(self.faces)):", "        if self._equations[0, 3] > 0:\n            for i in range(len(self.faces)):", rule="ORI-1")
V("c07-rw-normal-cyclic-shift", "rewrite", "C07", P + "polyhedron.py",
  "                self.vertices[face[2]] - self.vertices[face[1]],\n                self.vertices[face[0]] - self.vertices[face[1]],",
  "                self.vertices[face[0]] - self.vertices[face[2]],\n                self.vertices[face[1]] - self.vertices[face[2]],")
V("c07-rw-normal-temporaries", "rewrite", "C07", P + "convex_polyhedron.py", "        normals = np.cross(v1, v2)", "        normals = -np.cross(v2, v1)")
V("c07-rw-edges-j-greater", "rewrite", "C07", P + "polyhedron.py", "                if i < j\n", "                if j > i\n")
V("c07-rw-edges-roll-plus", "rewrite", "C07", P + "polyhedron.py", "                for i, j in zip(face, np.roll(face, -1))\n                if i < j\n", "                for j, i in zip(face, np.roll(face, 1))\n                if i < j\n")
V("c07-rw-neighbors-names", "rewrite", "C07", P + "polyhedron.py",
  "        for i, j, _ in self._get_face_intersections():\n            self._neighbors[i].append(j)\n            self._neighbors[j].append(i)\n",
  "        for first, second, _edge in self._get_face_intersections():\n            self._neighbors[second].append(first)\n            self._neighbors[first].append(second)\n")
V("c07-rw-euler-order", "rewrite", "C07", P + "convex_polyhedron.py", "        return self.num_vertices + self.num_faces - 2", "        return self.num_faces - 2 + self.num_vertices")
V("c07-rw-pairs-hoisted-count", "rewrite", "C07", P + "polyhedron.py",
  "        for i in range(self.num_faces):\n            for j in range(i + 1, self.num_faces):", "        nf = self.num_faces\n        for i in range(nf):\n            for j in range(i + 1, nf):")
# ------------------------------------------------------------------------------------------ C08
V("c08-drop-guard-convex-volume", "fault", "C08", P + "convex_polyhedron.py",
  "        if value > 0:\n            scale_factor = np.cbrt(value / self._volume)\n            self._rescale(scale_factor)\n        else:\n            raise ValueError(\"Volume must be greater than zero.\")",
  "        scale_factor = np.cbrt(value / self._volume)\n        self._rescale(scale_factor)", rule="GUARD-1")
V("c08-sqrt-for-cbrt", "fault", "C08", P + "convex_polyhedron.py",
  "np.cbrt(value / self._volume)", "np.sqrt(value / self._volume)", rule="SET")
V("c08-divide-by-other-property", "fault", "C08", P + "polyhedron.py",
  "scale = (value / self.volume) ** (1 / 3)", "scale = (value / self.surface_area) ** (1 / 3)", rule="SET-1")
V("c08-ellipsoid-rescale-partial", "fault", "C08", P + "ellipsoid.py",
  "        self.a *= scale\n        self.b *= scale\n        self.c *= scale\n", "        self.a *= scale\n        self.b *= scale\n", rule="RESC-1")
V("c08-circle-area-wrong-closed-form", "fault", "C08", P + "circle.py",
  "self.radius = np.sqrt(value / np.pi)", "self.radius = np.sqrt(value) / np.pi", rule="SET-2")
V("c08-sphere-volume-wrong-constant", "fault", "C08", P + "sphere.py",
  "self.radius = (3 * value / (4 * np.pi)) ** (1 / 3)", "self.radius = (3 * value / (2 * np.pi)) ** (1 / 3)", rule="SET-2")
V("c08-guard-nonstrict", "fault", "C08", P + "ellipse.py",
  "    def a(self, value):\n        if value > 0:", "    def a(self, value):\n        if value >= 0:", rule="GUARD-1")
V("c08-guard-after-write", "fault", "C08", P + "polygon.py",
  "        if value > 0:\n            scale = value / self.perimeter\n            self._rescale(scale)\n        else:\n            raise ValueError(\"Perimeter must be greater than zero.\")",
  "        scale = value / self.perimeter\n        self._rescale(scale)\n        if not value > 0:\n            raise ValueError(\"Perimeter must be greater than zero.\")", rule="GUARD-1")
V("c08-wrong-exception", "fault", "C08", P + "sphere.py",
  'raise ValueError("Diameter must be greater than zero.")', 'raise RuntimeError("Diameter must be greater than zero.")', rule="GUARD-3")
V("c08-silent-reject", "fault", "C08", P + "circle.py",
  "            self._radius = value\n        else:\n            raise ValueError(\"Radius must be greater than zero.\")",
  "            self._radius = value", rule="GUARD-3")
V("c08-centroid-setter-scales", "fault", "C08", P + "polygon.py",
  "        self._vertices += np.asarray(value) - self.centroid\n\n    def _triangulation",
  "        self._vertices += np.asarray(value) - self.centroid\n        self._vertices *= 1.0000001\n\n    def _triangulation", rule="TRANS-1")
V("c08-sphero-radius-not-scaled", "fault", "C08", P + "convex_spheropolygon.py",
  "        self.polygon._vertices *= scale\n        self.radius *= scale\n", "        self.polygon._vertices *= scale\n", rule="RESC-1")
V("c08-generic-radius-wrong-getter", "fault", "C08", P + "base_classes.py",
  "self._rescale(value / self.minimal_bounding_sphere_radius)", "self._rescale(value / self.minimal_centered_bounding_sphere_radius)", rule="SET-1")
V("c08-rw-guard-not-form", "rewrite", "C08", P + "sphere.py",
  "        if value > 0:\n            self._radius = value / 2\n        else:\n            raise ValueError(\"Diameter must be greater than zero.\")",
  "        if not value > 0:\n            raise ValueError(\"Diameter must be greater than zero.\")\n        self._radius = value / 2")
# (was filed as a rewrite until GUARD-4: the refusal form lets a NaN radius through - Circle(nan) is no longer refused)
V("c08-guard-le-form-admits-nan", "fault", "C08", P + "circle.py",
  "        if value > 0:\n            self._radius = value\n        else:\n            raise ValueError(\"Radius must be greater than zero.\")",
  "        if value <= 0:\n            raise ValueError(\"Radius must be greater than zero.\")\n        self._radius = value", rule="GUARD-4")
V("c08-rw-guard-not-gt-form", "rewrite", "C08", P + "circle.py",
  "        if value > 0:\n            self._radius = value\n        else:\n            raise ValueError(\"Radius must be greater than zero.\")",
  "        if not value > 0:\n            raise ValueError(\"Radius must be greater than zero.\")\n        self._radius = value")
V("c08-rw-power-form", "rewrite", "C08", P + "polyhedron.py",
  "scale = (value / self.volume) ** (1 / 3)", "scale = np.cbrt(value / self.volume)")
V("c08-rw-split-statement", "rewrite", "C08", P + "ellipse.py",
  "            scale = np.sqrt(value / self.area)\n            self._rescale(scale)",
  "            ratio = value / self.area\n            scale = np.sqrt(ratio)\n            self._rescale(scale)")

# ------------------------------------------------------------------------------------------ C15
V("c15-rw-convex-shape0", "rewrite", "C15", P + "convex_polyhedron.py",
  "        if not len(hull.vertices) == len(self._vertices):", "        if hull.vertices.size != self._vertices.shape[0]:")
V("c15-rw-convex-setdiff", "rewrite", "C15", P + "convex_polyhedron.py",
  "        if not len(hull.vertices) == len(self._vertices):", "        if set(range(len(self._vertices))) - set(hull.vertices):")
V("c15-convex-hull-against-itself", "fault", "C15", P + "convex_polyhedron.py",
  "        if not len(hull.vertices) == len(self._vertices):", "        if set(range(len(hull.vertices))) - set(hull.vertices):", rule="CT-2")
V("c15-rw-duplicates-unique-len", "rewrite", "C15", P + "polygon.py",
  "        _, indices = np.unique(vertices, axis=0, return_index=True)\n        if len(indices) != vertices.shape[0]:",
  "        if len(np.unique(vertices, axis=0)) != len(vertices):")
V("c15-duplicates-npdiff", "fault", "C15", P + "polygon.py",
  "        _, indices = np.unique(vertices, axis=0, return_index=True)\n        if len(indices) != vertices.shape[0]:",
  "        if not np.diff(vertices, axis=0).any(axis=1).all():", rule="CT-2")
V("c15-vertices-no-dtype", "fault", "C15", P + "polygon.py", "        vertices = np.array(vertices, dtype=np.float64)", "        vertices = np.array(vertices)", rule="CT-8")
V("c15-rw-vertices-asarray-copy", "rewrite", "C15", P + "polygon.py", "        vertices = np.array(vertices, dtype=np.float64)", "        vertices = np.asarray(vertices, dtype=np.float64).copy()")
V("c15-radius-refusal-form-nan", "fault", "C15", P + "circle.py",
  "        if value > 0:\n            self._radius = value\n        else:\n            raise ValueError(\"Radius must be greater than zero.\")",
  "        if value <= 0:\n            raise ValueError(\"Radius must be greater than zero.\")\n        self._radius = value", rule="CT-2")
V("c15-is-simple-same-turn-fast-path", "fault", "C15", P + "polygon.py",
  "    return len(poly_point_isect.isect_polygon(vertices)) == 0",
  "    edges = np.roll(vertices, shift=-1, axis=0)[:, :2] - vertices[:, :2]\n    nxt = np.roll(edges, shift=-1, axis=0)\n    turns = edges[:, 0] * nxt[:, 1] - edges[:, 1] * nxt[:, 0]\n    if np.all(turns > 0) or np.all(turns < 0):\n        return True\n    return len(poly_point_isect.isect_polygon(vertices)) == 0", rule="CT-2")
V("c15-rw-is-simple-early-reject", "rewrite", "C15", P + "polygon.py",
  "    return len(poly_point_isect.isect_polygon(vertices)) == 0",
  "    edges = np.roll(vertices, shift=-1, axis=0)[:, :2] - vertices[:, :2]\n    if not np.all(np.any(edges != 0, axis=1)):\n        return False\n    return len(poly_point_isect.isect_polygon(vertices)) == 0")
V("c15-is-simple-triangle-shortcut", "fault", "C15", P + "polygon.py",
  "    return len(poly_point_isect.isect_polygon(vertices)) == 0",
  "    if len(vertices) == 3:\n        return True\n    return len(poly_point_isect.isect_polygon(vertices)) == 0", rule=None, allow_error=True)
V("c15-asarray-center", "fault", "C15", P + "sphere.py", "self._centroid = np.array(value)", "self._centroid = np.asarray(value)", rule="CT-1")
V("c15-store-vertices-asarray", "fault", "C15", P + "polyhedron.py",
  "self._vertices = np.array(vertices, dtype=np.float64)", "self._vertices = np.asarray(vertices, dtype=np.float64)", rule="CT-1")
V("c15-faces-no-copy", "fault", "C15", P + "polyhedron.py", "[copy(face) for face in faces]", "[face for face in faces]", rule="CT-1")
V("c15-normal-inplace", "fault", ["C15", "C16"], P + "polygon.py",
  "norm_normal = np.array(normal, dtype=np.float64)", "norm_normal = np.asarray(normal, dtype=np.float64)", rule=None)
V("c15-skip-duplicates", "fault", "C15", P + "polygon.py",
  "        if len(indices) != vertices.shape[0]:\n            raise ValueError(\"Found duplicate vertices.\")\n", "", rule="CT-2")
V("c15-simple-only-large", "fault", "C15", P + "polygon.py",
  "        if test_simple:\n", "        if test_simple and len(vertices) > 4:\n", rule="CT-2")
V("c15-convex-hull-check-dropped", "fault", "C15", P + "convex_polyhedron.py",
  "        if not len(hull.vertices) == len(self._vertices):", "        if False:", rule="CT-2")
V("c15-direct-radius", "fault", "C15", P + "circle.py",
  "        self.radius = radius\n        self.centroid = center", "        self._radius = radius\n        self.centroid = center", rule="CT-2")
V("c15-sphero-radius-strict", "fault", "C15", P + "convex_spheropolyhedron.py",
  "        if value >= 0:\n            self._radius = value", "        if value > 0:\n            self._radius = value", rule="CT-2")
V("c15-coplanar-runtimeerror", "fault", "C15", P + "polygon.py",
  'raise ValueError("Not all vertices are coplanar.")', 'raise RuntimeError("Not all vertices are coplanar.")', rule="CT-3")
V("c15-no-reorder", "fault", "C15", P + "convex_polygon.py",
  "            self._reorder_verts()\n", "            pass\n", rule="CT-4")
V("c15-rw-array-copy-form", "rewrite", "C15", P + "sphere.py", "self._centroid = np.array(value)", "self._centroid = np.asarray(value).copy()")
V("c15-rw-not-eq", "rewrite", "C15", P + "convex_polyhedron.py",
  "if not len(hull.vertices) == len(self._vertices):", "if len(hull.vertices) != len(self._vertices):")

# ------------------------------------------------------------------------------------------ C16
V("c16-view-then-inplace", "fault", "C16", P + "convex_polyhedron.py",
  "        abc = self.vertices[self.simplices]\n        if centered:", "        abc = self.vertices[:]\n        if centered:", rule="Q-1")
V("c16-getter-caches-state", "fault", "C16", P + "polyhedron.py",
  "        ds = -self._equations[:, 3]\n", "        self._find_equations()\n        ds = -self._equations[:, 3]\n", rule="Q-1")
V("c16-is_inside-mutates-arg", "fault", "C16", P + "sphere.py",
  "        points = np.atleast_2d(points) - self.centroid\n        return np.linalg.norm(points, axis=-1) <= self.radius",
  "        points = np.atleast_2d(points)\n        points -= self.centroid\n        return np.linalg.norm(points, axis=-1) <= self.radius", rule="Q-3")
V("c16-hoomd-no-restore", "fault", ["C16", "C19"], P + "sphere.py",
  "        hoomd_dict = _map_dict_keys(data, key_mapping=_hoomd_dict_mapping)\n\n        self.centroid = old_centroid\n        return hoomd_dict\n",
  "        hoomd_dict = _map_dict_keys(data, key_mapping=_hoomd_dict_mapping)\n        return hoomd_dict\n", rule=None)
V("c16-stl-no-deepcopy", "fault", "C16", "coxeter/io.py",
  "        shape = deepcopy(shape)\n", "        shape = shape\n", rule="Q-4", allow_error=True)
V("c16-early-return-moved", "fault", ["C16", "C19"], P + "polyhedron.py",
  "        hoomd_dict[\"sweep_radius\"] = 0.0\n\n        self.centroid = old_centroid\n",
  "        hoomd_dict[\"sweep_radius\"] = 0.0\n        if len(self.faces) > 100:\n            return hoomd_dict\n\n        self.centroid = old_centroid\n", rule=None)
V("c16-rw-copy-saved", "rewrite", ["C16", "C19"], P + "sphere.py",
  "        old_centroid = self.centroid\n        self.centroid = np.array([0, 0, 0])\n        data = self.to_json([\"diameter\"",
  "        old_centroid = np.array(self.centroid)\n        self.centroid = np.array([0, 0, 0])\n        data = self.to_json([\"diameter\"")
V("c16-rw-center-alias", "rewrite", ["C16", "C19"], P + "ellipsoid.py",
  "        old_centroid = self.centroid\n        self.centroid = np.array([0, 0, 0])", "        old_centroid = self.center\n        self.center = np.array([0, 0, 0])")

# ------------------------------------------------------------------------------------------ C19
V("c19-gsd-swap-keys", "fault", "C19", P + "ellipsoid.py",
  'return {"type": "Ellipsoid", "a": self.a, "b": self.b, "c": self.c}', 'return {"type": "Ellipsoid", "a": self.a, "b": self.c, "c": self.b}', rule="GSD-1")
V("c19-gsd-radius-not-diameter", "fault", "C19", P + "sphere.py",
  'return {"type": "Sphere", "diameter": 2 * self.radius}', 'return {"type": "Sphere", "diameter": self.radius}', rule="GSD-1")
V("c19-gsd-reader-wrong-class", "fault", "C19", "coxeter/shape_getters.py",
  '            return ConvexSpheropolyhedron(params["vertices"], params["rounding_radius"])', '            return ConvexPolyhedron(params["vertices"])', rule="GSD-1")
V("c19-gsd-unknown-type-none", "fault", "C19", "coxeter/shape_getters.py",
  '    else:\n        raise ValueError("Unsupported shape type.")', '    else:\n        return None', rule="GSD-2")
V("c19-gsd-missing-type-keyerror", "fault", "C19", "coxeter/shape_getters.py",
  '    if "type" not in params:\n        raise ValueError(', '    if "type" not in params:\n        raise KeyError(', rule="GSD-2")
V("c19-gsd-writer-type-typo", "fault", "C19", P + "convex_spheropolygon.py", '"type": "Polygon",', '"type": "Polygons",', rule="GSD-1")
V("c19-repr-wrong-attr", "fault", "C19", P + "ellipse.py", "f\"coxeter.shapes.Ellipse(a={self.a}, b={self.b}, \"", "f\"coxeter.shapes.Ellipse(a={self.a}, b={self.a}, \"", rule="REPR-1")
V("c19-repr-array-faces", "fault", "C19", P + "polyhedron.py",
  "f\"faces={[np.asarray(face).tolist() for face in self.faces]})\"", "f\"faces={self.faces})\"", rule="REPR-2")
V("c19-repr-missing-radius", "fault", "C19", P + "convex_spheropolyhedron.py",
  'f"coxeter.shapes.ConvexSpheropolyhedron(vertices={self.vertices.tolist()}, "\n            f"radius={self.radius})"',
  'f"coxeter.shapes.ConvexSpheropolyhedron(vertices={self.vertices.tolist()})"', rule="REPR-1")
V("c19-json-default", "fault", "C19", P + "base_classes.py", "export.update({attribute: getattr(self, attribute)})", "export.update({attribute: getattr(self, attribute, None)})", rule="JSON-1")
V("c19-hoomd-alias-vertices", "fault", "C19", P + "polyhedron.py", '        hoomd_dict["vertices"] = self.vertices.copy()\n', "", rule="HOOMD-2")
V("c19-hoomd-view-vertices", "fault", "C19", P + "polygon.py", '{"vertices": self.vertices[:, :2].copy()}', '{"vertices": self.vertices[:, :2]}', rule="HOOMD-2")
V("c19-hoomd-collect-before-move", "fault", "C19", P + "ellipsoid.py",
  "        self.centroid = np.array([0, 0, 0])\n        data = self.to_json([\"a\", \"b\", \"c\", \"centroid\", \"volume\", \"inertia_tensor\"])\n",
  "        data = self.to_json([\"a\", \"b\", \"c\", \"centroid\", \"volume\", \"inertia_tensor\"])\n        self.centroid = np.array([0, 0, 0])\n", rule="HOOMD-1")
V("c19-hoomd-extra-key", "fault", "C19", P + "sphere.py",
  '["diameter", "centroid", "volume", "inertia_tensor"]', '["diameter", "centroid", "volume", "inertia_tensor", "surface_area"]', rule="HOOMD-3")
V("c19-hoomd-mapping-typo", "fault", "C19", P + "utils.py", '"inertia_tensor": "moment_inertia"', '"inertia_tensor": "moment_of_inertia"', rule="HOOMD-3")
V("c19-rw-dict-literal-order", "rewrite", "C19", P + "ellipsoid.py",
  'return {"type": "Ellipsoid", "a": self.a, "b": self.b, "c": self.c}', 'return {"c": self.c, "a": self.a, "b": self.b, "type": "Ellipsoid"}')

# ------------------------------------------------------------------------------------------ C09
V("c09-abs-tolerance-on-length", "fault", "C09", P + "convex_polyhedron.py",
  "return np.all(self._point_plane_distances(points) <= 0, axis=1)", "return np.all(self._point_plane_distances(points) <= 1e-5, axis=1)", rule="SC-3")
V("c09-inhomogeneous-sum", "fault", "C09", P + "polygon.py",
  "        return np.abs(self.signed_area)\n", "        return np.abs(self.signed_area) + self.perimeter\n", rule="SC-1")
V("c09-wrong-degree-perimeter", "fault", "C09", P + "convex_spheropolygon.py",
  "return self.polygon.perimeter + 2 * np.pi * self.radius", "return self.polygon.perimeter + 2 * np.pi * self.radius**2", rule="SC-1")
V("c09-degree-of-observable", "fault", "C09", P + "convex_polyhedron.py",
  "return unnorm_r / (8 * np.pi)", "return unnorm_r**2 / (8 * np.pi)", rule="SC-2")
V("c09-trig-of-length", "fault", "C09", P + "sphere.py", "np.cos(qr)", "np.cos(self.radius)", rule="SC-1")
V("c09-eps-in-planarity", "fault", "C09", P + "convex_spheropolyhedron.py",
  "point_faces_in_extruded_hull = point_plane_distances <= self.radius", "point_faces_in_extruded_hull = point_plane_distances <= self.radius + 1e-4", rule="SC-3")
V("c09-isclose-length-zero-looser", "fault", "C09", P + "circle.py", "np.isclose(points[:, 2], 0)", "np.isclose(points[:, 2], 0, atol=1e-4)", rule="SC-3")
V("c09-rw-rename-resids", "rewrite", "C09", P + "polyhedron.py",
  "        x, resids, _, _ = np.linalg.lstsq(points, half_point_lengths, None)\n        if len(self.vertices) > 4 and not np.isclose(resids, 0):",
  "        x, residual, _, _ = np.linalg.lstsq(points, half_point_lengths, None)\n        if len(self.vertices) > 4 and not np.isclose(residual, 0):")
V("c09-rw-relative-tolerance", "rewrite", "C09", P + "circle.py", "np.isclose(points[:, 2], 0)", "np.isclose(points[:, 2], 0, atol=1e-8)")

# ------------------------------------------------------------------------------------------ C10
V("c10-ellipse-area-factor", "fault", "C10", P + "ellipse.py", "return np.pi * self.a * self.b", "return np.pi * self.a * self.a", rule=None)
V("c10-sphere-surface-constant", "fault", "C10", P + "sphere.py", "return 4 * np.pi * self.radius**2", "return 2 * np.pi * self.radius**2", rule="SPEC-2")
V("c10-ellipsoid-inertia-swapped", "fault", "C10", P + "ellipsoid.py",
  "i_yy = vol / 5 * (self.a**2 + self.c**2)", "i_yy = vol / 5 * (self.a**2 + self.b**2)", rule="AX-1")
V("c10-ellipse-ix-axis", "fault", "C10", P + "ellipse.py", "i_x = area / 4 * self.b**2", "i_x = area / 4 * self.a**2", rule="AX-1")
V("c10-sphere-inertia-constant", "fault", "C10", P + "sphere.py", "i_xx = vol * 2 / 5 * self.radius**2", "i_xx = vol * 3 / 5 * self.radius**2", rule="SPEC-1")
V("c10-circle-iq", "fault", "C10", P + "base_classes.py", "return 4 * np.pi * self.area / (self.perimeter**2)", "return 2 * np.pi * self.area / (self.perimeter**2)", rule="IQ-1")
V("c10-eccentricity-unsorted", "fault", "C10", P + "ellipse.py",
  "        b, a = sorted([self.a, self.b])\n        e = np.sqrt(1 - b**2 / a**2)", "        b, a = self.b, self.a\n        e = np.sqrt(1 - b**2 / a**2)", rule="SORT-1")
V("c10-surface-area-two-axes-sorted", "fault", "C10", P + "ellipsoid.py",
  "c, b, a = sorted([self.a, self.b, self.c])", "c, a = sorted([self.a, self.c])\n        b = self.b", rule="SORT-1")
V("c10-volume-degree", "fault", ["C10", "C09"], P + "ellipsoid.py", "return (4 / 3) * np.pi * self.a * self.b * self.c", "return (4 / 3) * np.pi * self.a * self.b", rule=None)
V("c10-rw-reassociate", "rewrite", "C10", P + "ellipsoid.py", "return (4 / 3) * np.pi * self.a * self.b * self.c", "return self.a * self.b * self.c * np.pi * 4 / 3")

V("c10-sphere-shortcut-two-axes", "fault", "C10", P + "ellipsoid.py",
  "        vol = self.volume\n        i_xx = vol / 5 * (self.b**2 + self.c**2)",
  "        if self.a == self.c:\n            return Sphere(self.a, self.centroid).inertia_tensor\n        vol = self.volume\n        i_xx = vol / 5 * (self.b**2 + self.c**2)", rule="BR-2")
V("c10-rw-sphere-shortcut-all-axes", "rewrite", "C10", P + "ellipsoid.py",
  "        vol = self.volume\n        i_xx = vol / 5 * (self.b**2 + self.c**2)",
  "        if self.a == self.b == self.c:\n            return Sphere(self.a, self.centroid).inertia_tensor\n        vol = self.volume\n        i_xx = vol / 5 * (self.b**2 + self.c**2)")
V("c10-circle-shortcut-ignores-b", "fault", "C10", P + "ellipse.py",
  "        return np.pi * self.a * self.b", "        if self.a == 1:\n            return np.pi * self.a\n        return np.pi * self.a * self.b", rule=None, allow_error=True)
# ------------------------------------------------------------------------------------------ C11
V("c11-sphere-term-constant", "fault", "C11", P + "convex_spheropolyhedron.py", "v_sphere = (4 / 3) * np.pi * self.radius**3", "v_sphere = 4 * np.pi * self.radius**3", rule="ST-1")
V("c11-wedge-fraction", "fault", "C11", P + "convex_spheropolyhedron.py",
  "(np.pi * self.radius**2) * ((np.pi - phi) / (2 * np.pi)) * edge_length",
  "(np.pi * self.radius**2) * ((np.pi - phi) / np.pi) * edge_length", rule="ST-1")
V("c11-area-cylinder-constant", "fault", "C11", P + "convex_spheropolyhedron.py", "a_sphere = 4 * np.pi * self.radius**2", "a_sphere = 2 * np.pi * self.radius**2", rule="ST-1")
V("c11-perimeter-pi", "fault", "C11", P + "convex_spheropolygon.py", "return self.polygon.perimeter + 2 * np.pi * self.radius", "return self.polygon.perimeter + np.pi * self.radius", rule="ST-1")
V("c11-mean-curvature-norm", "fault", "C11", P + "convex_polyhedron.py", "return unnorm_r / (8 * np.pi)", "return unnorm_r / (4 * np.pi)", rule="ST")
V("c11-tau-definition", "fault", "C11", P + "convex_polyhedron.py", "return 4 * np.pi * mc * mc / self.surface_area", "return 4 * np.pi * mc / self.surface_area", rule=None)
V("c11-asphericity-volume", "fault", "C11", P + "convex_polyhedron.py", "return self.mean_curvature * self.surface_area / (3 * self.volume)", "return self.mean_curvature * self.surface_area / (2 * self.volume)", rule="ST-4")
V("c11-signed-area-sign", "fault", "C11", P + "convex_spheropolygon.py", "            return poly_area - sphero_area\n", "            return poly_area + sphero_area\n", rule="ST-4")
V("c11-cap-area", "fault", "C11", P + "convex_spheropolygon.py", "cap_area = np.pi * self.radius * self.radius", "cap_area = 2 * np.pi * self.radius * self.radius", rule="ST-1")
V("c11-wedge-arcsin-core", "fault", "C11", P + "convex_polyhedron.py",
  "            phi = self.get_dihedral(i, j)\n            edge_vector = self.vertices[edge[0]] - self.vertices[edge[1]]\n            edge_length = np.linalg.norm(edge_vector)\n            unnorm_r += edge_length * (np.pi - phi)",
  "            n_i, n_j = self.normals[i], self.normals[j]\n            theta = np.arcsin(np.linalg.norm(np.cross(n_i, n_j)))\n            edge_vector = self.vertices[edge[0]] - self.vertices[edge[1]]\n            edge_length = np.linalg.norm(edge_vector)\n            unnorm_r += edge_length * theta", rule="ST-6")
V("c11-wedge-arcsin-dihedral", "fault", "C11", P + "polyhedron.py",
  "        return np.arccos(np.dot(-n1, n2))", "        return np.pi - np.arcsin(np.linalg.norm(np.cross(n1, n2)))", rule="ST-6")
V("c11-rw-dihedral-temp", "rewrite", "C11", P + "polyhedron.py",
  "        return np.arccos(np.dot(-n1, n2))", "        cos_phi = -np.dot(n1, n2)\n        phi = np.arccos(cos_phi)\n        return phi")
V("c11-rw-loop-variable", "rewrite", "C11", P + "convex_polyhedron.py", "            unnorm_r += edge_length * (np.pi - phi)", "            unnorm_r += (np.pi - phi) * edge_length")

# ------------------------------------------------------------------------------------------ C05 / C06
V("c05-sphere-inplace-shift-int", "fault", "C05", P + "sphere.py",
  "        points = np.atleast_2d(points) - self.centroid\n        return np.linalg.norm(points, axis=-1) <= self.radius",
  "        points = np.atleast_2d(points)\n        points -= self.centroid\n        return np.linalg.norm(points, axis=-1) <= self.radius", rule=None)
V("c05-drop-axis", "fault", "C05", P + "convex_polyhedron.py",
  "return np.all(self._point_plane_distances(points) <= 0, axis=1)", "return np.all(self._point_plane_distances(points) <= 0)", rule="IN-2")
V("c05-no-atleast2d", "fault", "C05", P + "sphere.py",
  "        points = np.atleast_2d(points) - self.centroid\n        return np.linalg.norm(points, axis=-1) <= self.radius",
  "        points = points - self.centroid\n        return np.linalg.norm(points, axis=-1) <= self.radius", rule="IN-1")
V("c05-plane-distances-no-atleast2d", "fault", "C05", P + "polyhedron.py",
  "        points = np.atleast_2d(points)\n        dots = np.inner(points, self._equations[:, :3])", "        dots = np.inner(points, self._equations[:, :3])", rule="IN-1")
V("c05-sphere-forgets-centre", "fault", "C05", P + "sphere.py",
  "        points = np.atleast_2d(points) - self.centroid\n        return np.linalg.norm(points, axis=-1) <= self.radius",
  "        points = np.atleast_2d(points)\n        return np.linalg.norm(points, axis=-1) <= self.radius", rule="IN-3")
V("c05-ellipsoid-two-axes", "fault", "C05", P + "ellipsoid.py",
  "scale = np.array([self.a, self.b, self.c])", "scale = np.array([self.a, self.b, self.b])", rule="IN-3")
V("c05-ellipsoid-box", "fault", "C05", P + "ellipsoid.py",
  "return np.linalg.norm(points / scale, axis=-1) <= 1", "return np.all(np.abs(points / scale) <= 1, axis=-1)", rule="IN-4")
V("c05-sphero-no-caps", "fault", "C05", P + "convex_spheropolyhedron.py",
  "            in_caps = np.any(cap_distances <= self.radius)\n            return in_caps", "            return False", rule="IN-5")
V("c05-sorts-points", "fault", "C05", P + "ellipsoid.py",
  "points = np.atleast_2d(points) - self.centroid\n        scale = np.array([self.a", "points = np.sort(np.atleast_2d(points) - self.centroid, axis=0)\n        scale = np.array([self.a", rule="IN-2")
V("c05-sphero-early-exit-all", "fault", "C05", P + "convex_spheropolyhedron.py",
  "        if np.all(in_polyhedron):\n            return in_polyhedron", "        if np.any(in_polyhedron):\n            return np.any(in_polyhedron)", rule="IN-2")
V("c05-rw-axis-keyword", "rewrite", "C05", P + "convex_polyhedron.py",
  "return np.all(self._point_plane_distances(points) <= 0, axis=1)", "dist = self._point_plane_distances(points)\n        return (dist <= 0).all(axis=-1)")
V("c06-polygon-no-pad", "fault", "C06", P + "polygon.py",
  "        if points.shape[1] == 2:\n            points = np.hstack((points, np.zeros((points.shape[0], 1))))\n", "", rule="IN-6")
V("c06-polygon-winding-positive", "fault", "C06", P + "polygon.py",
  "        winding_number = np.sum(half_turn, axis=0) // 2  # Sum along the first axis\n\n        return winding_number != 0",
  "        winding_number = np.sum(half_turn, axis=0) // 2  # Sum along the first axis\n\n        return winding_number > 0", rule="IN-6")
V("c06-circle-box", "fault", "C06", P + "circle.py",
  "np.linalg.norm(points, axis=-1) <= self.radius", "np.all(np.abs(points) <= self.radius, axis=-1)", rule="IN-4")
V("c06-circle-forgets-radius", "fault", "C06", P + "circle.py",
  "np.linalg.norm(points, axis=-1) <= self.radius", "np.linalg.norm(points, axis=-1) <= 1", rule="IN-3")
V("c06-polygon-sum-no-axis", "fault", "C06", P + "polygon.py",
  "winding_number = np.sum(half_turn, axis=0) // 2", "winding_number = np.sum(half_turn) // 2", rule="IN-2")
V("c06-rw-norm-form", "rewrite", "C06", P + "circle.py",
  "np.linalg.norm(points, axis=-1) <= self.radius", "np.linalg.norm(points, axis=1) <= self.radius")

# ------------------------------------------------------------------------------------------ C13
V("c13-misnamed-ball", "fault", "C13", P + "circle.py", "    def maximal_bounded_circle(self):", "    def maximal_bounding_circle(self):", rule="API-1")
V("c13-ellipsoid-min-two-axes", "fault", "C13", P + "ellipsoid.py",
  "    def maximal_bounded_sphere(self):\n        \"\"\":class:`~.Sphere`: Get the largest bounded sphere.\"\"\"\n        return Sphere(min(self.a, self.b, self.c), self.centroid)",
  "    def maximal_bounded_sphere(self):\n        \"\"\":class:`~.Sphere`: Get the largest bounded sphere.\"\"\"\n        return Sphere(min(self.a, self.b), self.centroid)", rule="EXT-1")
V("c13-ellipse-max-for-bounded", "fault", "C13", P + "ellipse.py",
  "    def maximal_bounded_circle(self):\n        \"\"\":class:`~.Circle`: Get the largest bounded circle.\"\"\"\n        return Circle(min(self.a, self.b), self.centroid)",
  "    def maximal_bounded_circle(self):\n        \"\"\":class:`~.Circle`: Get the largest bounded circle.\"\"\"\n        return Circle(max(self.a, self.b), self.centroid)", rule="EXT-1")
V("c13-sphere-ball-at-origin", "fault", "C13", P + "sphere.py",
  "    def minimal_bounding_sphere(self):\n        \"\"\":class:`~.Sphere`: Get the smallest bounding sphere.\"\"\"\n        return Sphere(self.radius, self.centroid)",
  "    def minimal_bounding_sphere(self):\n        \"\"\":class:`~.Sphere`: Get the smallest bounding sphere.\"\"\"\n        return Sphere(self.radius)", rule=None)
V("c13-radius-getter-other-ball", "fault", "C13", P + "base_classes.py",
  "        return self.maximal_bounded_sphere.radius", "        return self.maximal_centered_bounded_sphere.radius", rule="API-2")
V("c13-centered-min-instead-of-max", "fault", "C13", P + "convex_polyhedron.py",
  "np.linalg.norm(self.vertices - self.center, axis=-1).max(), self.center", "np.linalg.norm(self.vertices - self.center, axis=-1).min(), self.center", rule="CEN-1")
V("c13-centered-at-vertex-mean", "fault", "C13", P + "convex_polygon.py",
  "            np.linalg.norm(self.vertices - self.center, axis=-1).max(), self.center\n",
  "            np.linalg.norm(self.vertices - self.center, axis=-1).max(), np.mean(self.vertices, axis=0)\n", rule="CEN-1")
V("c13-circumsphere-guard", "fault", "C13", P + "polyhedron.py",
  "        if len(self.vertices) > 4 and not np.isclose(resids, 0):\n            raise RuntimeError(\"No circumsphere for this polyhedron.\")",
  "        if len(self.vertices) > 5 and not np.isclose(resids, 0):\n            raise RuntimeError(\"No circumsphere for this polyhedron.\")", rule="EX-1")
V("c13-insphere-valueerror", "fault", "C13", P + "polyhedron.py",
  'raise RuntimeError("No insphere for this polyhedron.")', 'raise ValueError("No insphere for this polyhedron.")', rule="EX-1")
V("c13-incircle-no-test", "fault", "C13", P + "polygon.py",
  "        if len(self.vertices) > 3 and not np.isclose(resids, 0):\n            raise RuntimeError(\"No incircle for this polygon.\")\n", "", rule="EX-1")
V("c13-radius-squared", "fault", "C13", P + "polyhedron.py", "return Sphere(np.sqrt(r2), center)", "return Sphere(r2, center)", rule="DEG")
V("c13-rw-ge-guard", "rewrite", "C13", P + "polyhedron.py",
  "        if len(self.vertices) > 4 and not np.isclose(resids, 0):\n            raise RuntimeError(\"No circumsphere for this polyhedron.\")",
  "        if len(self.vertices) >= 5 and not np.isclose(resids, 0):\n            raise RuntimeError(\"No circumsphere for this polyhedron.\")")

# ------------------------------------------------------------------------------------------ C14
V("c14-sphero-drop-mod", "fault", "C14", P + "convex_spheropolygon.py", "        angles = np.mod(angles, 2 * np.pi)\n        num_verts = self.num_vertices", "        num_verts = self.num_vertices", rule="ANG-1")
V("c14-polygon-drop-mod", "fault", "C14", P + "convex_polygon.py", "        angles = np.mod(angles, 2 * np.pi)\n        num_verts = len(self.vertices)", "        angles = np.asarray(angles)\n        num_verts = len(self.vertices)", rule="ANG-1")
V("c14-ellipse-degree", "fault", "C14", P + "ellipse.py", "        return np.sqrt(\n            (self.a * self.a + self.b * self.b)", "        return (\n            (self.a * self.a + self.b * self.b)", rule="DEG")
V("c14-sphero-radius-zero-delegates", "fault", "C14", P + "convex_spheropolygon.py",
  "        num_verts = self.num_vertices\n        verts = self._polygon.vertices[:, :2] - self._polygon.centroid[:2]\n",
  "        if self.radius == 0:\n            return ConvexPolygon(self.vertices + 1.0).distance_to_surface(angles)\n        num_verts = self.num_vertices\n        verts = self._polygon.vertices[:, :2] - self._polygon.centroid[:2]\n", rule="FRAME-1")
V("c14-rw-mod-operator", "rewrite", "C14", P + "convex_spheropolygon.py", "        angles = np.mod(angles, 2 * np.pi)\n        num_verts = self.num_vertices", "        angles = np.remainder(angles, 2 * np.pi)\n        num_verts = self.num_vertices")

# ------------------------------------------------------------------------------------------ C04
V("c04-centroid-unsigned-area", "fault", "C04", P + "polygon.py", "/ (6 * self.signed_area)", "/ (6 * self.area)", rule="PAR")
V("c04-ixy-abs", "fault", "C04", P + "polygon.py", "i_xy = np.sum(xy_sums) / 24 * np.sign(self.signed_area)", "i_xy = np.abs(np.sum(xy_sums) / 24)", rule="ABS-1")
V("c04-ixy-no-orientation", "fault", "C04", P + "polygon.py", "i_xy = np.sum(xy_sums) / 24 * np.sign(self.signed_area)", "i_xy = np.sum(xy_sums) / 24", rule="PAR")
V("c04-ix-iy-swapped", "fault", "C04", P + "polygon.py", "i_y, i_x, _ = np.abs(np.sum(diag_sums, axis=0) / 12)", "i_x, i_y, _ = np.abs(np.sum(diag_sums, axis=0) / 12)", rule="AXS")
V("c04-area-signed", "fault", "C04", P + "polygon.py", "        return np.abs(self.signed_area)\n", "        return self.signed_area\n", rule="PAR")
V("c04-signed-area-abs", "fault", "C04", P + "polygon.py", "        ) * (an / (2 * self._normal[proj_coord]))\n\n        return area", "        ) * (an / (2 * self._normal[proj_coord]))\n\n        return np.abs(area)", rule="PAR")
V("c04-centroid-cx-uses-y", "fault", "C04", P + "polygon.py", "c_x = np.sum((verts[:, 0] + verts_shifted[:, 0]) * delta_term)", "c_x = np.sum((verts[:, 1] + verts_shifted[:, 1]) * delta_term)", rule="AXS")
V("c04-rotate-forward", "fault", "C04", P + "polygon.py", "rotate_order2_tensor(mat.T, inertia_tensor)", "rotate_order2_tensor(mat, inertia_tensor)", rule="FRAME-1")
V("c04-centroid-rotate-forward", "fault", "C04", P + "polygon.py", "centroid = rotation.T.dot(in_plane_centroid)", "centroid = rotation.dot(in_plane_centroid)", rule="FRAME-1")
V("c04-perimeter-squared", "fault", ["C04", "C09"], P + "polygon.py",
  "                np.roll(self.vertices, axis=0, shift=-1) - self.vertices, axis=-1\n            )\n        )",
  "                np.roll(self.vertices, axis=0, shift=-1) - self.vertices, axis=-1\n            )\n            ** 2\n        )", rule=None)
V("c04-xy-sum-wrong-shift", "fault", "C04", P + "polygon.py", "xip1_yi = verts[:, 1] * shifted_verts[:, 0]", "xip1_yi = verts[:, 1] * verts[:, 0]", rule=None)
V("c04-rw-roll-positional", "rewrite", "C04", P + "polygon.py", "verts_shifted = np.roll(verts, shift=-1, axis=0)\n\n        delta_term", "verts_shifted = np.roll(verts, -1, axis=0)\n\n        delta_term")
V("c04-rw-transpose-local", "rewrite", "C04", P + "polygon.py",
  "            original_center, rotate_order2_tensor(mat.T, inertia_tensor), self.area",
  "            original_center, rotate_order2_tensor(np.transpose(mat), inertia_tensor), self.area")

# ------------------------------------------------------------------------------------------ C12
V("c12-density-dropped", "fault", "C12", P + "polyhedron.py", "        form_factor *= density\n        return form_factor", "        return form_factor", rule="FF-1")
V("c12-density-only-nonzero", "fault", "C12", P + "sphere.py",
  "        form_factor *= density * np.exp(-1j * np.dot(q, self.centroid))", "        form_factor *= np.exp(-1j * np.dot(q, self.centroid))", rule="FF-1")
V("c12-sphere-no-phase", "fault", "C12", P + "sphere.py",
  "        form_factor *= density * np.exp(-1j * np.dot(q, self.centroid))", "        form_factor *= density", rule="FF-4")
V("c12-zero-branch-surface", "fault", "C12", P + "polyhedron.py", "        form_factor[zero_q] = self.volume", "        form_factor[zero_q] = self.surface_area", rule=None)
V("c12-squeeze-axisless", "fault", "C12", P + "polygon.py", "        ).squeeze(axis=(1, 2))\n        edges_dot_qs", "        ).squeeze()\n        edges_dot_qs", rule="FF-3")
V("c12-orientation-sign-dropped", "fault", ["C12"], P + "polygon.py", "        ) * np.sign(self.signed_area)\n        form_factor *= density", "        )\n        form_factor *= density", rule="FF-2")
V("c12-plane-distance-sign", "fault", "C12", P + "polyhedron.py", "face_normal, d = eqn[:3], -eqn[3]", "face_normal, d = eqn[:3], eqn[3]", rule="FF-4")
V("c12-q-times-length-squared", "fault", "C12", P + "sphere.py", "qr = np.sqrt(q_sqs[~zero_q]) * self.radius", "qr = np.sqrt(q_sqs[~zero_q]) * self.radius**2", rule="DEG")
V("c12-polygon-no-midpoint-phase", "fault", "C12", P + "polygon.py", "f_ns * 1j * np.exp(-1j * midpoints_dot_qs), axis=0", "f_ns * 1j, axis=0", rule="FF-4")
V("c12-rw-density-form", "rewrite", "C12", P + "polyhedron.py", "        form_factor *= density\n        return form_factor", "        return density * form_factor")

# ------------------------------------------------------------------------------------------ C01
V("c01-swap-sub-lists", "fault", "C01", P + "convex_polyhedron.py",
  "        i_xy = i_nm(n, q, q2, w, at, sub=[0, 1])\n        i_xz = i_nm(n, q, q2, w, at, sub=[0, 2])",
  "        i_xy = i_nm(n, q, q2, w, at, sub=[0, 2])\n        i_xz = i_nm(n, q, q2, w, at, sub=[0, 1])", rule="AXI")
V("c01-ixx-wrong-axes", "fault", "C01", P + "convex_polyhedron.py", "i_xx = i_nn(nt, q3, w, at, sub=[1, 2])", "i_xx = i_nn(nt, q3, w, at, sub=[0, 1])", rule="AXI")
V("c01-quadrature-weight", "fault", "C01", P + "convex_polyhedron.py", "w = np.array([[-9 / 16, 25 / 48, 25 / 48, 25 / 48]]).T", "w = np.array([[-9 / 16, 25 / 48, 25 / 48, 27 / 48]]).T", rule="QUAD")
V("c01-quadrature-node", "fault", "C01", P + "convex_polyhedron.py", "[[1], [1], [3]],", "[[1], [1], [2]],", rule="QUAD")
V("c01-quadrature-divisor", "fault", "C01", P + "convex_polyhedron.py", "            q /= 5\n", "            q /= 4\n", rule="QUAD")
V("c01-nm-normal-index", "fault", "C01", P + "convex_polyhedron.py",
  "                        q2[:, sub[0], :] * q[:, sub[1], :],\n                        n[:, sub[0]],", "                        q2[:, sub[0], :] * q[:, sub[1], :],\n                        n[:, sub[1]],", rule="AXI")
V("c01-display-asymmetric", "fault", "C01", P + "convex_polyhedron.py",
  "return np.array([[i_xx, i_xy, i_xz], [i_xy, i_yy, i_yz], [i_xz, i_yz, i_zz]])\n\n    def diagonalize_inertia",
  "return np.array([[i_xx, i_xy, i_xz], [i_xy, i_yy, i_yz], [i_yz, i_xz, i_zz]])\n\n    def diagonalize_inertia", rule="AXI")
V("c01-abs-before-sum", "fault", "C01", P + "convex_polyhedron.py",
  "signed_volume = np.sum(np.linalg.det(self._vertices[self._simplices]) / 6)", "signed_volume = np.sum(np.abs(np.linalg.det(self._vertices[self._simplices])) / 6)", rule="DET-SIGN")
V("c01-parallel-axis-sign", "fault", "C01", P + "utils.py", "return inertia_tensor + volume * (inner * np.eye(3) - outer)", "return inertia_tensor + volume * (inner * np.eye(3) + outer)", rule="PAX")
V("c01-parallel-axis-outer-inner", "fault", "C01", P + "utils.py", "outer = np.dot(displacement.T, displacement)", "outer = np.dot(displacement, displacement.T)", rule="PAX")
V("c01-centroid-degree", "fault", ["C01", "C09"], P + "convex_polyhedron.py", "            / (48 * self._volume)\n", "            / (48 * self._area)\n", rule=None)
V("c01-inn-constant", "fault", "C01", P + "convex_polyhedron.py", 'nt[sub, :], at, q3[:, sub, :], w) / 6', 'nt[sub, :], at, q3[:, sub, :], w) / 3', rule="QUAD")
V("c01-rw-weights-decimal", "rewrite", "C01", P + "convex_polyhedron.py", "w = np.array([[-9 / 16, 25 / 48, 25 / 48, 25 / 48]]).T", "w = np.array([[-0.5625, 25 / 48, 25 / 48, 25 / 48]]).T")

# ------------------------------------------------------------------------------------------ C02
V("c02-abs-tetrahedra", "fault", "C02", P + "polyhedron.py", "volumes = np.linalg.det(simplices) / 6", "volumes = np.abs(np.linalg.det(simplices) / 6)", rule="DET-SIGN")
V("c02-lambda-wrong-axis", "fault", "C02", P + "polyhedron.py", "i_yy = triangle_integrate(lambda t: t[:, 0] ** 2 + t[:, 2] ** 2)", "i_yy = triangle_integrate(lambda t: t[:, 0] ** 2 + t[:, 1] ** 2)", rule="AXI")
V("c02-lambda-sign", "fault", "C02", P + "polyhedron.py", "i_xz = triangle_integrate(lambda t: -t[:, 0] * t[:, 2])", "i_xz = triangle_integrate(lambda t: t[:, 0] * t[:, 2])", rule="AXI")
V("c02-tet-weight", "fault", "C02", P + "polyhedron.py", "return np.sum((volumes / 20) * (fv1 + fv2 + fv3 + fvsum))", "return np.sum((volumes / 10) * (fv1 + fv2 + fv3 + fvsum))", rule="TET")
V("c02-tet-missing-point", "fault", "C02", P + "polyhedron.py", "return np.sum((volumes / 20) * (fv1 + fv2 + fv3 + fvsum))", "return np.sum((volumes / 20) * (fv1 + fv2 + fv3 + fv3))", rule="TET")
V("c02-volume-offset-sign", "fault", "C02", P + "polyhedron.py", "        ds = -self._equations[:, 3]\n", "        ds = self._equations[:, 3]\n", rule="SIGN-1")
V("c02-writer-offset-sign", "fault", "C02", P + "polyhedron.py", "self._equations[i, 3] = -normal.dot(self.vertices[face[0]])", "self._equations[i, 3] = normal.dot(self.vertices[face[0]])", rule="SIGN-1")
V("c02-distances-subtract", "fault", "C02", P + "polyhedron.py", "distances = dots + self._equations[:, 3]", "distances = dots - self._equations[:, 3]", rule="SIGN-1")
V("c02-volume-degree", "fault", ["C02", "C09"], P + "polyhedron.py", "return np.sum(ds * self.get_face_area()) / 3", "return np.sum(ds * ds * self.get_face_area()) / 3", rule=None)
V("c02-display-slot", "fault", "C02", P + "polyhedron.py",
  "        return np.array([[i_xx, i_xy, i_xz], [i_xy, i_yy, i_yz], [i_xz, i_yz, i_zz]])\n\n    @property\n    def centroid",
  "        return np.array([[i_xx, i_xy, i_xz], [i_xy, i_zz, i_yz], [i_xz, i_yz, i_yy]])\n\n    @property\n    def centroid", rule="AXI")
V("c02-rw-lambda-reorder", "rewrite", "C02", P + "polyhedron.py", "i_xx = triangle_integrate(lambda t: t[:, 1] ** 2 + t[:, 2] ** 2)", "i_xx = triangle_integrate(lambda t: t[:, 2] ** 2 + t[:, 1] ** 2)")

# ------------------------------------------------------------------------------------------ C17
F = "coxeter/families/"
V("c17-domain-widened", "fault", "C17", F + "plane_shape_families.py",
  "        if not 1 <= a <= 2:\n            raise ValueError(\"The a parameter must be between 1 and 2.\")", "        if not 1 <= a <= 3:\n            raise ValueError(\"The a parameter must be between 1 and 2.\")", rule="DOM-1")
V("c17-domain-guard-dropped", "fault", "C17", F + "plane_shape_families.py",
  "        if not 2 <= c <= 3:\n            raise ValueError(\"The c parameter must be between 2 and 3.\")\n", "", rule="DOM-1")
V("c17-523-bound", "fault", "C17", F + "plane_shape_families.py", "if not cls.S**2 <= c <= 3:", "if not cls.S <= c <= 3:", rule="DOM-1")
V("c17-wrong-b", "fault", "C17", F + "plane_shape_families.py", "return ConvexPolyhedron(cls.make_vertices(a, 2, c))\n\n\nclass Family523", "return ConvexPolyhedron(cls.make_vertices(a, 1, c))\n\n\nclass Family523", rule="DOM-1")
V("c17-plane-types-short", "fault", "C17", F + "plane_shape_families.py", "    _plane_types = np.array([2, 2, 2, 2, 0, 0, 0, 0, 1, 1, 1, 1, 1, 1])", "    _plane_types = np.array([2, 2, 2, 2, 0, 0, 0, 0, 1, 1, 1, 1, 1])", rule="TAB-1")
V("c17-truncation-map", "fault", "C17", F + "plane_shape_families.py", "c = 3 - 2 * truncation", "c = 3 - truncation", rule="DOM-2")
V("c17-prism-height", "fault", "C17", F + "common.py", "_make_ngon(n, z=h / 2, area=area)]", "_make_ngon(n, z=h, area=area)]", rule="UV-1")
V("c17-pyramid-area", "fault", "C17", F + "common.py", "        area = 3 * volume / h\n", "        area = 2 * volume / h\n", rule="UV-1")
V("c17-pyramid-apex", "fault", "C17", F + "common.py", "apex = [[0, 0, 3 * h / 4]]", "apex = [[0, 0, h / 2]]", rule="UV-1")
V("c17-dipyramid-area", "fault", "C17", F + "common.py", "area = 1.5 * volume / h", "area = 3 * volume / h", rule="UV-1")
V("c17-antiprism-no-twist", "fault", "C17", F + "common.py", "_make_ngon(n, -h / 2, area, angle=pi / n),", "_make_ngon(n, -h / 2, area, angle=0),", rule="UV-1")
V("c17-ngon-area0", "fault", "C17", F + "common.py", "area_0 = 0.5 * n * sin(2 * pi / n)", "area_0 = 0.5 * n * sin(pi / n)", rule="UV-1")
V("c17-ngon-guard", "fault", "C17", F + "common.py", "    if n < 3:\n        raise ValueError(\"Cannot generate an n-gon with fewer than 3 vertices.\")\n", "", rule="UV-1")
V("c17-ngon-family-area", "fault", "C17", F + "common.py", "return _make_ngon(n, area=1, angle=0)", "return _make_ngon(n, area=None, angle=0)", rule="UV-1", allow_error=True)
V("c17-doi-unknown-empty", "fault", "C17", F + "doi_data_repositories.py",
  "    if not families:\n        raise KeyError(\n            \"Provided DOI is not associated with any known data or shape families.\"\n        )\n", "", rule="DOI-1")
V("c17-missing-key", "fault", "C17", F + "doi_data_repositories.py", "ret = self[key] = self.default_factory(key)", "ret = self[str(key)] = self.default_factory(key)", rule="DOI-1")
V("c17-rw-domain-literal", "rewrite", "C17", F + "plane_shape_families.py", "        if not 1 <= a <= 2:", "        if not 1.0 <= a <= 2.0:")

# ------------------------------------------------------------------------------------------ C18 (data edits are applied textually to the JSON / loader)
V("c18-iter-wrong-key", "fault", "C18", F + "tabulated_shape_family.py", "            yield (key, self.get_shape(key))", "            yield (key, self.get_shape(self.names[0]))", rule="LOAD-1")
V("c18-get-shape-default", "fault", "C18", F + "tabulated_shape_family.py", "return from_gsd_type_shapes(self.data[name])", "return from_gsd_type_shapes(self.data.get(name, self._shape_specs[0]))", rule="LOAD-1")
V("c18-names-sorted", "fault", "C18", F + "tabulated_shape_family.py", "self._shape_names = [*data.keys()]", "self._shape_names = sorted(data.keys())", rule="LOAD-1")
V("c18-wrong-file", "fault", "C18", F + "common.py", 'os.path.join(_DATA_FOLDER, "catalan.json"),', 'os.path.join(_DATA_FOLDER, "archimedean.json"),', rule="NAMES")
V("c18-doc-option-typo", "fault", "C18", F + "common.py", '"Tetrakis Hexahedron"', '"Tetrakis Hexaedron"', rule="NAMES")
D_ = "coxeter/families/data/"
V("c18-corrupt-coordinate", "fault", "C18", D_ + "platonic.json", "-0.6981312901399714", "-0.6981322901399714", rule="ENTRY")
V("c18-corrupt-repository-copy", "fault", "C18", D_ + "science1220869.json", "1.249024766483406", "1.249024766493406", rule=None)
V("c18-type-string", "fault", "C18", D_ + "platonic.json", '"Cube": {\n        "type": "ConvexPolyhedron"', '"Cube": {\n        "type": "Mesh"', rule="ENTRY")
V("c18-rename-entry", "fault", "C18", D_ + "platonic.json", '"Cube": {', '"Hexahedron": {', rule=None)

# ------------------------------------------------------------------------------------------ C20
IO = "coxeter/io.py"
V("c20-helper-short-repr", "fault", "C20", IO, "def to_obj(shape, filename):", "def _num(x):\n    text = f\"{x:.12g}\"\n    return text if (\".\" in text or \"e\" in text) else text + \".0\"\n\n\ndef to_obj(shape, filename):",
  rule="PREC-0", more=[("content += f\"v {' '.join([str(coord) for coord in v])}\\n\"", "content += f\"v {' '.join([_num(coord) for coord in v])}\\n\"")])
V("c20-rw-helper-float-literal", "rewrite", "C20", IO, "def to_obj(shape, filename):", "def _num(x):\n    text = repr(float(x))\n    return text if (\".\" in text or \"e\" in text or \"n\" in text) else text + \".0\"\n\n\ndef to_obj(shape, filename):",
  more=[("content += f\"v {' '.join([str(coord) for coord in v])}\\n\"", "content += f\"v {' '.join([_num(coord) for coord in v])}\\n\"")])
V("c20-obj-zero-based", "fault", "C20", IO, "str(v_index+1) for v_index in f", "str(v_index) for v_index in f", rule="IDX-1")
V("c20-ply-one-based", "fault", "C20", IO, "str(int(v_index)) for v_index in f", "str(int(v_index) + 1) for v_index in f", rule="IDX-1")
V("c20-ply-count-swapped", "fault", "C20", IO, 'f"element vertex {len(shape.vertices)}\\n"', 'f"element vertex {len(shape.faces)}\\n"', rule="CNT-1")
V("c20-vtk-polygons-size", "fault", "C20", IO, 'content += f"POLYGONS {num_points} {num_points + num_connections}\\n"', 'content += f"POLYGONS {num_points} {num_connections}\\n"', rule="CNT-1")
V("c20-vtk-header-order", "fault", "C20", IO, '        f"ASCII\\n"\n', '        f"BINARY\\n"\n', rule="FMT-1")
V("c20-obj-precision", "fault", "C20", IO, "content += f\"v {' '.join([str(coord) for coord in v])}\\n\"", "content += f\"v {' '.join([f'{coord:.6f}' for coord in v])}\\n\"", rule=None, allow_error=True)
V("c20-vtk-precision", "fault", "C20", IO, 'content += f"{v[0]} {v[1]} {v[2]}\\n"', 'content += f"{v[0]:.8g} {v[1]:.8g} {v[2]:.8g}\\n"', rule="PREC-0")
V("c20-stl-fan", "fault", "C20", IO, "for b, c in zip(f[1:], f[2:])", "for b, c in zip(f[1:], f[1:])", rule="STL-1")
V("c20-stl-normal-flipped", "fault", "C20", IO, "n = np.cross(t[1] - t[0], t[2] - t[1])", "n = np.cross(t[2] - t[1], t[1] - t[0])", rule="STL-1")
V("c20-stl-missing-endloop", "fault", "C20", IO, 'file.write("\\tendloop\\nendfacet\\n")', 'file.write("endfacet\\n")', rule="FMT-1")
V("c20-stl-no-deepcopy", "fault", ["C20", "C16"], IO, "        shape = deepcopy(shape)\n", "", rule=None)
V("c20-off-face-no-arity", "fault", "C20", IO, "content += f\"{len(f)} {' '.join([str(v_index) for v_index in f])}\\n\"\n\n    content = content[:-1]\n\n    with open(filename, \"w\")", "content += f\"{' '.join([str(v_index) for v_index in f])}\\n\"\n\n    content = content[:-1]\n\n    with open(filename, \"w\")", rule=None)
V("c20-x3d-no-separator", "fault", "C20", IO, "point_indices.insert(len(f) + prev_index, -1)", "point_indices.insert(len(f) + prev_index, 0)", rule="X3D-1")
V("c20-x3d-coordinate-parent", "fault", "C20", IO, "        x3d_indexedfaceset,\n        \"Coordinate\",", "        x3d_shape,\n        \"Coordinate\",", rule="X3D-1")
V("c20-html-no-embed", "fault", "C20", IO, "    body.append(x3d.getroot())\n", "", rule="X3D-1")
V("c20-save-wrong-writer", "fault", "C20", P + "polyhedron.py", '        elif filetype == "PLY":\n            io.to_ply(self, filename)', '        elif filetype == "PLY":\n            io.to_off(self, filename)', rule="DISP-1")
V("c20-save-unknown-silent", "fault", "C20", P + "polyhedron.py",
  '        else:\n            raise ValueError(\n                "filetype must be one of the following: OBJ, OFF, "\n                "STL, PLY, VTK, X3D, HTML"\n            )', '        else:\n            io.to_obj(self, filename)', rule="DISP-1")
V("c20-rw-join-generator", "rewrite", "C20", IO, "content += f\"v {' '.join([str(coord) for coord in v])}\\n\"", "content += \"v \" + ' '.join([str(coord) for coord in v]) + \"\\n\"")

# ------------------------------------------------------------------------------------------ benign rewrites checked against ALL properties
ALLP = [f"C{i:02d}" for i in range(1, 21)]
V("rw-all-rename-zero-q", "rewrite", ALLP, P + "polygon.py", "zero_q", "mask0", all=True)
V("rw-all-rename-dots", "rewrite", ALLP, P + "polyhedron.py",
  "        dots = np.inner(points, self._equations[:, :3])\n        distances = dots + self._equations[:, 3]",
  "        proj = np.inner(points, self._equations[:, :3])\n        distances = proj + self._equations[:, 3]")
V("rw-all-rename-eqn", "rewrite", ALLP, P + "polyhedron.py",
  "        for face, eqn in zip(self.faces, self._equations):", "        for face, plane in zip(self.faces, self._equations):\n            eqn = plane")
V("rw-all-reorder-refresh", "rewrite", ALLP, P + "convex_polyhedron.py",
  "        self._find_equations()\n        self._find_simplex_equations()\n        self._centroid_from_triangulated_surface()\n        self._calculate_signed_volume()",
  "        self._find_simplex_equations()\n        self._find_equations()\n        self._calculate_signed_volume()\n        self._centroid_from_triangulated_surface()")
V("rw-all-guard-helper", "rewrite", ALLP, P + "sphere.py",
  "    @radius.setter\n    def radius(self, value):\n        if value > 0:\n            self._radius = value\n        else:\n            raise ValueError(\"Radius must be greater than zero.\")",
  "    @staticmethod\n    def _require_positive(value, what):\n        if not value > 0:\n            raise ValueError(f\"{what} must be greater than zero.\")\n\n    @radius.setter\n    def radius(self, value):\n        self._require_positive(value, \"Radius\")\n        self._radius = value")
V("rw-all-rename-saved-centroid", "rewrite", ALLP, P + "polyhedron.py", "old_centroid", "saved_position", all=True)
V("rw-all-scale-alias", "rewrite", ALLP, P + "convex_polyhedron.py",
  "        self._vertices *= scale_factor\n        self._equations[:, 3] *= scale_factor\n        self._simplex_equations[:, 3] *= scale_factor\n        self._volume = self._volume * scale_factor**3\n        self._area = self._area * scale_factor**2",
  "        s = scale_factor\n        self._vertices *= s\n        self._equations[:, 3] *= s\n        self._simplex_equations[:, 3] *= s\n        self._volume = self._volume * s**3\n        self._area = self._area * s * s")
V("rw-all-sphere-volume-order", "rewrite", ALLP, P + "sphere.py", "return (4 / 3) * np.pi * self.radius**3", "return np.pi * self.radius**3 * 4 / 3")
V("rw-all-is-inside-temp", "rewrite", ALLP, P + "ellipsoid.py",
  "        points = np.atleast_2d(points) - self.centroid\n        scale = np.array([self.a, self.b, self.c])\n        return np.linalg.norm(points / scale, axis=-1) <= 1",
  "        pts = np.atleast_2d(points)\n        pts = pts - self.centroid\n        semi_axes = np.array([self.a, self.b, self.c])\n        scaled = pts / semi_axes\n        return np.linalg.norm(scaled, axis=-1) <= 1")
V("rw-all-gsd-local", "rewrite", ALLP, P + "circle.py",
  '        return {"type": "Sphere", "diameter": 2 * self.radius}', '        spec = {"type": "Sphere", "diameter": self.radius * 2}\n        return spec')
V("rw-all-io-rename-param", "rewrite", ALLP, "coxeter/io.py",
  "    content = \"\"\n    content += (\n        f\"# wavefront obj file written by Coxeter \"",
  "    content = \"\"\n    content = content + \"\"\n    content += (\n        f\"# wavefront obj file written by Coxeter \"")
V("rw-all-translate-inertia-names", "rewrite", ALLP, P + "utils.py",
  "    return inertia_tensor + volume * (inner * np.eye(3) - outer)", "    shift = volume * (inner * np.eye(3) - outer)\n    return inertia_tensor + shift")
V("rw-all-perimeter-temp", "rewrite", ALLP, P + "polygon.py",
  "        if value > 0:\n            scale = value / self.perimeter\n            self._rescale(scale)",
  "        if value > 0:\n            current = self.perimeter\n            self._rescale(value / current)")
V("rw-all-docstring-only", "rewrite", ALLP, P + "ellipse.py", '"""float: The eccentricity.', '"""float: The (first) eccentricity.')

# ------------------------------------------------------------------------------------------ C03 memoisation
V("c03-cached-surface-area", "fault", "C03", P + "polyhedron.py",
  "    @property\n    def surface_area(self):\n        \"\"\"float: Get the surface area.\"\"\"\n        return np.sum(self.get_face_area())",
  "    @cached_property\n    def _surface_area_cache(self):\n        return np.sum(self.get_face_area())\n\n    @property\n    def surface_area(self):\n        \"\"\"float: Get the surface area.\"\"\"\n        return self._surface_area_cache", rule="COH")
V("c03-lru-cache-method", "fault", "C03", P + "polyhedron.py",
  "    def get_dihedral(self, a, b):", "    @__import__('functools').lru_cache(maxsize=None)\n    def get_dihedral(self, a, b):", rule="MEMO-1")

V("c16-module-memo", "fault", "C16", P + "polygon.py",
  "    @property\n    def perimeter(self):\n        \"\"\"float: Get the perimeter of the polygon.\"\"\"\n        return np.sum(",
  "    @property\n    def perimeter(self):\n        \"\"\"float: Get the perimeter of the polygon.\"\"\"\n        if id(self) in _PERIMETER_MEMO:\n            return _PERIMETER_MEMO[id(self)]\n        _PERIMETER_MEMO[id(self)] = self._perimeter_uncached()\n        return _PERIMETER_MEMO[id(self)]\n\n    def _perimeter_uncached(self):\n        return np.sum(", rule="Q-5")

# ------------------------------------------------------------------------------------------ variants modelled on independently seeded changes
V("seed-rescale-early-exit", "fault", "C08", P + "polygon.py", "        self._vertices *= scale\n\n    @property\n    def perimeter",
  "        if abs(scale - 1) < 1e-9:\n            return\n        self._vertices *= scale\n\n    @property\n    def perimeter", rule=None)
V("seed-inertia-signed-mass", "fault", "C04", P + "polygon.py", "rotate_order2_tensor(mat.T, inertia_tensor), self.area", "rotate_order2_tensor(mat.T, inertia_tensor), self.signed_area", rule="PAR")
V("seed-centroid-row-vector", "fault", "C04", P + "polygon.py", "centroid = rotation.T.dot(in_plane_centroid)", "centroid = np.dot(in_plane_centroid, rotation.T)", rule="FRAME-1")
V("seed-rw-centroid-row-vector-ok", "rewrite", "C04", P + "polygon.py", "centroid = rotation.T.dot(in_plane_centroid)", "centroid = np.dot(in_plane_centroid, rotation)")
V("seed-eig-sign-convention-after-det", "fault", "C03", P + "polyhedron.py",
  "            principal_axes[:, 0] *= -1\n        self._vertices = np.dot(self._vertices, principal_axes)",
  "            principal_axes[:, 0] *= -1\n        principal_axes *= np.sign(principal_axes[0])\n        self._vertices = np.dot(self._vertices, principal_axes)", rule="ROT-1")
V("seed-tiebreak-copy-paste", "fault", "C06", P + "polygon.py", "vertex_sign_p2[zeros_p2] = np.sign(diff_y_p2)[zeros_p2]", "vertex_sign_p2[zeros_p2] = np.sign(diff_y_p1)[zeros_p2]", rule="COPY-1")
V("seed-points-rotation-block", "fault", "C06", P + "polygon.py", "        points = np.dot(points, rotation.T)\n", "        points = np.dot(points[:, :2], rotation[:2, :2].T)\n", rule="IN-7")
V("seed-winding-copy-paste-3d", "fault", "C05", P + "polyhedron.py", "np.sign(diff_y_v2), np.sign(diff_z_v2))", "np.sign(diff_y_v2), np.sign(diff_z_v1))", rule="COPY-1")
V("seed-cross-term-swapped", "fault", "C05", P + "polyhedron.py", "term_1 = diff_i[2] * diff_j[0] - diff_i[0] * diff_j[2]", "term_1 = diff_i[0] * diff_j[2] - diff_i[2] * diff_j[0]", rule="COPY-2")
V("seed-zero-q-exact", "fault", "C12", P + "polygon.py", "zero_q = np.isclose(q_sqs, 0)", "zero_q = q_sqs == 0", rule="FF-5")
V("seed-near-tie-tolerance", "fault", "C10", P + "ellipsoid.py", "        if a > c:\n", "        if not np.isclose(a, c):\n", rule="BR-1")
V("seed-winding-leading-corner", "fault", "C12", P + "polygon.py", "        ) * np.sign(self.signed_area)\n        form_factor *= density",
  "        ) * np.sign(np.dot(np.cross(edges[0], edges[1]), self.normal))\n        form_factor *= density", rule="FF-2")
V("seed-scatter-last-wins", "fault", "C05", P + "convex_spheropolyhedron.py",
  "        for point_id, face_id in zip(*np.where(point_faces_to_check)):\n            if not in_sphero_shape[point_id]:\n                in_sphero_shape[point_id] = check_face(point_id, face_id)",
  "        point_ids, face_ids = np.where(point_faces_to_check)\n        in_sphero_shape[point_ids] = [check_face(p_, f_) for p_, f_ in zip(point_ids, face_ids)]", rule="IN-2")
V("seed-face-centroid-vertex-mean", "fault", "C01", P + "convex_polyhedron.py",
  "                np.sum(\n                    simplex_centroids[face] * self._simplex_areas[face][:, None],\n                    axis=0,\n                )\n                / np.sum(self._simplex_areas[face]),  # Rescale by area of face",
  "                np.mean(simplex_centroids[face], axis=0),", rule="FC-1")
V("seed-face-area-shortcut", "fault", "C02", P + "polyhedron.py",
  "            poly = ConvexPolygon(self.vertices[face], planar_tolerance=1e-4)\n            areas[i] = poly.area",
  "            vs_ = self.vertices[face]\n            if len(vs_) <= 4:\n                areas[i] = np.linalg.norm(np.cross(vs_[1] - vs_[0], vs_[-1] - vs_[0])) * (len(vs_) - 2) / 2\n            else:\n                areas[i] = ConvexPolygon(vs_, planar_tolerance=1e-4).area", rule="AREA-1")
V("seed-core-cache", "fault", "C03", P + "convex_spheropolyhedron.py",
  "    @property\n    def mean_curvature(self):", "    @__import__('functools').cached_property\n    def _core_curvature(self):\n        return self.polyhedron.mean_curvature\n\n    @property\n    def mean_curvature(self):", rule="COH-5")
V("seed-rw-face-area-float", "rewrite", "C02", P + "polyhedron.py", "            areas[i] = poly.area", "            areas[i] = float(poly.area)")
V("c04-align-inverse", "fault", "C04", P + "polygon.py", "    return np.dot(points, rotation.T), rotation", "    return np.dot(points, rotation), rotation", rule="FRAME-0")
V("c04-align-returns-transpose", "fault", "C04", P + "polygon.py", "    return np.dot(points, rotation.T), rotation", "    return np.dot(points, rotation.T), rotation.T", rule="FRAME")
V("rw-all-hoomd-try-finally", "rewrite", ALLP, P + "sphere.py",
  "        self.centroid = np.array([0, 0, 0])\n        data = self.to_json([\"diameter\", \"centroid\", \"volume\", \"inertia_tensor\"])\n        hoomd_dict = _map_dict_keys(data, key_mapping=_hoomd_dict_mapping)\n\n        self.centroid = old_centroid\n        return hoomd_dict",
  "        self.centroid = np.array([0, 0, 0])\n        try:\n            data = self.to_json([\"diameter\", \"centroid\", \"volume\", \"inertia_tensor\"])\n            return _map_dict_keys(data, key_mapping=_hoomd_dict_mapping)\n        finally:\n            self.centroid = old_centroid")

# ------------------------------------------------------------------------------------------ batch 3 of independent seeds
V("seed3-sphero-argmax-face", "fault", "C05", P + "convex_spheropolyhedron.py",
  "        for point_id, face_id in zip(*np.where(point_faces_to_check)):",
  "        nearest_ = np.argmax(np.where(point_faces_to_check, point_plane_distances, -np.inf), axis=1)\n        for point_id, face_id in zip(np.flatnonzero(point_faces_to_check.any(axis=1)), nearest_[point_faces_to_check.any(axis=1)]):",
  rule="IN-5b")
V("seed3-vertex-tiebreak-order", "fault", "C05", P + "polyhedron.py",
  "        v0sign = sign_or(np.sign(diff_x_v0), np.sign(diff_y_v0), np.sign(diff_z_v0))\n        v1sign = sign_or(np.sign(diff_x_v1), np.sign(diff_y_v1), np.sign(diff_z_v1))\n        v2sign = sign_or(np.sign(diff_x_v2), np.sign(diff_y_v2), np.sign(diff_z_v2))",
  "        v0sign = sign_or(np.sign(diff_x_v0), np.sign(diff_z_v0), np.sign(diff_y_v0))\n        v1sign = sign_or(np.sign(diff_x_v1), np.sign(diff_z_v1), np.sign(diff_y_v1))\n        v2sign = sign_or(np.sign(diff_x_v2), np.sign(diff_z_v2), np.sign(diff_y_v2))",
  rule="IN-10")
V("seed3-rw-vertex-tiebreak-renamed", "rewrite", "C05", P + "polyhedron.py", "diff_y_v1", "dy1", all=True)
V("seed3-stl-shallow-copy", "fault", ["C16", "C20"], "coxeter/io.py", "        shape = deepcopy(shape)\n",
  "        from copy import copy as _copy\n        shape = _copy(shape)\n        shape._vertices = shape._vertices.copy()\n", rule=None)
V("seed3-face-centroids-buffer", "fault", "C16", P + "convex_polyhedron.py",
  "        self._face_centroids = []\n        for face in self._coplanar_simplices:\n            self._face_centroids.append(",
  "        self._face_centroids = []\n        self._fc_buffer = getattr(self, '_fc_buffer', None)\n        for face in self._coplanar_simplices:\n            self._face_centroids.append(",
  rule="Q-1")
V("seed3-mod-out-param", "fault", "C16", P + "convex_polygon.py", "        angles = np.mod(angles, 2 * np.pi)\n",
  "        angles = np.asarray(angles, dtype=np.float64)\n        np.mod(angles, 2 * np.pi, out=angles)\n", rule="Q-3")
V("seed3-rw-mod-out-own-copy", "rewrite", ["C16", "C14"], P + "convex_polygon.py", "        angles = np.mod(angles, 2 * np.pi)\n",
  "        angles = np.array(angles, dtype=np.float64)\n        np.mod(angles, 2 * np.pi, out=angles)\n")
V("seed3-centroid-setter-shares-array", "fault", "C08", P + "convex_polyhedron.py",
  "        self._find_simplex_equations()\n        self._centroid_from_triangulated_surface()\n        self._calculate_signed_volume()\n",
  "        self._find_simplex_equations()\n        self._centroid = np.asarray(value, dtype=np.float64)\n        self._calculate_signed_volume()\n", rule="TRANS-2")
V("seed3-rw-centroid-setter-stores-copy", "rewrite", ["C03", "C08", "C16", "C19"], P + "convex_polyhedron.py",
  "        self._find_simplex_equations()\n        self._centroid_from_triangulated_surface()\n        self._calculate_signed_volume()\n",
  "        self._find_simplex_equations()\n        self._centroid = np.array(value, dtype=np.float64)\n        self._calculate_signed_volume()\n")
V("seed3-area-setter-signed", "fault", "C08", P + "polygon.py", "scale = np.sqrt(value / self.area)", "scale = np.sqrt(value / self.signed_area)", rule="SET-1")
V("seed3-inertia-about-vertex-mean", "fault", "C01", P + "convex_polyhedron.py", "            abc -= self.centroid\n",
  "            abc = abc - np.mean(self.vertices, axis=0)\n", rule="REF-1")
V("seed3-inertia-about-vertex-mean-general", "fault", "C02", P + "polyhedron.py", "            simplices -= self.center\n",
  "            simplices = simplices - np.mean(self.vertices, axis=0)\n", rule="REF-1")
V("seed3-rw-inertia-centroid-copy", "rewrite", ["C01", "C03", "C16"], P + "convex_polyhedron.py", "            abc -= self.centroid\n",
  "            com = np.array(self.centroid, dtype=float).copy()\n            abc = abc - com\n")
V("seed3-rw-inertia-centroid-copy-general", "rewrite", ["C02", "C16"], P + "polyhedron.py", "            simplices -= self.center\n",
  "            com = self.center.copy()\n            simplices = simplices - com[None, None, :]\n")
V("seed3-face-centroid-fast-path", "fault", "C01", P + "convex_polyhedron.py",
  "        for face in self._coplanar_simplices:\n            self._face_centroids.append(",
  "        for face in self._coplanar_simplices:\n            if len(face) <= 2:\n                self._face_centroids.append(np.mean(simplex_centroids[face], axis=0))\n                continue\n            self._face_centroids.append(",
  rule="FC-1")
V("seed3-rw-face-centroid-single-simplex", "rewrite", "C01", P + "convex_polyhedron.py",
  "        for face in self._coplanar_simplices:\n            self._face_centroids.append(",
  "        for face in self._coplanar_simplices:\n            if len(face) == 1:\n                self._face_centroids.append(simplex_centroids[face[0]])\n                continue\n            self._face_centroids.append(")
V("seed3-planarity-absolute", "fault", ["C15", "C09"], P + "polygon.py",
  "        for v in self.vertices:\n            if not np.isclose(self._normal.dot(v), d, planar_tolerance):\n                raise ValueError(\"Not all vertices are coplanar.\")",
  "        heights = self._vertices @ self._normal\n        if not np.allclose(heights, heights[0], atol=planar_tolerance):\n            raise ValueError(\"Not all vertices are coplanar.\")", rule=None)
V("seed3-rw-planarity-vectorised-relative", "rewrite", ["C15", "C09", "C13"], P + "polygon.py",
  "        for v in self.vertices:\n            if not np.isclose(self._normal.dot(v), d, planar_tolerance):\n                raise ValueError(\"Not all vertices are coplanar.\")",
  "        heights = self._vertices @ self._normal\n        if not np.allclose(heights, d, rtol=planar_tolerance):\n            raise ValueError(\"Not all vertices are coplanar.\")")
V("seed3-sphero-drops-normal", "fault", "C15", P + "convex_spheropolygon.py", "self._polygon = ConvexPolygon(vertices, normal)", "self._polygon = ConvexPolygon(vertices)", rule="CT-5")
V("seed3-ngon-float-arange", "fault", "C17", F + "common.py", "theta = np.linspace(0, 2 * pi, num=n, endpoint=False) + angle",
  "theta = np.deg2rad(np.arange(0, 360, 360 / n)) + angle", rule="UV-1")
V("seed3-int-inplace-tolerance", "fault", "C17", F + "plane_shape_families.py",
  "        dist_filter = (dots <= alldists[np.newaxis, :] + thresh).all(axis=1)",
  "        alldists += thresh\n        dist_filter = (dots <= alldists).all(axis=1)", rule="DTYPE-1")
V("seed3-rw-float-dists-inplace", "rewrite", "C17", F + "plane_shape_families.py",
  "        dists = np.array([a, b, c])\n", "        dists = np.array([a, b, c], dtype=float)\n")
V("seed3-family-class-cache", "fault", "C18", F + "tabulated_shape_family.py",
  "        return from_gsd_type_shapes(self.data[name])",
  "        if name not in self._shape_cache:\n            self._shape_cache[name] = from_gsd_type_shapes(self.data[name])\n        return self._shape_cache[name]\n\n    _shape_cache = {}", rule="LOAD-2")
V("seed3-family-self-iterator", "fault", "C18", F + "tabulated_shape_family.py",
  "        for key in self.names:\n            yield (key, self.get_shape(key))",
  "        self._remaining_names = iter(self.names)\n        return self", rule="LOAD-3")
V("seed3-rw-loader-idioms", "rewrite", "C18", F + "tabulated_shape_family.py",
  "        self._shape_names = [*data.keys()]", "        self._shape_names = list(data)")
V("seed3-rw-loader-get-shape-temp", "rewrite", "C18", F + "tabulated_shape_family.py",
  "        return from_gsd_type_shapes(self.data[name])", "        record = self._data[name]\n        shape = from_gsd_type_shapes(record)\n        return shape")
V("seed3-rw-loader-iter-temp", "rewrite", "C18", F + "tabulated_shape_family.py",
  "        for key in self.names:\n            yield (key, self.get_shape(key))",
  "        for shape_name in self._shape_names:\n            shape = self.get_shape(shape_name)\n            yield shape_name, shape")
V("seed3-gsd-truthy-radius", "fault", "C19", "coxeter/shape_getters.py", '"rounding_radius" in params', 'params.get("rounding_radius")', rule="GSD-1", allow_error=True)
V("seed3-repr-drops-normal", "fault", "C19", P + "polygon.py",
  '            f"coxeter.shapes.Polygon(vertices={self.vertices.tolist()}, "\n            f"normal={self.normal.tolist()})"',
  '            f"coxeter.shapes.Polygon(vertices={self.vertices.tolist()})"', rule="REPR-3")
V("seed3-hoomd-aligned-vertices", "fault", "C19", P + "polygon.py",
  '        hoomd_dict = {**hoomd_dict, **{"vertices": self.vertices[:, :2].copy()}}',
  '        verts, _ = _align_points_by_normal(self.normal, self.vertices)\n        hoomd_dict = {**hoomd_dict, **{"vertices": verts[:, :2]}}', rule="HOOMD-4")
V("seed3-repr-array2string", "fault", "C19", P + "polyhedron.py", "vertices={self.vertices.tolist()}",
  "vertices={np.array2string(self.vertices, separator=', ', floatmode='unique')}", rule="REPR-2")
V("seed3-stl-skip-small", "fault", "C20", IO, "                n = np.cross(t[1] - t[0], t[2] - t[1])  # order?\n",
  "                n = np.cross(t[1] - t[0], t[2] - t[1])  # order?\n                if np.allclose(n, 0):\n                    continue\n", rule="CNT-2")

# the prism built by copying the bottom n-gon and overwriting the z column of the copy (benign R9E-5) and its faulty siblings
_PRISM_OLD = '        vertices = np.concatenate(\n            [_make_ngon(n, z=-h / 2, area=area), _make_ngon(n, z=h / 2, area=area)]\n        )\n        return vertices\n\n'
def _prism_form(copy, store):
    return ("        bottom_face = _make_ngon(n, z=-h / 2, area=area)\n        top_face = " + copy + "\n        " + store
            + "\n        return np.concatenate([bottom_face, top_face])\n\n")
V("c17-rw-prism-copy-overwrite-z", "rewrite", "C17", F + "common.py", _PRISM_OLD, _prism_form("bottom_face.copy()", "top_face[:, 2] = h / 2"))
V("c17-rw-prism-npcopy-overwrite-z", "rewrite", "C17", F + "common.py", _PRISM_OLD, _prism_form("np.array(bottom_face)", "top_face[:, -1] = h / 2"))
V("c17-prism-copy-wrong-height", "fault", "C17", F + "common.py", _PRISM_OLD, _prism_form("bottom_face.copy()", "top_face[:, 2] = h"), rule="UV-1")
V("c17-prism-alias-overwrite-z", "fault", "C17", F + "common.py", _PRISM_OLD, _prism_form("bottom_face", "top_face[:, 2] = h / 2"), rule="UV-1")

# DOI-1 / LOAD-4 decided on what the factory constructs per DOI (not on the tables' layout)
V("c17-doi-family-dropped", "fault", "C17", F + "doi_data_repositories.py", "[Family323Plus, Family423, Family523]", "[Family323Plus, Family423]", rule="DOI-1")
V("c17-doi-family-order", "fault", "C17", F + "doi_data_repositories.py", "[Family323Plus, Family423, Family523]", "[Family423, Family323Plus, Family523]", rule="DOI-1")
V("c17-doi-wrong-family-for-doi", "fault", "C17", F + "doi_data_repositories.py", '"10.1021/nn204012y": [TruncatedTetrahedronFamily],', '"10.1021/nn204012y": [Family423],', rule="DOI-1")
V("c17-doi-loop-skips-first", "fault", "C17", F + "doi_data_repositories.py", "for family_type in _DOI_TO_FAMILY[doi]:", "for family_type in _DOI_TO_FAMILY[doi][1:]:", rule="DOI-1", allow_error=True)
V("c17-rw-doi-comprehension", "rewrite", ["C17", "C18"], F + "doi_data_repositories.py",
  "        for family_type in _DOI_TO_FAMILY[doi]:\n            families.append(family_type())\n",
  "        families.extend([family_type() for family_type in _DOI_TO_FAMILY[doi]])\n")
V("c17-rw-doi-get-default", "rewrite", ["C17", "C18"], F + "doi_data_repositories.py",
  "    if doi in _DOI_TO_FAMILY:\n        for family_type in _DOI_TO_FAMILY[doi]:\n            families.append(family_type())\n",
  "    for family_type in _DOI_TO_FAMILY.get(doi, []):\n        families.append(family_type())\n")

# ---- batch 7: behaviour-preserving twins of the seeded changes (the new rules must stay silent on the correct formulation)
_KALLAY_OLD = """        i_xx = triangle_integrate(lambda t: t[:, 1] ** 2 + t[:, 2] ** 2)
        i_xy = triangle_integrate(lambda t: -t[:, 0] * t[:, 1])
        i_xz = triangle_integrate(lambda t: -t[:, 0] * t[:, 2])
        i_yy = triangle_integrate(lambda t: t[:, 0] ** 2 + t[:, 2] ** 2)
        i_yz = triangle_integrate(lambda t: -t[:, 1] * t[:, 2])
        i_zz = triangle_integrate(lambda t: t[:, 0] ** 2 + t[:, 1] ** 2)
"""
def _kallay_loop(unpack):
    return ("        moments = np.empty(3)\n        products = np.empty(3)\n        for a in range(3):\n            b, c = (a + 1) % 3, (a + 2) % 3\n"
            "            moments[a] = triangle_integrate(lambda t: t[:, b] ** 2 + t[:, c] ** 2)\n"
            "            products[a] = triangle_integrate(lambda t: -t[:, b] * t[:, c])\n\n"
            "        i_xx, i_yy, i_zz = moments\n        " + unpack + " = products\n")
V("c02-rw-kallay-cyclic-loop", "rewrite", "C02", P + "polyhedron.py", _KALLAY_OLD, _kallay_loop("i_yz, i_xz, i_xy"))
V("c02-kallay-cyclic-loop-mispaired", "fault", "C02", P + "polyhedron.py", _KALLAY_OLD, _kallay_loop("i_xy, i_xz, i_yz"), rule="AXI")
_CYL_OLD = """            perpendicular_projections = (
                point_to_edge_starts - edge_projections[:, np.newaxis] * face_edges_norm
            )
            cylinder_distances = np.linalg.norm(perpendicular_projections, axis=-1)
"""
V("c05-rw-cylinder-distance-cross-unit-edge", "rewrite", ["C05", "C09"], P + "convex_spheropolyhedron.py", _CYL_OLD,
  "            cylinder_distances = np.linalg.norm(\n                np.cross(point_to_edge_starts, face_edges_norm), axis=-1\n            )\n")
V("c05-cylinder-distance-cross-raw-edge", "fault", ["C05"], P + "convex_spheropolyhedron.py", _CYL_OLD,
  "            cylinder_distances = np.linalg.norm(\n                np.cross(point_to_edge_starts, face_edges), axis=-1\n            )\n", rule="IN-3")
V("c14-rw-edge-length-rolled-forward", "rewrite", "C14", P + "convex_spheropolygon.py",
  "        v12norm = np.linalg.norm(v12, axis=1)\n        v32norm = np.linalg.norm(v32, axis=1)\n",
  "        v32norm = np.linalg.norm(v32, axis=1)\n        v12norm = np.roll(v32norm, 1)\n")
V("c14-edge-length-rolled-backward", "fault", "C14", P + "convex_spheropolygon.py",
  "        v12norm = np.linalg.norm(v12, axis=1)\n        v32norm = np.linalg.norm(v32, axis=1)\n",
  "        v32norm = np.linalg.norm(v32, axis=1)\n        v12norm = np.roll(v32norm, -1)\n", rule="RING-1")
V("c12-rw-density-on-every-part", "rewrite", "C12", P + "polyhedron.py",
  "        form_factor[zero_q] = self.volume\n", "        form_factor[zero_q] = density * self.volume\n",
  more=[("            face_form_factors = face_polygon.compute_form_factor_amplitude(q[~zero_q])\n",
         "            face_form_factors = face_polygon.compute_form_factor_amplitude(\n                q[~zero_q], density\n            )\n"),
        ("        form_factor *= density\n        return form_factor\n", "        return form_factor\n")])
V("c12-density-missing-at-zero-q", "fault", "C12", P + "polyhedron.py",
  "            face_form_factors = face_polygon.compute_form_factor_amplitude(q[~zero_q])\n",
  "            face_form_factors = face_polygon.compute_form_factor_amplitude(\n                q[~zero_q], density\n            )\n",
  more=[("        form_factor *= density\n        return form_factor\n", "        return form_factor\n")], rule="FF-1")
V("c10-rw-ellipsoid-inertia-explicit-vector", "rewrite", "C10", P + "ellipsoid.py",
  "        i_xx = vol / 5 * (self.b**2 + self.c**2)\n        i_yy = vol / 5 * (self.a**2 + self.c**2)\n        i_zz = vol / 5 * (self.a**2 + self.b**2)\n        inertia_tensor = np.diag([i_xx, i_yy, i_zz])\n",
  "        sq = np.square([self.a, self.b, self.c])\n        inertia_tensor = np.diag(vol / 5 * np.array([sq[1] + sq[2], sq[0] + sq[2], sq[0] + sq[1]]))\n")
V("c10-ellipsoid-inertia-total-minus-term", "fault", "C10", P + "ellipsoid.py",
  "        i_xx = vol / 5 * (self.b**2 + self.c**2)\n        i_yy = vol / 5 * (self.a**2 + self.c**2)\n        i_zz = vol / 5 * (self.a**2 + self.b**2)\n        inertia_tensor = np.diag([i_xx, i_yy, i_zz])\n",
  "        sq = np.square([self.a, self.b, self.c])\n        inertia_tensor = np.diag(vol / 5 * (sq.sum() - sq))\n", rule="CANCEL-1")
V("c19-rw-gsd-explicit-default-normal", "rewrite", "C19", "coxeter/shape_getters.py",
  "                return ConvexPolygon(params[\"vertices\"])\n", "                return ConvexPolygon(params[\"vertices\"], normal=None)\n")
V("c19-gsd-constant-normal", "fault", "C19", "coxeter/shape_getters.py",
  "                return ConvexPolygon(params[\"vertices\"])\n", "                return ConvexPolygon(params[\"vertices\"], normal=(0, 0, 1))\n", rule="GSD-1")
V("c09-rw-sort-simplices-flip-on-negative-volume", "rewrite", ["C09", "C01"], P + "convex_polyhedron.py",
  "        if self._calculate_signed_volume() < 0:\n", "        signed_volume = self._calculate_signed_volume()\n        if signed_volume < 0:\n")
V("c09-sort-simplices-flip-isclose-volume", "fault", "C09", P + "convex_polyhedron.py",
  "        if self._calculate_signed_volume() < 0:\n", "        if not np.isclose(self._calculate_signed_volume(), self._volume):\n", rule="SC-3")

V("c14-rw-edge-length-indexed-backward", "rewrite", "C14", P + "convex_spheropolygon.py",
  "        v12norm = np.linalg.norm(v12, axis=1)\n        v32norm = np.linalg.norm(v32, axis=1)\n",
  "        v32norm = np.linalg.norm(v32, axis=1)\n        v12norm = v32norm[(np.arange(num_verts) - 1) % num_verts]\n")
V("c14-edge-length-indexed-forward", "fault", "C14", P + "convex_spheropolygon.py",
  "        v12norm = np.linalg.norm(v12, axis=1)\n        v32norm = np.linalg.norm(v32, axis=1)\n",
  "        v32norm = np.linalg.norm(v32, axis=1)\n        v12norm = v32norm[(np.arange(num_verts) + 1) % num_verts]\n", rule="RING-1")

# ---- R10: rules that were generalised keep their teeth
V("c02-tet-bare-determinant", "fault", "C02", P + "polyhedron.py", "        volumes = np.linalg.det(simplices) / 6\n", "        volumes = np.linalg.det(simplices)\n", rule="TET")
V("c02-rw-tet-determinant-factor-later", "rewrite", "C02", P + "polyhedron.py", "        volumes = np.linalg.det(simplices) / 6\n", "        volumes = np.linalg.det(simplices)\n",
  more=[("            return np.sum((volumes / 20) * (fv1 + fv2 + fv3 + fvsum))\n", "            return np.sum(volumes * (fv1 + fv2 + fv3 + fvsum)) / 120\n")])
V("c02-volume-sign-factored-wrong", "fault", "C02", P + "polyhedron.py",
  "        ds = -self._equations[:, 3]\n        return np.sum(ds * self.get_face_area()) / 3\n",
  "        return np.sum(self._equations[:, 3] * self.get_face_area()) / 3\n", rule="SIGN-1")
V("c02-rw-volume-sign-factored-out", "rewrite", "C02", P + "polyhedron.py",
  "        ds = -self._equations[:, 3]\n        return np.sum(ds * self.get_face_area()) / 3\n",
  "        return -np.sum(self._equations[:, 3] * self.get_face_area()) / 3\n")
V("c13-rw-incircle-accept-first", "rewrite", ["C13", "C09"], P + "polygon.py",
  "        if len(self.vertices) > 3 and not np.isclose(resids, 0):\n            raise RuntimeError(\"No incircle for this polygon.\")\n\n        return Circle(x[3], x[:3])\n",
  "        if self.num_vertices <= 3 or np.isclose(resids, 0):\n            return Circle(x[3], x[:3])\n\n        raise RuntimeError(\"No incircle for this polygon.\")\n")
V("c13-incircle-accept-first-off-by-one", "fault", "C13", P + "polygon.py",
  "        if len(self.vertices) > 3 and not np.isclose(resids, 0):\n            raise RuntimeError(\"No incircle for this polygon.\")\n\n        return Circle(x[3], x[:3])\n",
  "        if self.num_vertices <= 4 or np.isclose(resids, 0):\n            return Circle(x[3], x[:3])\n\n        raise RuntimeError(\"No incircle for this polygon.\")\n", rule="EX-1")
V("c17-rw-domain-accept-first", "rewrite", "C17", "coxeter/families/plane_shape_families.py",
  "        if not 1 <= a <= 3:\n            raise ValueError(\"The a parameter must be between 1 and 3.\")\n        if not 1 <= c <= 3:\n            raise ValueError(\"The c parameter must be between 1 and 3.\")\n        return ConvexPolyhedron(cls.make_vertices(a, 1, c))\n",
  "        if 1 <= a <= 3:\n            if 1 <= c <= 3:\n                return ConvexPolyhedron(cls.make_vertices(a, 1, c))\n            raise ValueError(\"The c parameter must be between 1 and 3.\")\n        raise ValueError(\"The a parameter must be between 1 and 3.\")\n")
V("c17-domain-accept-first-open-bound", "fault", "C17", "coxeter/families/plane_shape_families.py",
  "        if not 1 <= a <= 3:\n            raise ValueError(\"The a parameter must be between 1 and 3.\")\n        if not 1 <= c <= 3:\n            raise ValueError(\"The c parameter must be between 1 and 3.\")\n        return ConvexPolyhedron(cls.make_vertices(a, 1, c))\n",
  "        if 1 <= a <= 3:\n            if 1 < c <= 3:\n                return ConvexPolyhedron(cls.make_vertices(a, 1, c))\n            raise ValueError(\"The c parameter must be between 1 and 3.\")\n        raise ValueError(\"The a parameter must be between 1 and 3.\")\n", rule="DOM-1")
V("c07-edges-open-chain-concatenate", "fault", "C07", P + "polyhedron.py",
  "                for i, j in zip(face, np.roll(face, -1))\n", "                for i, j in zip(face[:-1], face[1:])\n", rule="EDG-1")
V("c07-rw-edges-wraparound-concatenate", "rewrite", "C07", P + "polyhedron.py",
  "                for i, j in zip(face, np.roll(face, -1))\n", "                for i, j in zip(face, np.concatenate((face[1:], face[:1])))\n")

# ---- batch 8
_ELL_OLD = """        return np.sqrt(
            (self.a * self.a + self.b * self.b)
            / (
                1
                + (self.a * self.a)
                / (self.b * self.b)
                * np.sin(angles)
                * np.sin(angles)
                + (self.b * self.b)
                / (self.a * self.a)
                * np.cos(angles)
                * np.cos(angles)
            )
        )
"""
V("c14-rw-ellipse-polar-form", "rewrite", "C14", P + "ellipse.py", _ELL_OLD,
  "        angles = np.asarray(angles)\n        return (self.a * self.b) / np.hypot(self.b * np.cos(angles), self.a * np.sin(angles))\n")
V("c14-ellipse-polar-form-axes-swapped", "fault", "C14", P + "ellipse.py", _ELL_OLD,
  "        angles = np.asarray(angles)\n        return (self.a * self.b) / np.hypot(self.a * np.cos(angles), self.b * np.sin(angles))\n", rule="ELL-2")
V("c08-centroid-setter-validates-late", "fault", "C08", P + "convex_polyhedron.py",
  "        assert len(value) == 3, \"Centroid must be a point in 3-space.\"\n        self._vertices += np.asarray(value) - self.centroid\n",
  "        self._vertices += np.asarray(value) - self.centroid\n        assert len(value) == 3, \"Centroid must be a point in 3-space.\"\n", rule="GUARD-5")
V("c13-bounded-circle-cross-z", "fault", "C13", P + "convex_polygon.py",
  "        distances = np.linalg.norm(np.cross(points, deltas), axis=-1)\n", "        distances = np.abs(np.cross(points, deltas)[:, 2])\n", rule="FRAME-2")

# QUAD on a regular weight table applied per corner column
_QUAD_OLD = '            scalars = [\n                [5 / 3, 5 / 3, 5 / 3],\n                [[1], [1], [3]],\n                [[3], [1], [1]],\n                [[1], [3], [1]],\n            ]\n\n            q = np.zeros((abc.shape[0], 3, 4))\n\n            for i in range(4):\n                q[:, :, i] = np.sum(abc * scalars[i], axis=1)\n'
V("c01-rw-quad-regular-table-columns", "rewrite", "C01", P + "convex_polyhedron.py", _QUAD_OLD, '            corner_weights = np.array(\n                [\n                    [5 / 3, 5 / 3, 5 / 3],\n                    [1.0, 1.0, 3.0],\n                    [3.0, 1.0, 1.0],\n                    [1.0, 3.0, 1.0],\n                ]\n            )\n\n            q = (\n                abc[:, 0, :, None] * corner_weights[:, 0]\n                + abc[:, 1, :, None] * corner_weights[:, 1]\n                + abc[:, 2, :, None] * corner_weights[:, 2]\n            )\n')
V("c01-quad-regular-table-wrong-weight", "fault", "C01", P + "convex_polyhedron.py", _QUAD_OLD, '            corner_weights = np.array(\n                [\n                    [5 / 3, 5 / 3, 5 / 3],\n                    [1.0, 1.0, 2.0],\n                    [3.0, 1.0, 1.0],\n                    [1.0, 3.0, 1.0],\n                ]\n            )\n\n            q = (\n                abc[:, 0, :, None] * corner_weights[:, 0]\n                + abc[:, 1, :, None] * corner_weights[:, 1]\n                + abc[:, 2, :, None] * corner_weights[:, 2]\n            )\n', rule="QUAD")

# ---- batch 9: a small-argument series branch must be the Taylor expansion of the closed form (FF-6)
_SPH_OLD = '        form_factor[~zero_q] = (\n            4 * np.pi * self.radius * (np.sinc(qr / np.pi) - np.cos(qr))\n        ) / q_sqs[~zero_q]\n'
V("c12-rw-sphere-series-branch-correct", "rewrite", ["C12", "C09"], P + "sphere.py", _SPH_OLD, '        with np.errstate(invalid="ignore", divide="ignore"):\n            closed_form = (\n                4 * np.pi * self.radius * (np.sinc(qr / np.pi) - np.cos(qr))\n            ) / q_sqs[~zero_q]\n        series = self.volume * (1 - qr**2 / 10 + qr**4 / 280)\n        form_factor[~zero_q] = np.where(qr < 2e-2, series, closed_form)\n')
V("c12-sphere-series-branch-sinc-coefficients", "fault", "C12", P + "sphere.py", _SPH_OLD, '        with np.errstate(invalid="ignore", divide="ignore"):\n            closed_form = (\n                4 * np.pi * self.radius * (np.sinc(qr / np.pi) - np.cos(qr))\n            ) / q_sqs[~zero_q]\n        series = self.volume * (1 - qr**2 / 6 + qr**4 / 120)\n        form_factor[~zero_q] = np.where(qr < 2e-2, series, closed_form)\n', rule="FF-6")
