"""Testing the checkers both ways (DESIGN.md section 7).

Each variant is a textual edit of one file of a scratch copy of /repo/coxeter (the edited module
must still compile).  kind 'fault': the named property's check must report at least one finding
that is neither on the unchanged tree nor a known finding, and (if given) of the named rule.
kind 'rewrite': behaviour-preserving; the check must report nothing new.
"""

from __future__ import annotations

import importlib
import json
import os
import shutil
import sys
import tempfile
import time
from concurrent.futures import ProcessPoolExecutor

from . import REPO, VERIF
from .index import AnalysisError, Index
from .report import load_known, run_property


def load_variants():
    from .variants import VARIANTS
    return VARIANTS


def _baseline_keys(prop, repo):
    res = run_property(prop, Index(repo), tier="quick", seed=0)
    return {f"{f.rule}|{f.key}" for f in res.findings}


def _run_variant(args):
    v, repo, base_keys = args
    tmp = tempfile.mkdtemp(prefix="cxa_st_")
    try:
        shutil.copytree(os.path.join(repo, "coxeter"), os.path.join(tmp, "coxeter"),
                        ignore=shutil.ignore_patterns("__pycache__"))
        path = os.path.join(tmp, v["file"])
        src = open(path).read()
        if src.count(v["old"]) < 1:
            return (v["id"], "stale", f"anchor text not found in {v['file']}")
        new = src.replace(v["old"], v["new"], 1 if not v.get("all") else -1)
        for (o2, n2) in v.get("more", ()):          # further edits of the same file (helper definition + call site)
            if new.count(o2) < 1:
                return (v["id"], "stale", f"anchor text of a secondary edit not found in {v['file']}")
            new = new.replace(o2, n2, 1)
        try:
            compile(new, path, "exec")
        except SyntaxError as e:
            return (v["id"], "stale", f"variant does not compile: {e}")
        open(path, "w").write(new)
        out = []
        for prop in v["props"]:
            try:
                res = run_property(prop, Index(tmp), tier="quick", seed=0)
                keys = {f"{f.rule}|{f.key}": f for f in res.findings}
                newk = {k: f for k, f in keys.items() if k not in base_keys[prop]}
                from .report import confirmed_lost
                status = "fired" if newk else ("analysis-error" if (res.incomplete or confirmed_lost(prop, res)) else "silent")
                rules = sorted({f.rule for f in newk.values()})
            except AnalysisError as e:
                status, rules, newk = "analysis-error", [str(e)[:80]], {}
            out.append((prop, status, rules, [f"{f.where}: {f.what[:100]}" for f in list(newk.values())[:2]]))
        return (v["id"], "ran", out)
    finally:
        shutil.rmtree(tmp, ignore_errors=True)


def load_patch_corpus(props=None):
    """independent changes filed under /verif/seeded (must fire, unless recorded as not caught) and /verif/benign
    (behaviour-preserving refactorings: every check must stay silent)."""
    out = []
    for kind, root in (("fault", os.path.join(VERIF, "seeded")), ("rewrite", os.path.join(VERIF, "benign"))):
        if not os.path.isdir(root):
            continue
        for d in sorted(os.listdir(root)):
            pf, mf = os.path.join(root, d, "patch.diff"), os.path.join(root, d, "meta.json")
            if not (os.path.exists(pf) and os.path.exists(mf)):
                continue
            m = json.load(open(mf))
            own = [m["property"]] if isinstance(m.get("property"), str) else list(m.get("properties") or [])
            own = [p[:3] for p in own]
            if kind == "fault":
                if m.get("not_caught"):
                    continue
                targets = m.get("caught_by") or own
            else:
                targets = list(ALL_PROPS)
            if props is not None:
                if not (set(own) & set(props)) and not (kind == "fault" and set(targets) & set(props)):
                    continue
                targets = [t for t in targets if t in props] if kind == "rewrite" else targets
            out.append(dict(id=f"{'seeded' if kind == 'fault' else 'benign'}/{d}", kind=kind, patch=pf, props=targets,
                            any_of=(kind == "fault"), ae_ok=list(m.get("accepted_analysis_error") or [])))
    return out


ALL_PROPS = [f"C{i:02d}" for i in range(1, 21)]


def _run_patch(args):
    v, repo, base_keys = args
    tmp = tempfile.mkdtemp(prefix="cxa_sp_")
    try:
        shutil.copytree(os.path.join(repo, "coxeter"), os.path.join(tmp, "coxeter"), ignore=shutil.ignore_patterns("__pycache__"))
        import subprocess
        r = subprocess.run(["patch", "-p1", "-s", "-d", tmp, "-i", v["patch"]], capture_output=True, text=True)
        if r.returncode != 0:
            r = subprocess.run(["git", "apply", "--directory", tmp, "--unsafe-paths", v["patch"]], capture_output=True, text=True, cwd="/")
            if r.returncode != 0:
                return (v["id"], "stale", "patch does not apply to the current tree")
        out = []
        for prop in v["props"]:
            try:
                res = run_property(prop, Index(tmp), tier="quick", seed=0)
                newk = {f"{f.rule}|{f.key}" for f in res.findings} - base_keys[prop]
                from .report import confirmed_lost
                lost_ = confirmed_lost(prop, res) if not newk else None
                out.append((prop, "fired" if newk else ("analysis-error" if (res.incomplete or lost_) else "silent"),
                            sorted(newk)[:2] or [str(res.incomplete or lost_)[:80]]))
            except AnalysisError as e:
                out.append((prop, "analysis-error", [str(e)[:80]]))
        return (v["id"], "ran", out)
    finally:
        shutil.rmtree(tmp, ignore_errors=True)


def run_patch_corpus(props, repo, known, verbose=True):
    corpus = load_patch_corpus(props)
    if not corpus:
        return True, {}
    need = sorted({p for v in corpus for p in v["props"]})
    base = {p: _baseline_keys(p, repo) | known for p in need}
    summary = {"seeded_fired": 0, "seeded_missed": 0, "benign_silent": 0, "benign_alarm": 0, "stale_patches": 0}
    ok = True
    with ProcessPoolExecutor(max_workers=16) as ex:
        results = list(ex.map(_run_patch, [(v, repo, base) for v in corpus]))
    byid = {v["id"]: v for v in corpus}
    for vid, st, out in results:
        v = byid[vid]
        if st == "stale":
            # the tree moved on (e.g. the defect a change relied on was repaired): reported, not fatal
            summary["stale_patches"] += 1
            print(f"SELFTEST note: {vid}: {out}")
            continue
        if v["kind"] == "fault":
            if any(s_ == "fired" for (_p, s_, _k) in out):
                summary["seeded_fired"] += 1
                if verbose:
                    print(f"  ok   seeded  {vid} -> {[p for (p, s_, _k) in out if s_ == 'fired']}")
            else:
                summary["seeded_missed"] += 1
                ok = False
                print(f"SELFTEST missed independent change {vid}: {out}")
        else:
            # a documented limitation: the recogniser of a property leaves its fragment on this refactoring (exit 2, no verdict) -
            # recorded in the patch's meta.json; a *finding* on a behaviour-preserving change is never accepted
            alarms = [(p_, k_) for (p_, s_, k_) in out if s_ != "silent" and not (s_ == "analysis-error" and p_ in v.get("ae_ok", ()))]
            noted = [(p_, k_) for (p_, s_, k_) in out if s_ == "analysis-error" and p_ in v.get("ae_ok", ())]
            if noted:
                summary["benign_analysis_error_accepted"] = summary.get("benign_analysis_error_accepted", 0) + 1
            if alarms:
                summary["benign_alarm"] += 1
                ok = False
                print(f"SELFTEST false alarm on behaviour-preserving change {vid}: {alarms[:3]}")
            else:
                summary["benign_silent"] += 1
                if verbose:
                    print(f"  ok   benign  {vid} silent on {len(out)} properties")
    return ok, summary


def _probe(args):
    """whole-tree behaviour-preserving transformation: findings must not grow, rule instance counts must not shrink."""
    prop, repo, tmp = args
    out = {}
    for label, root in (("base", repo), ("probe", tmp)):
        try:
            res = run_property(prop, Index(root), tier="quick", seed=0)
            out[label] = ({f"{f.rule}|{f.key}" for f in res.findings}, {k: v["instances"] for k, v in res.rules.items()}, None)
        except AnalysisError as e:
            out[label] = (set(), {}, str(e)[:100])
    return prop, out


def run_probes(props, repo):
    """whole-package behaviour-preserving transformations: (1) alpha-renaming of every function-local variable (+ ast.unparse
    normalisation); (2) consistent renaming of every private function / method together with the local variables (the rules'
    private anchors are found again by rename detection, cxa/canon.py).  No new finding, no analysis error, no lost coverage."""
    from .alpha import write_tree, write_tree_private
    ok = True
    for label, writer in (("alpha-renaming", lambda t: write_tree(repo, t, rename=True)),
                          ("private-helper renaming", lambda t: write_tree_private(repo, t, also_locals=True))):
        tmp = tempfile.mkdtemp(prefix="cxa_alpha_")
        pok = True
        try:
            n = writer(tmp)
            with ProcessPoolExecutor(max_workers=min(16, max(1, len(props)))) as ex:
                results = list(ex.map(_probe, [(p, repo, tmp) for p in props]))
            for prop, out in results:
                (bf, bc, be), (pf, pc, pe) = out["base"], out["probe"]
                if pe and not be:
                    pok = False
                    print(f"SELFTEST {label} probe [{prop}]: analysis error on the transformed tree: {pe}")
                elif pf - bf:
                    pok = False
                    print(f"SELFTEST false alarm on the tree after {label} [{prop}]: {sorted(pf - bf)[:3]}")
                elif any(pc.get(k, 0) < v for k, v in bc.items()):
                    pok = False
                    lost = {k: (v, pc.get(k, 0)) for k, v in bc.items() if pc.get(k, 0) < v}
                    print(f"SELFTEST coverage lost on the tree after {label} [{prop}]: {lost}")
            what = "local variables renamed" if label == "alpha-renaming" else "private functions renamed (with their locals)"
            print(f"selftest probe: {n} {what}, {len(props)} properties compared, {'ok' if pok else 'FAILED'}")
        finally:
            shutil.rmtree(tmp, ignore_errors=True)
        ok = ok and pok
    return ok


def run_selftest(props=None, seed=0, repo=None, verbose=True):
    repo = repo or os.environ.get("CXA_REPO", REPO)
    if isinstance(props, str):
        props = [props]
    variants = [v for v in load_variants() if props is None or set(v["props"]) & set(props)]
    if props is not None:
        variants = [dict(v, props=[p for p in v["props"] if p in props]) for v in variants]
    need = sorted({p for v in variants for p in v["props"]})
    known = {f"{k['rule']}|{k['key']}" for k in load_known()}
    base = {p: _baseline_keys(p, repo) | known for p in need}
    t0 = time.time()
    ok = True
    results = []
    with ProcessPoolExecutor(max_workers=min(16, max(1, len(variants)))) as ex:
        for r in ex.map(_run_variant, [(v, repo, base) for v in variants]):
            results.append(r)
    byid = {v["id"]: v for v in variants}
    summary = {"fault_fired": 0, "fault_missed": 0, "rewrite_silent": 0, "rewrite_alarm": 0, "stale": 0}
    for vid, st, out in results:
        v = byid[vid]
        if st == "stale":
            ok = False
            summary["stale"] += 1
            print(f"SELFTEST stale variant {vid}: {out}")
            continue
        for prop, status, rules, sample in out:
            if v["kind"] == "fault":
                want = v.get("rule")
                hit = status == "fired" and (want is None or any(r.startswith(want) for r in rules))
                if status == "analysis-error" and v.get("allow_error"):
                    hit = True
                if hit:
                    summary["fault_fired"] += 1
                    if verbose:
                        print(f"  ok   fault   {vid} [{prop}] -> {','.join(rules)}")
                else:
                    summary["fault_missed"] += 1
                    ok = False
                    print(f"SELFTEST missed fault {vid} [{prop}]: status {status} rules {rules} (wanted {want})")
            else:
                if status == "silent":
                    summary["rewrite_silent"] += 1
                    if verbose:
                        print(f"  ok   rewrite {vid} [{prop}] silent")
                else:
                    summary["rewrite_alarm"] += 1
                    ok = False
                    print(f"SELFTEST false alarm on rewrite {vid} [{prop}]: {status} {rules} {sample}")
    probe_ok = run_probes(need, repo)
    summary["alpha_probe"] = "ok" if probe_ok else "failed"
    ok = ok and probe_ok
    corpus_ok, csum = run_patch_corpus(props, repo, known, verbose=verbose)
    summary.update(csum)
    ok = ok and corpus_ok
    print(f"selftest: {summary} in {time.time() - t0:.1f}s")
    run_selftest.last_summary = dict(summary, variants=len(variants), wall_s=round(time.time() - t0, 1))
    return ok


if __name__ == "__main__":
    sys.exit(0 if run_selftest(sys.argv[1:] or None) else 2)
