"""E5 axis typing / quadrature checks for the 3-D inertia integrators (C01, C02) and helpers."""

from __future__ import annotations

import ast
import math
from fractions import Fraction
from itertools import product

from .algebra import Poly

AX = "xyz"
NAMES = {"i_xx": (0, 0), "i_yy": (1, 1), "i_zz": (2, 2), "i_xy": (0, 1), "i_xz": (0, 2), "i_yz": (1, 2)}


def expected_integrand(name):
    a, b = NAMES[name]
    X = [Poly.atom(c) for c in AX]
    if a == b:
        others = [i for i in range(3) if i != a]
        return X[others[0]] * X[others[0]] + X[others[1]] * X[others[1]]
    return -(X[a] * X[b])


def lambda_poly(lam: ast.Lambda):
    """polynomial in x,y,z of a lambda  t -> expr over t[:, k]."""
    arg = lam.args.args[0].arg

    def ev(n):
        if isinstance(n, ast.BinOp):
            l, r = ev(n.left), ev(n.right)
            if l is None or r is None:
                return None
            if isinstance(n.op, ast.Add):
                return l + r
            if isinstance(n.op, ast.Sub):
                return l - r
            if isinstance(n.op, ast.Mult):
                return l * r
            if isinstance(n.op, ast.Pow):
                e = r.const_value()
                return l.pow(e) if e is not None else None
            return None
        if isinstance(n, ast.UnaryOp) and isinstance(n.op, ast.USub):
            v = ev(n.operand)
            return -v if v is not None else None
        if isinstance(n, ast.Constant) and isinstance(n.value, (int, float)):
            return Poly.const(n.value)
        if isinstance(n, ast.Subscript) and isinstance(n.value, ast.Name) and n.value.id == arg:
            sl = n.slice
            elts = sl.elts if isinstance(sl, ast.Tuple) else [sl]
            last = elts[-1]
            try:
                k = ast.literal_eval(last)
            except Exception:
                return None
            if isinstance(k, int) and 0 <= k < 3:
                return Poly.atom(AX[k])
        return None

    return ev(lam.body)


def matrix_display(fn_node):
    """the returned 3x3 display -> [[name,...],...] or None."""
    own_returns = [n for n in fn_node.body if isinstance(n, ast.Return)] or \
                  [n for n in ast.walk(fn_node) if isinstance(n, ast.Return)]
    assigns = {n.targets[0].id: n.value for n in ast.walk(fn_node)
               if isinstance(n, ast.Assign) and len(n.targets) == 1 and isinstance(n.targets[0], ast.Name)}
    for n in own_returns:
        if n.value is not None:
            v = n.value
            if isinstance(v, ast.Name) and v.id in assigns:
                v = assigns[v.id]
            if isinstance(v, ast.Call) and v.args and isinstance(v.args[0], ast.List):
                rows = v.args[0].elts
                if len(rows) == 3 and all(isinstance(r, ast.List) and len(r.elts) == 3 for r in rows):
                    try:
                        return [[e.id if isinstance(e, ast.Name) else None for e in r.elts] for r in rows]
                    except Exception:
                        return None
    return None


CANON = {(0, 0): "i_xx", (1, 1): "i_yy", (2, 2): "i_zz", (0, 1): "i_xy", (0, 2): "i_xz", (1, 2): "i_yz"}


def component_map(fn_node):
    """local variable name -> canonical component ('i_xx', ...) by the slot(s) it occupies in the returned 3x3
    display (the names themselves carry no meaning).  -> (mapping, problems)"""
    disp = matrix_display(fn_node)
    if disp is None:
        return {}, ["returned 3x3 display not found"]
    mapping, probs = {}, []
    for i, j in product(range(3), range(3)):
        nm = disp[i][j]
        want = CANON[tuple(sorted((i, j)))]
        if nm is None:
            probs.append(f"slot ({AX[i]},{AX[j]}) is not a plain local")
        elif nm in mapping and mapping[nm] != want:
            probs.append(f"slot ({AX[i]},{AX[j]}) holds the component computed as {mapping[nm]}")
        else:
            mapping.setdefault(nm, want)
    for i, j in ((0, 1), (0, 2), (1, 2)):
        if disp[i][j] != disp[j][i]:
            probs.append(f"slots ({AX[i]},{AX[j]}) and ({AX[j]},{AX[i]}) differ: the tensor is not symmetric")
    # plain renamings `i_xy = tmp` (once-assigned locals, e.g. the elements of an unrolled vector): tmp is that component too
    from .astutil import single_assignments
    env = single_assignments(fn_node)
    for _ in range(3):
        for nm, want in list(mapping.items()):
            src = env.get(nm)
            if isinstance(src, ast.Name) and src.id in env and src.id not in mapping:
                mapping[src.id] = want
    return mapping, probs


def check_display(disp):
    """names in their slots and symmetric: -> list of problems."""
    probs = []
    if disp is None:
        return ["returned 3x3 display not found"]
    for i, j in product(range(3), range(3)):
        nm = disp[i][j]
        want = tuple(sorted((i, j)))
        if nm not in NAMES:
            probs.append(f"slot ({i},{j}) holds {nm}")
        elif NAMES[nm] != want:
            probs.append(f"slot ({AX[i]},{AX[j]}) holds {nm}")
    return probs


def fold(node):
    """constant-fold a literal arithmetic expression to a Fraction (or nested lists)."""
    if isinstance(node, ast.Constant) and isinstance(node.value, (int, float)):
        return Fraction(repr(node.value)) if isinstance(node.value, float) else Fraction(node.value)
    if isinstance(node, ast.UnaryOp) and isinstance(node.op, ast.USub):
        v = fold(node.operand)
        return -v if v is not None else None
    if isinstance(node, ast.BinOp):
        l, r = fold(node.left), fold(node.right)
        if isinstance(l, Fraction) and isinstance(r, Fraction):
            if isinstance(node.op, ast.Add):
                return l + r
            if isinstance(node.op, ast.Sub):
                return l - r
            if isinstance(node.op, ast.Mult):
                return l * r
            if isinstance(node.op, ast.Div):
                return l / r if r != 0 else None
        return None
    if isinstance(node, (ast.List, ast.Tuple)):
        out = [fold(e) for e in node.elts]
        return out if all(o is not None for o in out) else None
    return None


def quadrature_table(fn_node):
    """extract barycentric nodes and weights of ConvexPolyhedron._compute_inertia_tensor by structure (no names):
    the nested function that holds a foldable >= 3-row coefficient literal and divides the array it returns by a
    constant gives (coefficients, divisor); the only foldable flat literal of as many numbers in the outer body is
    the weight vector.   -> (nodes [[l1,l2,l3]...], weights [...], problems)"""
    scalars = divisor = weights = None
    nested = [n for n in ast.walk(fn_node) if isinstance(n, ast.FunctionDef) and n is not fn_node]
    nested_nodes = set()
    for nf in nested:
        lits, divs, rets = [], [], set()
        for n in ast.walk(nf):
            nested_nodes.add(id(n))
            if isinstance(n, ast.Assign) and len(n.targets) == 1 and isinstance(n.targets[0], ast.Name):
                v = fold(n.value)
                if v is None and isinstance(n.value, ast.Call) and ast.unparse(n.value.func).split(".")[-1] in ("array", "asarray") and n.value.args:
                    # a regular table np.array([[...], ...]): row i holds the weights of the three corners when the row is applied
                    # as a column, `abc * row[:, np.newaxis]` (checked below); otherwise a flat row multiplies coordinates
                    v = fold(n.value.args[0])
                    if isinstance(v, list) and len(v) >= 3 and all(isinstance(r, list) and len(r) == 3 and all(isinstance(x, Fraction) for x in r) for r in v):
                        name_ = n.targets[0].id
                        loopvars = set()
                        for l_ in ast.walk(nf):
                            if isinstance(l_, ast.For):
                                it_ = l_.iter
                                if isinstance(it_, ast.Call) and isinstance(it_.func, ast.Name) and it_.func.id == "enumerate" and it_.args:
                                    it_ = it_.args[0]
                                    tv = l_.target.elts[1] if isinstance(l_.target, ast.Tuple) and len(l_.target.elts) == 2 else None
                                else:
                                    tv = l_.target
                                if isinstance(it_, ast.Name) and it_.id == name_ and isinstance(tv, ast.Name):
                                    loopvars.add(tv.id)
                        as_column = False
                        for u_ in ast.walk(nf):
                            if isinstance(u_, ast.Subscript) and isinstance(u_.slice, ast.Tuple) and len(u_.slice.elts) == 2 \
                                    and isinstance(u_.slice.elts[0], ast.Slice) and ast.unparse(u_.slice.elts[1]) in ("np.newaxis", "None", "numpy.newaxis"):
                                b_ = u_.value
                                if (isinstance(b_, ast.Name) and b_.id in loopvars) or (isinstance(b_, ast.Subscript) and isinstance(b_.value, ast.Name) and b_.value.id == name_):
                                    as_column = True
                        for u_ in ast.walk(nf):
                            # table.T[:, np.newaxis, :] against corners[:, :, :, np.newaxis], summed over the corner axis: entry
                            # (point, corner) of the table weighs that corner in that point - the same rows, applied by broadcasting
                            if isinstance(u_, ast.Subscript) and isinstance(u_.value, ast.Attribute) and u_.value.attr == "T" and isinstance(u_.value.value, ast.Name) \
                                    and u_.value.value.id == name_ and isinstance(u_.slice, ast.Tuple) and len(u_.slice.elts) == 3 \
                                    and isinstance(u_.slice.elts[0], ast.Slice) and ast.unparse(u_.slice.elts[1]) in ("np.newaxis", "None", "numpy.newaxis") \
                                    and isinstance(u_.slice.elts[2], ast.Slice) \
                                    and any(isinstance(c_, ast.Call) and ast.unparse(c_.func).split(".")[-1] == "sum" and any(
                                        k_.arg == "axis" and isinstance(k_.value, ast.Constant) and k_.value.value == 1 for k_ in c_.keywords) for c_ in ast.walk(nf)):
                                as_column = True
                        # corners[:, k, ...] * table[:, k] for k = 0, 1, 2, added up: column k of the table weighs corner k
                        ks_ = set()
                        for u_ in ast.walk(nf):
                            if isinstance(u_, ast.BinOp) and isinstance(u_.op, ast.Mult):
                                for t_, o_ in ((u_.left, u_.right), (u_.right, u_.left)):
                                    if isinstance(t_, ast.Subscript) and isinstance(t_.value, ast.Name) and t_.value.id == name_ and isinstance(t_.slice, ast.Tuple) \
                                            and len(t_.slice.elts) == 2 and isinstance(t_.slice.elts[0], ast.Slice) and isinstance(t_.slice.elts[1], ast.Constant) \
                                            and isinstance(o_, ast.Subscript) and isinstance(o_.slice, ast.Tuple) and len(o_.slice.elts) >= 2 \
                                            and isinstance(o_.slice.elts[1], ast.Constant) and o_.slice.elts[1].value == t_.slice.elts[1].value:
                                        ks_.add(t_.slice.elts[1].value)
                        if ks_ == {0, 1, 2}:
                            as_column = True
                        if as_column:
                            v = [[[x] for x in r] if len(set(r)) != 1 else r for r in v]       # the ragged form of the same table
                        else:
                            v = None
                if isinstance(v, list) and len(v) >= 3 and all(isinstance(r, list) and len(r) == 3 for r in v):
                    lits.append(v)
            elif isinstance(n, ast.AugAssign) and isinstance(n.op, ast.Div) and isinstance(n.target, ast.Name):
                d = fold(n.value)
                if isinstance(d, Fraction):
                    divs.append((n.target.id, d))
            elif isinstance(n, ast.Return) and isinstance(n.value, ast.Name):
                rets.add(n.value.id)
            elif isinstance(n, ast.Return) and isinstance(n.value, ast.BinOp) and isinstance(n.value.op, ast.Div) and isinstance(n.value.left, ast.Name):
                # return q / 5
                d = fold(n.value.right)
                if isinstance(d, Fraction):
                    divs.append((n.value.left.id, d))
                    rets.add(n.value.left.id)
            if isinstance(n, ast.Assign) and len(n.targets) == 1 and isinstance(n.targets[0], ast.Name) and isinstance(n.value, ast.BinOp) \
                    and isinstance(n.value.op, ast.Div) and isinstance(n.value.left, ast.Name):
                # q = q / 5   |   points = q / 5 ... return points
                d = fold(n.value.right)
                if isinstance(d, Fraction):
                    divs.append((n.targets[0].id, d))
                    divs.append((n.value.left.id, d))
        good = [d for (t, d) in divs if t in rets]
        if lits and good:
            scalars, divisor = lits[0], good[0]
    if scalars is not None:
        for n in ast.walk(fn_node):
            if id(n) in nested_nodes or not isinstance(n, ast.Assign):
                continue
            v = n.value
            while isinstance(v, ast.Attribute):
                v = v.value
            if isinstance(v, ast.Call) and v.args:
                w = fold(v.args[0])
                while isinstance(w, list) and len(w) == 1 and isinstance(w[0], list):
                    w = w[0]
                if isinstance(w, list) and len(w) == len(scalars) and all(isinstance(x, Fraction) for x in w):
                    weights = w
    probs = []
    if scalars is None or divisor is None or weights is None:
        return None, None, ["quadrature literals (coefficient rows, division of the returned points, weight vector) not found as foldable constants"]
    nodes = []
    for row in scalars:
        if all(isinstance(x, Fraction) for x in row):
            if len(set(row)) != 1:
                probs.append("a flat coefficient row with unequal entries multiplies coordinates, not vertices")
                return None, None, probs
            lam = [row[0] / divisor] * 3
        else:
            lam = [x[0] / divisor for x in row]
        nodes.append(lam)
    return nodes, weights, probs


def moment_conditions(nodes, weights, degree=3):
    """degree-`degree` exactness on the triangle: sum_i w_i l1^a l2^b l3^c = 2 a! b! c! / (a+b+c+2)!"""
    bad = []
    n = 0
    for a in range(degree + 1):
        for b in range(degree + 1 - a):
            for c in range(degree + 1 - a - b):
                n += 1
                lhs = sum(w * l[0] ** a * l[1] ** b * l[2] ** c for w, l in zip(weights, nodes))
                rhs = Fraction(2 * math.factorial(a) * math.factorial(b) * math.factorial(c), math.factorial(a + b + c + 2))
                if lhs != rhs:
                    bad.append(((a, b, c), lhs, rhs))
    return n, bad


def abs_of_det(fn_node):
    """np.abs / abs applied to an expression containing linalg.det with no sum in between."""
    out = []
    for n in ast.walk(fn_node):
        if isinstance(n, ast.Call):
            f = ast.unparse(n.func)
            if f in ("np.abs", "abs", "np.absolute", "np.fabs") and n.args:
                inner = n.args[0]
                has_det = any(isinstance(x, ast.Call) and ast.unparse(x.func).endswith("linalg.det") for x in ast.walk(inner))
                has_sum = any(isinstance(x, ast.Call) and ast.unparse(x.func) in ("np.sum", "sum", "np.einsum") for x in ast.walk(inner))
                if has_det and not has_sum:
                    out.append(n)
    return out


def one_sided_filter_of_det(fn_node):
    """Ordering comparisons of the *signed* determinant-derived weights whose result selects which terms are kept.

    `volumes = det(..) / 6; keep = volumes > tol; simplices, volumes = simplices[keep], volumes[keep]` drops every
    negatively oriented tetrahedron: the regions a non-star-shaped solid sweeps twice no longer cancel. A filter on the
    magnitude (`np.abs(volumes) > tol`) keeps both signs and is not reported. Returns the Compare nodes."""
    det_names = set()
    changed = True
    assigns = [n for n in ast.walk(fn_node) if isinstance(n, ast.Assign) and len(n.targets) == 1 and isinstance(n.targets[0], ast.Name)]

    def signed_det(e):
        """expression carries the sign of a determinant: det(..) itself, a det-derived name, or either scaled by a constant"""
        if isinstance(e, ast.Call) and ast.unparse(e.func).endswith("linalg.det"):
            return True
        if isinstance(e, ast.Name):
            return e.id in det_names
        if isinstance(e, ast.BinOp) and isinstance(e.op, (ast.Mult, ast.Div)):
            if isinstance(e.right, ast.Constant) and isinstance(e.right.value, (int, float)) and e.right.value > 0:
                return signed_det(e.left)
            if isinstance(e.op, ast.Mult) and isinstance(e.left, ast.Constant) and isinstance(e.left.value, (int, float)) and e.left.value > 0:
                return signed_det(e.right)
        return False

    while changed:
        changed = False
        for a in assigns:
            if a.targets[0].id not in det_names and signed_det(a.value):
                det_names.add(a.targets[0].id)
                changed = True
    masks = {}
    for n in ast.walk(fn_node):
        if isinstance(n, ast.Compare) and len(n.ops) == 1 and isinstance(n.ops[0], (ast.Gt, ast.GtE, ast.Lt, ast.LtE)):
            if signed_det(n.left) or signed_det(n.comparators[0]):
                masks[id(n)] = n
    if not masks:
        return []
    mask_names = {a.targets[0].id: a.value for a in assigns if id(a.value) in masks}
    # a mask whose complement is used as well partitions the terms (both parts are kept): no verdict
    for n in ast.walk(fn_node):
        inner = None
        if isinstance(n, ast.UnaryOp) and isinstance(n.op, (ast.Invert, ast.Not)):
            inner = n.operand
        elif isinstance(n, ast.Call) and ast.unparse(n.func) in ("np.logical_not", "np.invert") and n.args:
            inner = n.args[0]
        if inner is not None and (id(inner) in masks or (isinstance(inner, ast.Name) and inner.id in mask_names)):
            return []
    out = []

    def is_mask(e):
        if id(e) in masks:
            return masks[id(e)]
        if isinstance(e, ast.Name) and e.id in mask_names:
            return mask_names[e.id]
        return None

    for n in ast.walk(fn_node):
        m = None
        if isinstance(n, ast.Subscript):
            m = is_mask(n.slice)
        elif isinstance(n, ast.Call) and ast.unparse(n.func) in ("np.where", "np.compress", "np.extract") and n.args:
            m = is_mask(n.args[0])
        elif isinstance(n, ast.BinOp) and isinstance(n.op, ast.Mult):
            m = is_mask(n.left) or is_mask(n.right)
        if m is not None and m not in out:
            out.append(m)
    return out
