"""Abstract values of the product domain used by the inlining interpreter.

dim   : length exponent (E3)       alias : may-alias set of storage locations (E1)
deps  : data dependences on state/params      sym : closed-form normal form (E4) or None
const : python constant if known   kind  : coarse shape of the value (int / idx / arr ...)
"""

from __future__ import annotations

from fractions import Fraction
from typing import Any, Optional

from .algebra import Poly

# ----------------------------------------------------------------------------- dims
ANY = ("ANY",)
TOP = ("TOP",)


def D(k):
    return ("D", Fraction(k))


D0 = D(0)


def COLS(cols, lead=1):
    return ("COLS", tuple(None if c is None else Fraction(c) for c in cols), lead)


def dim_known(d):
    return d[0] == "D"


def dim_str(d):
    if d[0] == "D":
        return f"L^{d[1]}"
    if d[0] == "COLS":
        return "cols(" + ",".join("?" if c is None else str(c) for c in d[1]) + ")"
    return d[0]


def dim_collapse(d):
    """COLS with identical (known) columns -> D.  A column entry None is a wildcard (not yet written)."""
    if d[0] == "COLS":
        known = set(c for c in d[1] if c is not None)
        if len(known) == 1 and None not in d[1]:
            return D(d[1][0])
        if not known:
            return ANY
    return d


def dim_unify(a, b):
    """-> (result, conflict: bool).  ANY unifies with anything, TOP absorbs silently."""
    a = dim_collapse(a)
    b = dim_collapse(b)
    if a == ANY:
        return b, False
    if b == ANY:
        return a, False
    if a == TOP or b == TOP:
        return TOP, False
    if a == b:
        return a, False
    if a[0] == "COLS" and b[0] == "COLS":
        if len(a[1]) == len(b[1]):
            out = []
            for x, y in zip(a[1], b[1]):
                if x is None:
                    out.append(y)
                elif y is None or x == y:
                    out.append(x)
                else:
                    return TOP, True
            return ("COLS", tuple(out), min(a[2], b[2])), False
        return TOP, True
    if a[0] == "COLS" and b[0] == "D":
        if all(c is None or c == b[1] for c in a[1]):
            return ("COLS", tuple(b[1] if c is None else c for c in a[1]), a[2]), False
        return TOP, True
    if b[0] == "COLS" and a[0] == "D":
        return dim_unify(b, a)
    if a[0] == "COLS" or b[0] == "COLS":
        return TOP, True
    return TOP, True


def dim_mul(a, b):
    a = dim_collapse(a)
    b = dim_collapse(b)
    if a == TOP or b == TOP:
        return TOP
    if a == ANY and b == ANY:
        return ANY
    if a == ANY:
        return ANY if b[0] == "D" else TOP
    if b == ANY:
        return ANY if a[0] == "D" else TOP
    if a[0] == "D" and b[0] == "D":
        return D(a[1] + b[1])
    if a[0] == "COLS" and b[0] == "D":
        return ("COLS", tuple(None if c is None else c + b[1] for c in a[1]), a[2])
    if b[0] == "COLS" and a[0] == "D":
        return ("COLS", tuple(None if c is None else c + a[1] for c in b[1]), b[2])
    if a[0] == "COLS" and b[0] == "COLS" and len(a[1]) == len(b[1]):
        return ("COLS", tuple(None if (x is None or y is None) else x + y for x, y in zip(a[1], b[1])), min(a[2], b[2]))
    return TOP


def dim_pow(a, e):
    a = dim_collapse(a)
    if a[0] == "D":
        return D(a[1] * Fraction(e))
    if a[0] == "COLS":
        return ("COLS", tuple(None if c is None else c * Fraction(e) for c in a[1]), a[2])
    return a


def dim_inv(a):
    return dim_pow(a, -1)


def dim_div(a, b):
    return dim_mul(a, dim_inv(b))


def dim_contract(a):
    """reduce over the last (column) axis: all columns must agree."""
    a = dim_collapse(a)
    if a[0] == "COLS":
        return TOP
    return a


# ----------------------------------------------------------------------------- values
NOCONST = object()
MAY_TAGS = frozenset(["batch"])   # may-properties: union at merges


class ObjRef:
    __slots__ = ("cls", "oid")

    def __init__(self, cls, oid):
        self.cls = cls
        self.oid = oid

    def __eq__(self, o):
        return isinstance(o, ObjRef) and o.cls is self.cls and o.oid == self.oid

    def __hash__(self):
        return hash((self.cls.name, self.oid))

    def __repr__(self):
        return f"<{self.cls.name} {self.oid}>"


_EMPTY = frozenset()


class Val:
    __slots__ = (
        "dim", "al", "deps", "sym", "const", "kind", "obj", "tags", "items", "mapping",
        "fn", "ext", "elem", "base", "name", "pdeps", "guardp", "born", "extra", "tr",
    )

    def __init__(self, dim=TOP, al=_EMPTY, deps=_EMPTY, sym=None, const=NOCONST, kind="unknown",
                 obj=None, tags=_EMPTY, items=None, mapping=None, fn=None, ext=None, elem=None,
                 base=None, name=None, pdeps=_EMPTY, guardp=_EMPTY, born=0, extra=None, tr=None):
        self.dim = dim
        self.al = al          # frozenset of Loc=(oid, attr)  -- the storage this value is / views
        self.deps = deps      # frozenset of Loc read to compute it
        self.sym = sym        # Poly | None
        self.const = const
        self.kind = kind
        self.obj = obj        # ObjRef
        self.tags = tags
        self.items = items    # tuple of Val for tuple/list displays
        self.mapping = mapping  # dict const-key -> Val for dict displays
        self.fn = fn
        self.ext = ext        # dotted name of an external callable/module
        self.elem = elem      # Val of elements for homogeneous containers / generators
        self.base = base      # receiver Val (bound methods)
        self.name = name
        self.pdeps = pdeps    # entry-parameter names this value depends on
        self.guardp = guardp  # entry-parameter names of which this value is a positive multiple
        self.born = born      # time stamp of creation (escape-then-mutate)
        self.extra = extra
        self.tr = tr          # translation type (cxa/trans.py): T0 | T1 | TA | MIX | TX | EQ | None

    def copy(self, **kw):
        v = Val.__new__(Val)
        for s in Val.__slots__:
            setattr(v, s, getattr(self, s))
        for k, x in kw.items():
            setattr(v, k, x)
        return v

    def has_const(self):
        return self.const is not NOCONST

    def is_number_const(self):
        return self.const is not NOCONST and isinstance(self.const, (int, float)) and not isinstance(self.const, bool)

    def all_aliases(self):
        """aliases of the value and (transitively) of what it contains."""
        out = set(self.al)
        if self.items:
            for i in self.items:
                out |= i.all_aliases()
        if self.mapping:
            for i in self.mapping.values():
                out |= i.all_aliases()
        if self.elem is not None and self.mapping is None:
            out |= self.elem.all_aliases()
        return out

    def all_alias_births(self):
        """(loc, born) pairs for escape-then-mutate."""
        out = set((l, self.born) for l in self.al)
        if self.items:
            for i in self.items:
                out |= i.all_alias_births()
        if self.mapping:
            for i in self.mapping.values():
                out |= i.all_alias_births()
        if self.elem is not None and self.mapping is None:
            out |= self.elem.all_alias_births()
        return out

    def __repr__(self):
        bits = [self.kind, dim_str(self.dim)]
        if self.al:
            bits.append("al=" + ",".join(f"{o}.{a}" for o, a in sorted(self.al)))
        if self.const is not NOCONST:
            bits.append(f"const={self.const!r}")
        if self.sym is not None:
            bits.append(f"sym={self.sym}")
        if self.obj:
            bits.append(repr(self.obj))
        if self.tags:
            bits.append(f"tags={sorted(map(str, self.tags))}")
        return "Val(" + " ".join(bits) + ")"


def vtop(**kw):
    return Val(**kw)


def vconst(c, born=0):
    if isinstance(c, bool) or c is None or isinstance(c, str):
        return Val(dim=D0, const=c, kind="bool" if isinstance(c, bool) else ("none" if c is None else "str"), born=born)
    if isinstance(c, (int, float)):
        dim = ANY if (c == 0 or c in (float("inf"), float("-inf"))) else D0
        sym = None
        try:
            if c == c and c not in (float("inf"), float("-inf")):
                sym = Poly.const(c)
        except Exception:
            sym = None
        return Val(dim=dim, const=c, kind="int" if isinstance(c, int) else "float", sym=sym, born=born)
    if isinstance(c, complex):
        return Val(dim=D0, const=c, kind="complex", born=born)
    return Val(dim=D0, const=c, kind="other", born=born)


def alt_objs(v):
    """the objects a value may be: its own, or the alternatives recorded when different objects met at a merge."""
    if v is None:
        return frozenset()
    out = set()
    if v.obj is not None:
        out.add(v.obj)
    for t in v.tags:
        if isinstance(t, tuple) and t and t[0] == "objs":
            out |= set(t[1])
    return frozenset(out)


def _alt_objs(a, b):
    if a.obj is not None and a.obj == b.obj:
        return frozenset()
    alts = alt_objs(a) | alt_objs(b)
    if len(alts) > 1 or (alts and (a.obj is None or b.obj is None) and (a.obj != b.obj)):
        return frozenset([("objs", frozenset(alts))])
    return frozenset()


def _alt_fns(a, b):
    """two different functions met at a merge: remember the alternatives (called one by one, results joined)."""
    if a.kind == "func" and b.kind == "func":
        fns = []
        for v in (a, b):
            cand = [v.fn] if v.fn is not None else (list(v.extra[1]) if (v.extra and isinstance(v.extra, tuple) and v.extra[0] == "fns") else [])
            for f in cand:
                if not any(f is g for g in fns):
                    fns.append(f)
        if fns:
            return ("fns", fns)
    return None


def join_vals(a: Optional[Val], b: Optional[Val]) -> Optional[Val]:
    if a is None:
        return b
    if b is None:
        return a
    if a is b:
        return a
    # "optional" values: None on one path (not computed yet / absent) and a structured value on the other.  None cannot be
    # subscripted or called, so whatever is done with the joined value later is done with the structured one.
    for x_, y_ in ((a, b), (b, a)):
        if x_.has_const() and x_.const is None and not (y_.has_const() and y_.const is None) and (y_.items is not None or y_.obj is not None):
            return y_.copy(const=NOCONST, tags=y_.tags | {"optional"}, deps=y_.deps | x_.deps, pdeps=y_.pdeps | x_.pdeps)
    # at a merge a bare number can stand for a quantity of any dimension (x = 0 / x = 1 in one branch)
    ad = ANY if (a.is_number_const() and dim_known(dim_collapse(b.dim))) else a.dim
    bd = ANY if (b.is_number_const() and dim_known(dim_collapse(a.dim))) else b.dim
    dim, conflict = dim_unify(ad, bd)
    if conflict:
        dim = TOP
    items = None
    if a.items is not None and b.items is not None and len(a.items) == len(b.items):
        items = tuple(join_vals(x, y) for x, y in zip(a.items, b.items))
    mapping = None
    if a.mapping is not None and b.mapping is not None and set(a.mapping) == set(b.mapping):
        mapping = {k: join_vals(a.mapping[k], b.mapping[k]) for k in a.mapping}
    same_const = a.const is not NOCONST and b.const is not NOCONST and type(a.const) is type(b.const) and a.const == b.const
    return Val(
        dim=dim,
        al=a.al | b.al,
        deps=a.deps | b.deps,
        sym=a.sym if (a.sym is not None and a.sym == b.sym) else None,
        const=a.const if same_const else NOCONST,
        kind=a.kind if a.kind == b.kind else ("unknown" if "none" not in (a.kind, b.kind) else (a.kind if b.kind == "none" else b.kind)),
        obj=a.obj if a.obj == b.obj else None,
        tags=(a.tags & b.tags) | ((a.tags | b.tags) & MAY_TAGS) | _alt_objs(a, b),
        items=items,
        mapping=mapping,
        fn=a.fn if a.fn is b.fn else None,
        ext=a.ext if a.ext == b.ext else None,
        elem=join_vals(a.elem, b.elem) if (a.elem is not None or b.elem is not None) else None,
        base=a.base if a.base is b.base else None,
        name=a.name if a.name == b.name else None,
        pdeps=a.pdeps | b.pdeps,
        guardp=a.guardp & b.guardp,
        born=min(a.born, b.born),
        extra=a.extra if a.extra == b.extra else _alt_fns(a, b),
        tr=a.tr if a.tr == b.tr else None,
    )
