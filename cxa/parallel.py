"""COPY-1: parallel statements must be renamed consistently.

Two simple statements of one block whose syntax trees are identical up to identifier names (and constants)
are *parallel* (x/y/z, p1/p2, v0/v1/v2 copies of one line).  Reading the aligned identifier parts (split at
'_') as a substitution, every part that is renamed somewhere in the pair must be renamed the same way at all of
its occurrences in that pair, provided the consistently renamed identifier exists in the function.  A part that
is renamed in most places and left alone in one is the classic copy-and-paste slip (Engler et al.: contradiction
rules need no statistics).
"""

from __future__ import annotations

import ast
from itertools import combinations


def _shape(node):
    """structure of a statement ignoring identifier spellings and constant values."""
    out = []
    for n in ast.walk(node):
        t = type(n).__name__
        if isinstance(n, ast.Name):
            out.append("Name")
        elif isinstance(n, ast.Attribute):
            out.append("Attr")
        elif isinstance(n, ast.Constant):
            out.append("Const:" + type(n.value).__name__)
        elif isinstance(n, ast.keyword):
            out.append("kw:" + str(n.arg))
        else:
            out.append(t)
    return tuple(out)


def _idents(node):
    out = []
    for n in ast.walk(node):
        if isinstance(n, ast.Name):
            out.append(n.id)
        elif isinstance(n, ast.Attribute):
            out.append("." + n.attr)
    return out


def _blocks(fn_node):
    for n in ast.walk(fn_node):
        for fld in ("body", "orelse", "finalbody"):
            b = getattr(n, fld, None)
            if isinstance(b, list) and b and isinstance(b[0], ast.stmt):
                yield b


def check_function(fn_node):
    """-> list of (stmt_a, stmt_b, part, seen_targets, line) inconsistencies."""
    names = {n.id for n in ast.walk(fn_node) if isinstance(n, ast.Name)} | {a.arg for a in ast.walk(fn_node) if isinstance(a, ast.arg)}
    findings = []
    for block in _blocks(fn_node):
        simple = [s for s in block if isinstance(s, (ast.Assign, ast.AugAssign, ast.Expr, ast.Return))]
        shapes = {}
        for s in simple:
            shapes.setdefault(_shape(s), []).append(s)
        for group in shapes.values():
            if len(group) < 2:
                continue
            for a, b in combinations(group, 2):
                ia, ib = _idents(a), _idents(b)
                if len(ia) != len(ib) or ia == ib:
                    continue
                mapping = {}
                ok = True
                for x, y in zip(ia, ib):
                    px, py = x.split("_"), y.split("_")
                    if len(px) != len(py):
                        ok = False
                        break
                    for u, v in zip(px, py):
                        mapping.setdefault(u, {}).setdefault(v, []).append((x, y))
                if not ok:
                    continue
                for part, targets in mapping.items():
                    renamed = {t: occ for t, occ in targets.items() if t != part}
                    if not renamed or part not in targets:
                        continue
                    # `part` is renamed in some places and kept in others
                    kept = targets[part]
                    (t, occ), = list(renamed.items())[:1]
                    if len(occ) < 2 and len(renamed) == 1 and len(kept) >= len(occ):
                        continue  # a single renaming is not a belief
                    for (x, y) in kept:
                        cand = "_".join(t if u == part else u for u in x.split("_"))
                        if cand.lstrip(".") in names and cand != y:
                            findings.append((a, b, part, t, x, cand, b.lineno))
    return findings


def _int_consts(node):
    out = []
    for n in ast.walk(node):
        if isinstance(n, ast.Constant) and isinstance(n.value, int) and not isinstance(n.value, bool):
            out.append(n.value)
    return out


def check_constant_patterns(fn_node):
    """COPY-2: in a family of >= 3 parallel statements the order relations between the integer constants at
    corresponding positions (index pairs such as [1]*[0] - [0]*[1]) agree; a single member that reverses a
    relation all the others share has its operands swapped (a sign error in a hand-written cross product)."""
    findings = []
    for block in _blocks(fn_node):
        simple = [s for s in block if isinstance(s, (ast.Assign, ast.AugAssign))]
        shapes = {}
        for s in simple:
            shapes.setdefault(_shape(s), []).append(s)
        for group in shapes.values():
            if len(group) < 3:
                continue
            consts = [_int_consts(s) for s in group]
            n = len(consts[0])
            if n < 2 or any(len(c) != n for c in consts):
                continue
            # only the antisymmetric component pattern  a[i]*b[j] - a[j]*b[i]  (hand-written cross products)
            if n != 4 or not all(c[0] == c[3] and c[1] == c[2] and c[0] != c[1] for c in consts):
                continue
            if not all(isinstance(getattr(s_, "value", None), ast.BinOp) and isinstance(s_.value.op, ast.Sub) for s_ in group):
                continue
            # identifiers must be the same in all members up to the assigned name (a pure index family)
            for i in range(n):
                for j in range(i + 1, n):
                    rel = [(c[i] > c[j]) - (c[i] < c[j]) for c in consts]
                    for k, r in enumerate(rel):
                        others = rel[:k] + rel[k + 1:]
                        if len(set(others)) == 1 and others[0] != 0 and r == -others[0]:
                            findings.append((group[k], i, j, consts[k], [c for m, c in enumerate(consts) if m != k]))
    # report each statement once
    seen = set()
    out = []
    for f in findings:
        if id(f[0]) not in seen:
            seen.add(id(f[0]))
            out.append(f)
    return out


def scan(index):
    """all inconsistencies of the repository: list of dict(module, cls, func, line, part, to, kept, expected, stmt)."""
    out = []
    for m in index.modules.values():
        if "bentley_ottmann" in m.name:
            continue
        classes = {id(c.node): c.name for c in m.classes.values()}

        def visit(node, cls, chain):
            for ch in ast.iter_child_nodes(node):
                if isinstance(ch, ast.ClassDef):
                    visit(ch, ch.name, chain)
                elif isinstance(ch, (ast.FunctionDef, ast.AsyncFunctionDef)):
                    top = chain[0] if chain else ch.name
                    # only the function's own blocks (nested functions are visited on their own)
                    for f in check_function_own(ch):
                        out.append({"module": m.name, "file": m.relpath, "cls": cls, "func": ch.name, "top": top, "line": f[6],
                                    "part": f[2], "to": f[3], "kept": f[4], "expected": f[5], "stmt": ast.unparse(f[1])[:100], "kind": "COPY-1"})
                    clone = ast.parse(ast.unparse(ch)).body[0]
                    for sub in list(ast.walk(clone)):
                        for fld in ("body", "orelse"):
                            b = getattr(sub, fld, None)
                            if isinstance(b, list) and sub is not clone:
                                pass
                    own = ast.parse(ast.unparse(ch)).body[0]
                    own.body = [x for x in own.body if not isinstance(x, (ast.FunctionDef, ast.ClassDef))] or [ast.Pass()]
                    for (stmt, i, j, mine, others) in check_constant_patterns(own):
                        out.append({"module": m.name, "file": m.relpath, "cls": cls, "func": ch.name, "top": top,
                                    "line": ch.lineno + getattr(stmt, "lineno", 1) - 1, "part": f"const#{i}<->#{j}", "to": "", "kept": ast.unparse(stmt.targets[0]) if isinstance(stmt, ast.Assign) else "?",
                                    "expected": str(others[0]), "stmt": ast.unparse(stmt)[:100], "kind": "COPY-2", "mine": mine, "others": others})
                    visit(ch, cls, chain + [ch.name] if chain else [ch.name])
                else:
                    visit(ch, cls, chain)

        visit(m.tree, None, [])
    return out


def check_function_own(fn_node):
    # strip nested function bodies so that each function is reported once
    clone = ast.parse(ast.unparse(fn_node)).body[0]
    lines = {}
    for n in ast.walk(clone):
        for fld in ("body", "orelse"):
            b = getattr(n, fld, None)
            if isinstance(b, list):
                setattr(n, fld, [s for s in b if not (isinstance(s, (ast.FunctionDef, ast.ClassDef)) and n is not None and s is not clone)] or [ast.Pass()])
    res = check_function(clone)
    # map line numbers back (unparse renumbers): report the original function's line + offset
    off = fn_node.lineno - 1
    return [(a, b, p, t, x, c, getattr(b, "lineno", 1) + off) for (a, b, p, t, x, c, _l) in res]


def report(res, index, wanted, rule="COPY-1"):
    """add COPY-1 findings for the functions selected by wanted(dict) and one discharged obligation otherwise."""
    hits = [f for f in scan(index) if wanted(f)]
    for f in hits:
        key = f"{f['cls'] + '.' if f['cls'] else ''}{f['top'] if f['top'] != f['func'] else f['func']}{'/' + f['func'] if f['top'] != f['func'] else ''}:{f['kept']}"
        if f.get("kind") == "COPY-2":
            res.bad("COPY-2", key, f"{f['file']}:{f['line']}", f"in the family of parallel statements around `{f['stmt']}` the integer indices {f['mine']} reverse an order "
                    f"relation that all the other members share ({f['others']}): the operands of this member are swapped (sign error)")
            continue
        res.bad(rule, key, f"{f['file']}:{f['line']}",
                f"parallel statements are renamed inconsistently: in `{f['stmt']}` the part '{f['part']}' becomes '{f['to']}' elsewhere in the "
                f"line but `{f['kept']}` was left (expected `{f['expected']}`): a copy-and-paste slip")
    if not hits:
        res.ok(rule, "parallel statements renamed consistently", nontrivial=False)
    if rule == "COPY-1":
        report_chunks(res, index, wanted)
        from .memokey import report_memo
        report_memo(res, index, wanted)


# ----------------------------------------------------------------------------- CHUNK-1
def _floor_chunk_loops(fn_node):
    """loops `for i in range(N // B)` (the trip count possibly bound to a local first, possibly inside max(.., 1)) whose
    body slices with i * B .. (i + 1) * B: the trailing N % B elements are never processed."""
    assigns = {}
    for n in ast.walk(fn_node):
        if isinstance(n, ast.Assign) and len(n.targets) == 1 and isinstance(n.targets[0], ast.Name):
            assigns.setdefault(n.targets[0].id, n.value)

    def floor_div(e, depth=0):
        if depth > 3:
            return None
        if isinstance(e, ast.Name) and e.id in assigns:
            return floor_div(assigns[e.id], depth + 1)
        if isinstance(e, ast.Call) and isinstance(e.func, ast.Name) and e.func.id in ("max", "int") and e.args:
            for a in e.args:
                r = floor_div(a, depth + 1)
                if r is not None:
                    return r
            return None
        if isinstance(e, ast.BinOp) and isinstance(e.op, ast.FloorDiv):
            # ceil idioms:  -(-n // b)   (n + b - 1) // b
            num = ast.unparse(e.left).replace(" ", "")
            den = ast.unparse(e.right).replace(" ", "")
            if num.startswith("-") or f"+{den}-1" in num or f"-1+{den}" in num:
                return None
            return e
        return None

    out = []
    for loop in ast.walk(fn_node):
        if not (isinstance(loop, ast.For) and isinstance(loop.iter, ast.Call) and isinstance(loop.iter.func, ast.Name)
                and loop.iter.func.id == "range" and loop.iter.args and isinstance(loop.target, ast.Name)):
            continue
        stop = loop.iter.args[-1] if len(loop.iter.args) <= 2 else loop.iter.args[1]
        fd = floor_div(stop)
        if fd is None:
            continue
        i = loop.target.id
        den = ast.unparse(fd.right).replace(" ", "")
        body_txt = "".join(ast.unparse(b) for b in loop.body).replace(" ", "")
        if (f"{i}*{den}" in body_txt or f"{den}*{i}" in body_txt) and (f"({i}+1)*{den}" in body_txt or f"{den}*({i}+1)" in body_txt):
            # a remainder handled after the loop?
            after = [n for n in ast.walk(fn_node) if getattr(n, "lineno", 0) > loop.end_lineno]
            tail = any(isinstance(n, ast.BinOp) and isinstance(n.op, ast.Mod) and ast.unparse(n.right).replace(" ", "") == den for n in after)
            if not tail:
                out.append((loop, fd))
    return out


def report_chunks(res, index, wanted, rule="CHUNK-1"):
    """CHUNK-1 for the functions selected by wanted(dict with cls/top/func/module): a batch processed in blocks covers all of it."""
    n = 0
    for mname, m in sorted(index.modules.items()):
        if not mname.startswith("coxeter") or "extern" in mname:
            continue
        items = [(None, f) for f in m.functions.values()]
        for c in m.classes.values():
            items += [(c, f) for f in c.methods.values()]
            items += [(c, p.getter) for p in c.props.values() if p.getter] + [(c, p.setter) for p in c.props.values() if p.setter]
        for c, f in items:
            info = {"cls": c.name if c else "", "top": f.name, "func": f.name, "module": mname}
            if not wanted(info):
                continue
            n += 1
            for loop, fd in _floor_chunk_loops(f.node):
                key = f"{(c.name + '.') if c else ''}{f.name}:floor-chunks"
                res.bad(rule, key, f"{f.file}:{loop.lineno}", f"the block loop runs `{ast.unparse(fd)[:50]}` times (floor division) and slices "
                        f"block i as [i*B:(i+1)*B]: the trailing len % B elements are never processed (a batch that is not a multiple of the block "
                        "size is silently truncated)")
    return n
