"""cxa - static analysis of glotzerlab/coxeter (ast only; never imports coxeter)."""

import os

REPO = os.environ.get("CXA_REPO", "/repo")
VERIF = os.path.dirname(os.path.dirname(os.path.abspath(__file__)))
