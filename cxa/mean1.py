"""MEAN-1 (shared): an observable that is defined through the centroid / through exact integrals must not depend on the
unweighted average of the vertex coordinates (np.mean(vertices, axis=0)): the vertex mean is the centroid only for
triangles, parallelograms, regular polygons and centrally symmetric solids.  Decided on the inlined run of each member:
the pseudo-dependence ('vertex-mean', site) created by a row mean over vertex coordinates travels with the data
dependences; the mean of a single column of aligned coordinates (the constant height of a polygon's plane) is exempt."""

from __future__ import annotations

from .index import FuncInfo, PropInfo
from .interp import Interp


def row_means(r):
    """sites (tag text) of row means the returned values depend on."""
    out = []
    tags = sorted({d[1] for (v_, _s, _n) in r["returns"] for d in v_.deps if d[0] == "vertex-mean"})
    for tag in tags:
        for e in r["events"]:
            if e.type == "reduce" and f"{e.fn}@{getattr(e.node, 'lineno', 0)}" == tag:
                ax = e.f.get("axis")
                if ax is not None and ax.has_const() and ax.const == 0:
                    out.append((tag, e))
                break
    return out


def check(res, index, cls_name, members, why, rule="MEAN-1"):
    cls = index.cls(cls_name)
    for member in members:
        m = cls.lookup(member)
        fn = None
        if isinstance(m, PropInfo):
            p = index.effective_prop(cls, member)
            fn = p.getter if p is not None else None
        elif isinstance(m, FuncInfo):
            fn = m
        if fn is None:
            continue
        r = Interp(index).run_entry(fn, cls)
        if not r["returns"]:
            continue
        k = f"{cls_name}.{member}"
        hits = row_means(r)
        if hits:
            tag, e = hits[0]
            res.bad(rule, k + ":vertex-mean", e.where(), f"{k} depends on an unweighted average of vertex coordinates (`{e.src()[:60]}`): the vertex mean "
                    f"is the centroid only for triangles, parallelograms, regular polygons and centrally symmetric solids; {why}")
        else:
            res.ok(rule, k, nontrivial=False)
