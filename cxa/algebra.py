"""E4 - closed-form normal form: rational-coefficient sums of monomials over atoms.

A canonicaliser of single expressions (no control flow, no solver).  Monomials carry
rational exponents so that sqrt/cbrt of a monomial stay inside the fragment; rational
coefficients under a fractional power are split into prime atoms '#p'.
"""

from __future__ import annotations

from fractions import Fraction
from typing import Dict, Optional, Tuple

Mono = Tuple[Tuple[str, Fraction], ...]


def _factor(n: int) -> Dict[int, int]:
    out = {}
    p = 2
    while p * p <= n:
        while n % p == 0:
            out[p] = out.get(p, 0) + 1
            n //= p
        p += 1
    if n > 1:
        out[n] = out.get(n, 0) + 1
    return out


def _norm_mono(d: Dict[str, Fraction]):
    """fold integer powers of '#p' atoms into a coefficient."""
    coeff = Fraction(1)
    out = {}
    for a, e in d.items():
        if e == 0:
            continue
        if a.startswith("#"):
            p = int(a[1:])
            ip = e.numerator // e.denominator  # floor
            frac = e - ip
            if ip:
                coeff *= Fraction(p) ** ip
            if frac:
                out[a] = frac
        else:
            out[a] = e
    return coeff, tuple(sorted(out.items()))


class Poly:
    __slots__ = ("terms",)

    def __init__(self, terms=None):
        self.terms: Dict[Mono, Fraction] = {}
        if terms:
            for m, c in terms.items():
                if c != 0:
                    self.terms[m] = c

    # -------------------------------------------------------------- constructors
    @staticmethod
    def const(c) -> "Poly":
        if isinstance(c, float):
            c = Fraction(repr(c))
        return Poly({(): Fraction(c)})

    @staticmethod
    def atom(name: str) -> "Poly":
        return Poly({((name, Fraction(1)),): Fraction(1)})

    # -------------------------------------------------------------- predicates
    def is_zero(self):
        return not self.terms

    def is_const(self):
        return all(m == () for m in self.terms)

    def const_value(self) -> Optional[Fraction]:
        if self.is_zero():
            return Fraction(0)
        if self.is_const():
            return self.terms[()]
        return None

    def is_monomial(self):
        return len(self.terms) == 1

    def atoms(self):
        s = set()
        for m in self.terms:
            for a, _ in m:
                s.add(a)
        return s

    # -------------------------------------------------------------- arithmetic
    def __add__(self, o: "Poly"):
        t = dict(self.terms)
        for m, c in o.terms.items():
            t[m] = t.get(m, 0) + c
        return Poly(t)

    def __neg__(self):
        return Poly({m: -c for m, c in self.terms.items()})

    def __sub__(self, o):
        return self + (-o)

    def __mul__(self, o: "Poly"):
        t = {}
        for m1, c1 in self.terms.items():
            for m2, c2 in o.terms.items():
                d = dict(m1)
                for a, e in m2:
                    d[a] = d.get(a, 0) + e
                k, m = _norm_mono(d)
                t[m] = t.get(m, 0) + c1 * c2 * k
        return Poly(t)

    def as_atom(self) -> "Poly":
        """wrap a multi-term polynomial as one opaque atom (canonical name = its normal form)."""
        if self.is_monomial() or self.is_zero():
            return self
        return Poly.atom("[" + repr(self) + "]")

    def inv(self) -> Optional["Poly"]:
        if self.is_zero():
            return None
        return self.as_atom().pow(Fraction(-1))

    def div(self, o: "Poly") -> Optional["Poly"]:
        i = o.inv()
        if i is None:
            if not o.is_zero() and self.terms == o.terms:
                return Poly.const(1)
            # try exact proportionality
            return None
        return self * i

    def pow(self, e) -> Optional["Poly"]:
        e = Fraction(e)
        if e == 0:
            return Poly.const(1)
        if e.denominator == 1 and e > 0 and (not self.is_monomial()):
            if e > 6:
                return None
            r = Poly.const(1)
            for _ in range(int(e)):
                r = r * self
            return r
        if self.is_zero():
            return None
        if not self.is_monomial():
            return self.as_atom().pow(e)
        (m, c), = self.terms.items()
        d = {a: x * e for a, x in m}
        if c < 0:
            if e.denominator % 2 == 0:
                return None
            sign = -1 if e.numerator % 2 else 1
            c = -c
        else:
            sign = 1
        # coefficient: split into primes
        for p, k in _factor(c.numerator).items():
            d[f"#{p}"] = d.get(f"#{p}", 0) + Fraction(k) * e
        for p, k in _factor(c.denominator).items():
            d[f"#{p}"] = d.get(f"#{p}", 0) - Fraction(k) * e
        k, mono = _norm_mono(d)
        return Poly({mono: k * sign})

    # -------------------------------------------------------------- calculus / substitution
    def diff(self, atom: str) -> "Poly":
        t = {}
        for m, c in self.terms.items():
            d = dict(m)
            if atom in d:
                e = d[atom]
                d[atom] = e - 1
                k, mono = _norm_mono(d)
                t[mono] = t.get(mono, 0) + c * e * k
        return Poly(t)

    def subs(self, mapping: Dict[str, "Poly"]) -> Optional["Poly"]:
        res = Poly()
        for m, c in self.terms.items():
            term = Poly.const(c)
            for a, e in m:
                if a in mapping:
                    f = mapping[a].pow(e)
                    if f is None:
                        return None
                else:
                    f = Poly({((a, e),): Fraction(1)})
                term = term * f
            res = res + term
        return res

    def degree_in(self, atoms) -> Optional[Fraction]:
        """Common total degree in the given atoms over all terms (None if mixed)."""
        deg = None
        for m in self.terms:
            d = sum((e for a, e in m if a in atoms), Fraction(0))
            if deg is None:
                deg = d
            elif deg != d:
                return None
        return deg

    # -------------------------------------------------------------- misc
    def __eq__(self, o):
        return isinstance(o, Poly) and self.terms == o.terms

    def __hash__(self):
        return hash(tuple(sorted(self.terms.items())))

    def __repr__(self):
        if not self.terms:
            return "0"
        parts = []
        for m, c in sorted(self.terms.items()):
            s = str(c)
            for a, e in m:
                s += f"*{a}" + (f"^{e}" if e != 1 else "")
            parts.append(s)
        return " + ".join(parts)
