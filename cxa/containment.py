"""Rules IN-1 ... IN-6 shared by C05 (3-D) and C06 (2-D containment)."""

from __future__ import annotations

import ast

from .dimscan import classify_cmp
from .index import AnalysisError, FuncInfo
from .interp import Interp

EXPECTED_DEPS = {
    "Sphere": {"_radius", "_centroid"},
    "Ellipsoid": {"_a", "_b", "_c", "_centroid"},
    "Circle": {"_radius", "_centroid"},
    "Ellipse": {"_a", "_b", "_centroid"},
    "ConvexPolyhedron": {"_equations"},
    "Polyhedron": {"_vertices", "_faces"},
    "ConvexSpheropolyhedron": {"_radius", "_equations", "_vertices", "_faces"},
    "Polygon": {"_vertices", "_normal"},
    "ConvexPolygon": {"_vertices", "_normal"},
}
CURVED = {"Sphere", "Ellipsoid", "Circle", "Ellipse"}
REORDER = {"sort", "unique", "argsort", "lexsort", "flip", "roll", "partition", "shuffle", "permutation"}


def check_class(res, index, cls):
    fn = cls.lookup("is_inside")
    if not isinstance(fn, FuncInfo):
        raise AnalysisError(f"anchor vanished: {cls.name}.is_inside")
    it = Interp(index)
    r = it.run_entry(fn, cls)
    res.evaluations += it.stats["stmts"]
    res.unmodelled |= it.unmodelled
    if not r["returns"]:
        return False  # not implemented for this class (base-class stub raises)
    label = f"{cls.name}.is_inside"
    where = f"{fn.file}:{fn.lineno}"
    ev = r["events"]
    # ---------------------------------------------------------------- IN-1
    raw = [e for e in ev if e.type == "rawuse" and e.param == "points"]
    if raw:
        res.bad("IN-1", label, raw[0].where(), f"{label} uses `points` before np.atleast_2d: a single point of shape (d,) is "
                f"indexed / broadcast as a batch (`{raw[0].src()[:60]}`)")
    else:
        res.ok("IN-1", label)
    # ---------------------------------------------------------------- DTYPE-1 integer query points are documented input
    ints = [e for e in ev if e.type == "int-inplace"]
    if ints:
        e = ints[0]
        res.bad("DTYPE-1", f"{label}:{e.op}:caller-dtype", e.where(), f"{label}: `{e.src()[:60]}` writes floating-point values into an array that has the "
                "dtype of the caller's points (np.asarray / atleast_2d without dtype): integer points such as [[0, 0, 0]] are truncated or numpy "
                "refuses the cast")
    else:
        res.ok("DTYPE-1", label, nontrivial=False)
    # ---------------------------------------------------------------- IN-2 batch axis survives
    bad2 = False
    nred = 0
    for e in ev:
        if e.type == "reduce" and e.target is not None and "batch" in e.target.tags:
            nred += 1
    # an axis-less reduction is harmless while it only feeds control flow; it must not reach a returned value
    for (rv, _s, _n) in r["returns"]:
        for d in sorted(x for x in rv.deps if x[0] == "collapsed"):
            site = [e for e in ev if e.type == "reduce" and f"{e.fn}@{getattr(e.node, 'lineno', 0)}" == d[1]]
            bad2 = True
            res.bad("IN-2", f"{label}:{d[1].split('@')[0]}", site[0].where() if site else where,
                    f"{label}: axis-less {d[1].split('@')[0]}() collapses the batch of points into one value "
                    f"(`{site[0].src()[:60] if site else d[1]}`) that reaches the returned answer; a batch call no longer answers element by element")
    v = r["result"]
    if v is not None and "batch" not in v.tags:
        bad2 = True
        res.bad("IN-2", f"{label}:result", where, f"{label}: the returned value does not carry the batch axis of `points`")
    for e in ev:
        if e.type == "enter":
            continue
    for e in ev:
        if e.type == "reorder" and e.target is not None and "batch" in e.target.tags:
            # a reordering along another axis than the batch axis (e.g. a roll over the vertex axis) is harmless
            from .interp import baxis_of
            ax = e.f.get("axis")
            k = baxis_of(e.target)
            if ax is not None and ax.has_const() and isinstance(ax.const, int):
                if k is not None and ax.const >= 0 and ax.const != k:
                    continue
                if k is None and not (ax.const == 0 and "batch2d" in e.target.tags):
                    continue
            bad2 = True
            res.bad("IN-2", f"{label}:{e.fn}", e.where(), f"{label}: {e.fn}() reorders a batch-carrying array (`{e.src()[:60]}`): "
                    f"answers no longer come in input order")
    for e in ev:
        if e.type == "scatter-dup":
            bad2 = True
            res.bad("IN-2", f"{label}:scatter:{e.target}", e.where(), f"{label}: `{e.src()[:60]}` scatters into positions taken from one component of "
                    f"np.where on a 2-D mask: a point index occurs once per candidate face and the last assignment wins instead of the "
                    f"logical OR over the faces")
    if not bad2:
        res.ok("IN-2", label, sample={"is_inside": label, "batch_reductions": nred})
    # ---------------------------------------------------------------- IN-3 own size state, homogeneous comparisons
    want = EXPECTED_DEPS.get(cls.name)
    got = {a for (o, a) in (v.deps if v is not None else ()) if o.startswith("self")}
    if want is None:
        res.notes.append(f"{label}: no expected state dependence table entry")
    elif not want <= got:
        res.bad("IN-3", f"{label}:deps:{','.join(sorted(want - got))}", where,
                f"{label}: the answer does not depend on {sorted(want - got)} (own size / position state)")
    else:
        res.ok("IN-3", label, sample={"is_inside": label, "depends_on": sorted(got)})
    ncmp = 0
    for e in ev:
        if e.type != "cmp" or e.func is None or not e.func.module.name.startswith("coxeter.shapes"):
            continue
        if not (("batch" in e.left.tags) or ("batch" in e.right.tags)):
            cl0 = classify_cmp(e)
            if not (cl0 and cl0[0] == "inhomogeneous" and e.form == "compare"):
                continue
        ncmp += 1
        cl = classify_cmp(e)
        if cl and cl[0] == "inhomogeneous":
            res.bad("IN-3", f"{label}:inhomogeneous:{cl[1]}:{cl[2]}", e.where(), f"{label}: membership decided by comparing a quantity of length degree {cl[1]} "
                    f"with one of degree {cl[2]} (`{e.src()[:50]}`): the answer changes when shape and points are scaled together")
        elif cl and cl[0] == "in-band":
            res.bad("IN-3", f"{label}:band:k={cl[1]}:c={cl[2]}", e.where(), f"{label}: membership decided against the absolute constant {cl[2]} "
                    f"for a quantity of degree {cl[1]} (`{e.src()[:50]}`)")
    # ---------------------------------------------------------------- IN-4 norm-based for curved solids
    if cls.name in CURVED:
        bad4 = False
        seen = 0
        for e in ev:
            if e.type != "cmp" or e.form != "compare":
                continue
            side = e.left if "batch" in e.left.tags else (e.right if "batch" in e.right.tags else None)
            if side is None:
                continue
            seen += 1
            if "norm" not in side.tags:
                bad4 = True
                res.bad("IN-4", f"{label}:componentwise", e.where(), f"{label} decides membership by a component-wise comparison "
                        f"`{e.src()[:60]}` (a box / quadrant test), not by a norm of the centred, axis-scaled coordinates")
        if seen == 0:
            raise AnalysisError(f"IN-4: {label} decides membership without a comparison the analysis recognises")
        elif not bad4:
            res.ok("IN-4", label)
    return True


def _functions_on_path(events, entry):
    fns = {id(entry.node): entry}
    for e in events:
        if e.type == "enter" and not e.entry:
            fns[id(e.callee.node)] = e.callee
    return list(fns.values())
