"""Alpha-renaming of function-local variables + ast.unparse normalisation (robustness probe of the self-test)."""
import ast
import os
import shutil
import sys


def params_of(fn):
    a = fn.args
    out = [x.arg for x in a.posonlyargs + a.args + a.kwonlyargs]
    if a.vararg:
        out.append(a.vararg.arg)
    if a.kwarg:
        out.append(a.kwarg.arg)
    return out


def rename_function(fn, counter, module_names):
    protected = set()
    stored = set()
    for n in ast.walk(fn):
        if isinstance(n, (ast.FunctionDef, ast.AsyncFunctionDef, ast.Lambda)):
            protected.update(params_of(n))
            if not isinstance(n, ast.Lambda) and n is not fn:
                protected.add(n.name)
        elif isinstance(n, (ast.Global, ast.Nonlocal)):
            protected.update(n.names)
        elif isinstance(n, ast.Name) and isinstance(n.ctx, (ast.Store, ast.Del)):
            stored.add(n.id)
        elif isinstance(n, (ast.Import, ast.ImportFrom)):
            for al in n.names:
                protected.add((al.asname or al.name).split(".")[0])
        elif isinstance(n, ast.ExceptHandler) and n.name:
            protected.add(n.name)
        elif isinstance(n, ast.ClassDef):
            protected.add(n.name)
    todo = sorted(x for x in stored if x not in protected and not x.startswith("__") and x not in module_names)
    mapping = {}
    for x in todo:
        counter[0] += 1
        mapping[x] = f"v{counter[0]}_"
    for n in ast.walk(fn):
        if isinstance(n, ast.Name) and n.id in mapping:
            n.id = mapping[n.id]
    return len(mapping)


def process(src, rename=True):
    tree = ast.parse(src)
    module_names = set()
    for n in tree.body:
        if isinstance(n, (ast.FunctionDef, ast.ClassDef)):
            module_names.add(n.name)
        elif isinstance(n, ast.Assign):
            for t in n.targets:
                for x in ast.walk(t):
                    if isinstance(x, ast.Name):
                        module_names.add(x.id)
        elif isinstance(n, (ast.Import, ast.ImportFrom)):
            for al in n.names:
                module_names.add((al.asname or al.name).split(".")[0])
    counter = [0]
    if rename:
        def outer_functions(body):
            for n in body:
                if isinstance(n, (ast.FunctionDef, ast.AsyncFunctionDef)):
                    yield n
                elif isinstance(n, ast.ClassDef):
                    yield from outer_functions(n.body)
                elif isinstance(n, (ast.If, ast.Try)):
                    yield from outer_functions(n.body)
        for fn in outer_functions(tree.body):
            rename_function(fn, counter, module_names)
    return ast.unparse(tree) + "\n", counter[0]




def write_tree(src_root, dst, rename=True):
    """copy <src_root>/coxeter to <dst>/coxeter with every module transformed; returns the number of renamed locals."""
    if os.path.exists(os.path.join(dst, "coxeter")):
        shutil.rmtree(os.path.join(dst, "coxeter"))
    shutil.copytree(os.path.join(src_root, "coxeter"), os.path.join(dst, "coxeter"), ignore=shutil.ignore_patterns("__pycache__"))
    total = 0
    for dp, dn, fn in os.walk(os.path.join(dst, "coxeter")):
        for f in fn:
            if f.endswith(".py"):
                p = os.path.join(dp, f)
                out, n = process(open(p).read(), rename)
                total += n
                open(p, "w").write(out)
    return total


def private_function_names(src_root):
    """private functions / methods (`_x`, not dunder, not property accessors, not also a data attribute) of the package."""
    names, data = set(), set()
    for dp, dn, fn in os.walk(os.path.join(src_root, "coxeter")):
        for f in fn:
            if f.endswith(".py"):
                tree = ast.parse(open(os.path.join(dp, f)).read())
                for n in ast.walk(tree):
                    if isinstance(n, (ast.FunctionDef, ast.AsyncFunctionDef)) and n.name.startswith("_") and not n.name.startswith("__"):
                        if any(isinstance(d, ast.Name) and d.id in ("property", "cached_property") or
                               isinstance(d, ast.Attribute) and d.attr in ("setter", "getter", "deleter", "cached_property") for d in n.decorator_list):
                            data.add(n.name)
                        else:
                            names.add(n.name)
                    elif isinstance(n, ast.Attribute) and isinstance(n.ctx, ast.Store):
                        data.add(n.attr)
    return sorted(names - data)


def rename_private(src, mapping):
    tree = ast.parse(src)
    for n in ast.walk(tree):
        if isinstance(n, (ast.FunctionDef, ast.AsyncFunctionDef)) and n.name in mapping:
            n.name = mapping[n.name]
        elif isinstance(n, ast.Name) and n.id in mapping:
            n.id = mapping[n.id]
        elif isinstance(n, ast.Attribute) and n.attr in mapping:
            n.attr = mapping[n.attr]
        elif isinstance(n, ast.ImportFrom):
            for al in n.names:
                if al.name in mapping:
                    al.name = mapping[al.name]
                if al.asname in mapping:
                    al.asname = mapping[al.asname]
    return ast.unparse(tree) + "\n"


def write_tree_private(src_root, dst, also_locals=False):
    """copy <src_root>/coxeter to <dst>/coxeter with every private function / method renamed consistently (`_p<i>_`), optionally
    with the function-local variables renamed as well; returns the number of renamed helpers."""
    names = private_function_names(src_root)
    mapping = {n: f"_p{i}_" for i, n in enumerate(names)}
    shutil.copytree(os.path.join(src_root, "coxeter"), os.path.join(dst, "coxeter"), ignore=shutil.ignore_patterns("__pycache__"))
    for dp, dn, fn in os.walk(os.path.join(dst, "coxeter")):
        for f in fn:
            if f.endswith(".py"):
                q = os.path.join(dp, f)
                new = rename_private(open(q).read(), mapping)
                if also_locals:
                    new, _ = process(new, rename=True)
                open(q, "w").write(new)
    return len(mapping)
