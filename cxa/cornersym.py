"""SYM-1: integrands over a simplex are symmetric (or antisymmetric) in the corners of the simplex.

The integral of a polynomial over a triangle / the signed tetrahedron spanned with the origin does not depend on which
corner is called v0, v1 or v2 (it changes sign with the orientation at most).  The closed forms the code uses - Eberly's
f1 = v0 + v1 + v2 and f2 = v0^2 + v0 v1 + v1^2 + v0 v2 + v1 v2 + v2^2, the normal (v1 - v0) x (v2 - v0), the sums
(a + b)^2 + (b + c)^2 + (a + c)^2 - are therefore invariant (or sign-reversing) under every transposition of the corners.
A slip in one product (`v1 * v2` written twice, an index taken from the wrong corner) breaks that symmetry.

The functions are evaluated symbolically: each corner is a vector of three atoms, statements of the straight-line
arithmetic (+ - * / ** constants, np.cross, component subscripts, displays of three components, np.sum / np.dot as
identities or inner products) become polynomials; every value that involves all three corners is tested under the three
transpositions.  Values the evaluator cannot follow are skipped (no verdict).
"""

from __future__ import annotations

import ast
from fractions import Fraction

from .algebra import Poly

AX = "xyz"


class Skip(Exception):
    pass


def _corner(k):
    return ("vec", [Poly.atom(f"P{k}{c}") for c in AX])


def _swap(p: Poly, i, j):
    m = {}
    for c in AX:
        m[f"P{i}{c}"] = Poly.atom(f"P{j}{c}")
        m[f"P{j}{c}"] = Poly.atom(f"P{i}{c}")
    return p.subs(m)


def _corners_of(p: Poly):
    return {a[1] for a in p.atoms() if a.startswith("P") and len(a) == 3 and a[2] in AX}


class _Ev:
    def __init__(self, env):
        self.env = env

    def ev(self, n):
        if isinstance(n, ast.Constant) and isinstance(n.value, (int, float)) and not isinstance(n.value, bool):
            return ("scal", [Poly.const(Fraction(repr(n.value)) if isinstance(n.value, float) else n.value)])
        if isinstance(n, ast.Name):
            if n.id in self.env:
                return self.env[n.id]
            raise Skip()
        if isinstance(n, ast.UnaryOp) and isinstance(n.op, ast.USub):
            k, c = self.ev(n.operand)
            return (k, [Poly.const(0) - x for x in c])
        if isinstance(n, ast.BinOp):
            a, b = self.ev(n.left), self.ev(n.right)
            return self.binop(n.op, a, b)
        if isinstance(n, (ast.List, ast.Tuple)) and len(n.elts) == 3:
            comps = []
            for e in n.elts:
                k, c = self.ev(e)
                if k != "scal":
                    raise Skip()
                comps.append(c[0])
            return ("vec", comps)
        if isinstance(n, ast.Subscript):
            k, c = self.ev(n.value)
            sl = n.slice
            idx = None
            if isinstance(sl, ast.Constant) and isinstance(sl.value, int):
                idx = sl.value
            elif isinstance(sl, ast.Tuple) and len(sl.elts) == 2 and isinstance(sl.elts[0], (ast.Slice, ast.Constant)) \
                    and isinstance(sl.elts[1], ast.Constant) and isinstance(sl.elts[1].value, int) \
                    and (isinstance(sl.elts[0], ast.Slice) or sl.elts[0].value is Ellipsis):
                idx = sl.elts[1].value
            if k == "vec" and idx is not None and 0 <= idx < 3:
                return ("scal", [c[idx]])
            # a trailing new axis / full slice keeps the value
            if all(isinstance(e, ast.Slice) or (isinstance(e, ast.Constant) and e.value is None) for e in (sl.elts if isinstance(sl, ast.Tuple) else [sl])):
                return (k, c)
            raise Skip()
        if isinstance(n, ast.Attribute) and n.attr == "T":
            return self.ev(n.value)                      # (N, 3) -> (3, N): the same three coordinate columns
        if isinstance(n, ast.Call):
            f = ast.unparse(n.func)
            short = f.split(".")[-1]
            if short in ("stack", "column_stack") and n.args and isinstance(n.args[0], (ast.Tuple, ast.List)) and len(n.args[0].elts) == 3:
                return self.ev(n.args[0])                # three per-simplex scalars side by side: a vector
            if short == "cross" and len(n.args) >= 2:
                (ka, a), (kb, b) = self.ev(n.args[0]), self.ev(n.args[1])
                if ka == kb == "vec":
                    return ("vec", [a[1] * b[2] - a[2] * b[1], a[2] * b[0] - a[0] * b[2], a[0] * b[1] - a[1] * b[0]])
                raise Skip()
            if short in ("array", "asarray") and n.args:
                return self.ev(n.args[0])
            if short in ("dot", "inner") and len(n.args) == 2:
                (ka, a), (kb, b) = self.ev(n.args[0]), self.ev(n.args[1])
                if ka == kb == "vec":
                    tot = Poly()
                    for x, y in zip(a, b):
                        tot = tot + x * y
                    return ("scal", [tot])
                raise Skip()
            if short == "sum" and n.args:
                # a sum over the simplices (axis 0 / no axis on a per-simplex scalar): the per-simplex term stands for it
                k, c = self.ev(n.args[0])
                axis = None
                for kw in n.keywords:
                    if kw.arg == "axis":
                        try:
                            axis = ast.literal_eval(kw.value)
                        except Exception:
                            raise Skip()
                if len(n.args) > 1:
                    try:
                        axis = ast.literal_eval(n.args[1])
                    except Exception:
                        raise Skip()
                if k == "vec" and axis in (1, -1):
                    tot = Poly()
                    for x in c:
                        tot = tot + x
                    return ("scal", [tot])
                return (k, c)
            if short in ("square",) and n.args:
                k, c = self.ev(n.args[0])
                return (k, [x * x for x in c])
            raise Skip()
        raise Skip()

    def binop(self, op, a, b):
        (ka, ca), (kb, cb) = a, b
        if ka == "vec" and kb == "vec":
            pairs = list(zip(ca, cb))
            kind = "vec"
        elif ka == "vec":
            pairs = [(x, cb[0]) for x in ca]
            kind = "vec"
        elif kb == "vec":
            pairs = [(ca[0], y) for y in cb]
            kind = "vec"
        else:
            pairs = [(ca[0], cb[0])]
            kind = "scal"
        out = []
        for x, y in pairs:
            if isinstance(op, ast.Add):
                out.append(x + y)
            elif isinstance(op, ast.Sub):
                out.append(x - y)
            elif isinstance(op, ast.Mult):
                out.append(x * y)
            elif isinstance(op, ast.Div):
                c = y.const_value()
                if c is None or c == 0:
                    raise Skip()
                out.append(x * Poly.const(Fraction(1) / c))
            elif isinstance(op, ast.Pow):
                e = y.const_value()
                if e is None or e.denominator != 1 or e < 0 or e > 4:
                    raise Skip()
                r = Poly.const(1)
                for _ in range(int(e)):
                    r = r * x
                out.append(r)
            else:
                raise Skip()
        return (kind, out)


def _find_corner_bindings(fn_node):
    """[(statement that binds the three corners, [name0, name1, name2], enclosing block)]"""
    out = []
    for parent in ast.walk(fn_node):
        for fld in ("body", "orelse"):
            block = getattr(parent, fld, None)
            if not (isinstance(block, list) and block and isinstance(block[0], ast.stmt)):
                continue
            for i, s in enumerate(block):
                if not isinstance(s, ast.Assign) or len(s.targets) != 1:
                    continue
                t = s.targets[0]
                # v0, v1, v2 = triangle           |  v0, v1, v2 = t[:, 0], t[:, 1], t[:, 2]
                if isinstance(t, ast.Tuple) and len(t.elts) == 3 and all(isinstance(e, ast.Name) for e in t.elts):
                    if isinstance(s.value, (ast.Name, ast.Call, ast.Attribute, ast.Subscript)) and not (
                            isinstance(s.value, ast.Call) and isinstance(s.value.func, ast.Attribute) and isinstance(s.value.func.value, ast.Name)
                            and s.value.func.value.id == "self"):
                        # v0, v1, v2 = triangle   |   a, b, c = vertices[simplices].transpose(1, 0, 2)
                        out.append((i, [e.id for e in t.elts], block))
                    elif isinstance(s.value, ast.Tuple) and len(s.value.elts) == 3 and all(_const_sel(v) == k for k, v in enumerate(s.value.elts)) \
                            and len({ast.dump(v.value) for v in s.value.elts}) == 1:
                        out.append((i, [e.id for e in t.elts], block))
                # a = abc[:, 0] ; b = abc[:, 1] ; c = abc[:, 2]   (three consecutive statements)
                if isinstance(t, ast.Name) and _const_sel(s.value) == 0 and i + 2 < len(block):
                    s1, s2 = block[i + 1], block[i + 2]
                    if all(isinstance(x, ast.Assign) and len(x.targets) == 1 and isinstance(x.targets[0], ast.Name) for x in (s1, s2)) \
                            and _const_sel(s1.value) == 1 and _const_sel(s2.value) == 2 \
                            and ast.dump(s.value.value) == ast.dump(s1.value.value) == ast.dump(s2.value.value):
                        out.append((i + 2, [t.id, s1.targets[0].id, s2.targets[0].id], block))
    return out


def _const_sel(v):
    """k for X[:, k] / X[k]"""
    if isinstance(v, ast.Subscript):
        sl = v.slice
        if isinstance(sl, ast.Constant) and isinstance(sl.value, int):
            return sl.value
        if isinstance(sl, ast.Tuple) and len(sl.elts) == 2 and isinstance(sl.elts[0], ast.Slice) and isinstance(sl.elts[1], ast.Constant) \
                and isinstance(sl.elts[1].value, int):
            return sl.elts[1].value
    return None


def _helper_bindings(fn_node, methods):
    """a, b, c[, n ...] = self._helper(): the helper binds the corners itself and returns them (and values computed from them):
    evaluate the helper and bind the returned tuple.  -> [(index of the statement, env, block)]"""
    out = []
    if not methods:
        return out
    for parent in ast.walk(fn_node):
        for fld in ("body", "orelse"):
            block = getattr(parent, fld, None)
            if not (isinstance(block, list) and block and isinstance(block[0], ast.stmt)):
                continue
            for i, s in enumerate(block):
                if not (isinstance(s, ast.Assign) and len(s.targets) == 1 and isinstance(s.targets[0], ast.Tuple)):
                    continue
                call = s.value
                if isinstance(call, ast.Name):
                    # shared = self._helper()  (possibly as the fill of an optional parameter: `if shared is None: shared = ...`),
                    # then  a, b, c, n = shared
                    fills = [x.value for x in ast.walk(fn_node) if isinstance(x, ast.Assign) and len(x.targets) == 1 and isinstance(x.targets[0], ast.Name)
                             and x.targets[0].id == call.id and isinstance(x.value, ast.Call)]
                    call = fills[0] if len(fills) == 1 else None
                if not (isinstance(call, ast.Call) and isinstance(call.func, ast.Attribute) and isinstance(call.func.value, ast.Name)
                        and call.func.value.id == "self" and not call.args and call.func.attr in methods):
                    continue
                h = methods[call.func.attr]
                for (j, names, hblock) in _find_corner_bindings(h):
                    env = {nm: _corner(k) for k, nm in enumerate(names)}
                    ev = _Ev(env)
                    ret = None
                    for hs in hblock[j + 1:]:
                        if isinstance(hs, ast.Assign) and len(hs.targets) == 1 and isinstance(hs.targets[0], ast.Name):
                            try:
                                env[hs.targets[0].id] = ev.ev(hs.value)
                            except Skip:
                                env.pop(hs.targets[0].id, None)
                        elif isinstance(hs, ast.Return) and isinstance(hs.value, ast.Tuple):
                            ret = hs.value
                    if ret is None or len(ret.elts) != len(s.targets[0].elts):
                        continue
                    bound = {}
                    for t, e in zip(s.targets[0].elts, ret.elts):
                        if isinstance(t, ast.Name) and t.id != "_":
                            try:
                                bound[t.id] = ev.ev(e)
                            except Skip:
                                pass
                    if bound:
                        out.append((i, bound, block))
    return out


def check_function(fn_node, methods=None):
    """-> (n_values_checked, [(name, lineno, which transposition, 'asymmetric')])"""
    checked, bad = 0, []
    starts = [(i, {nm: _corner(k) for k, nm in enumerate(names)}, block) for (i, names, block) in _find_corner_bindings(fn_node)]
    starts += _helper_bindings(fn_node, methods)
    for (i, env0, block) in starts:
        env = dict(env0)
        ev = _Ev(env)
        # values bound by a helper are judged as well
        for tname0, val0 in list(env0.items()):
            for c in val0[1]:
                if _corners_of(c) == {"0", "1", "2"}:
                    checked += 1
                    for (a, b) in ((0, 1), (1, 2), (0, 2)):
                        sw = _swap(c, a, b)
                        if sw is not None and not (sw == c or (sw + c).is_zero()):
                            bad.append((tname0, block[i].lineno, (a, b)))
                            break
        for s in block[i + 1:]:
            if isinstance(s, ast.Assign) and len(s.targets) == 1 and isinstance(s.targets[0], ast.Tuple):
                # (ux, uy, uz), (vx, vy, vz) = (b - a).T, (c - a).T   |   x, y, z = v.T : components bound one by one
                def _bind(t_, v_node=None, val_=None):
                    if val_ is None:
                        try:
                            val_ = ev.ev(v_node)
                        except Skip:
                            return
                    if isinstance(t_, ast.Name):
                        env[t_.id] = val_
                    elif isinstance(t_, ast.Tuple) and val_[0] == "vec" and len(t_.elts) == len(val_[1]):
                        for e_, c_ in zip(t_.elts, val_[1]):
                            if isinstance(e_, ast.Name):
                                env[e_.id] = ("scal", [c_])
                tt = s.targets[0]
                if isinstance(s.value, ast.Tuple) and len(s.value.elts) == len(tt.elts):
                    for t_, v_ in zip(tt.elts, s.value.elts):
                        _bind(t_, v_node=v_)
                else:
                    _bind(tt, v_node=s.value)
                continue
            if isinstance(s, ast.Assign) and len(s.targets) == 1 and isinstance(s.targets[0], ast.Name):
                tname = s.targets[0].id
                try:
                    val = ev.ev(s.value)
                except Skip:
                    env.pop(tname, None)
                    continue
                env[tname] = val
            elif isinstance(s, ast.AugAssign) and isinstance(s.target, ast.Name) and isinstance(s.op, (ast.Add, ast.Sub)):
                # accumulation over the simplices: the accumulated term
                try:
                    val = ev.ev(s.value)
                except Skip:
                    continue
                tname = s.target.id
            else:
                continue
            kind, comps = val
            for c in comps:
                if _corners_of(c) != {"0", "1", "2"}:
                    continue
                checked += 1
                for (a, b) in ((0, 1), (1, 2), (0, 2)):
                    sw = _swap(c, a, b)
                    if sw is None:
                        continue
                    if not (sw == c or (sw + c).is_zero()):
                        bad.append((tname, s.lineno, (a, b)))
                        break
                else:
                    continue
                break
    return checked, bad


def report(res, index, targets, rule="SYM-1"):
    """targets: [(class name, member name)]"""
    from .index import FuncInfo
    n = 0
    for cname, member in targets:
        cls = index.cls(cname)
        m = cls.lookup(member)
        fn = m if isinstance(m, FuncInfo) else None
        if fn is None:
            p = index.effective_prop(cls, member)
            fn = p.getter if p is not None else None
        if fn is None or fn.cls is None or fn.cls.name != cname:
            continue
        methods = {}
        for c_ in reversed(cls.mro):
            for name_, m_ in c_.methods.items():
                methods[name_] = m_.node
        checked, bad = check_function(fn.node, methods)
        if not checked and not bad:
            # the corners are bound in a private helper the member calls (self._helper()): judge the helper's values
            for n_ in ast.walk(fn.node):
                if isinstance(n_, ast.Call) and isinstance(n_.func, ast.Attribute) and isinstance(n_.func.value, ast.Name) and n_.func.value.id == "self" \
                        and n_.func.attr in methods and methods[n_.func.attr] is not fn.node:
                    c2, b2 = check_function(methods[n_.func.attr], methods)
                    checked += c2
                    bad += b2
        k = f"{cname}.{member}"
        if bad:
            name, line, (a, b) = bad[0]
            res.bad(rule, f"{k}:corner-asymmetric", f"{fn.file}:{line}", f"{k}: the per-simplex term assigned at line {line} is neither symmetric nor antisymmetric "
                    f"under exchange of corners {a} and {b} of the simplex: the integral over a triangle cannot depend on how its corners are numbered "
                    "(a product is missing or written twice)")
            n += 1
        elif checked:
            res.ok(rule, k, sample={"member": k, "values_checked": checked})
            n += 1
        else:
            res.not_in_fragment.append(f"{rule} {k}: no per-simplex value over all three corners recognised")
    return n
