"""FRAME-3: direction of the normal->z alignment rotation at every site of a polygon member.

`_align_points_by_normal(normal, points)` returns `points . R^T` (each row v' = R v: world -> plane frame) together with
R (FRAME-0, decided under C04).  Inside a member of the polygon classes every further product with that rotation is
typed by the *effective* matrix it applies to the vector operand

    np.dot(R, v), R.dot(v), R @ v, np.dot(v, R.T)   apply R       (forward : world -> plane)
    np.dot(R.T, v), R.T.dot(v), np.dot(v, R)        apply R^T     (inverse : plane -> world)

and by the frame of the vector operand: W = world-frame data (the stored vertices / centroid, differences and copies
of them, the caller's points) or C = a value computed from plane-frame coordinates (anything that depends on the result of a
forward product: a centre found by miniball / lstsq, a centroid of the rotated vertices, ...).  Applying R to a C
value rotates it a second time, applying R^T to W data rotates world coordinates the wrong way: in both cases the
result is right only when R is symmetric (polygons in a coordinate plane, the only ones the suite builds).  Operands
whose frame cannot be established leave the site undecided.
"""

from __future__ import annotations

from .index import FuncInfo, PropInfo
from .interp import Interp


def _direction(e):
    """'fwd' | 'inv' | None and the vector operand of a dotcall event."""
    l, r = e.left, e.right
    if l is not None and "orth" in l.tags and not (r is not None and "orth" in r.tags):
        return ("inv" if "transposed" in l.tags else "fwd"), r
    if r is not None and "orth" in r.tags and not (l is not None and "orth" in l.tags):
        return ("fwd" if "transposed" in r.tags else "inv"), l
    return None, None


def _frame(v):
    from .npmodel import FRAME_DEP
    if v is None:
        return None
    if FRAME_DEP in v.deps:
        return "C"            # computed from coordinates that were rotated into the plane frame
    if "world3" in v.tags:
        return "W"
    if v.pdeps and not any(o not in ("call", "param") for (o, _a) in v.deps):
        return "W"            # the caller's points / a value computed from parameters only
    if any(a in ("_vertices", "_centroid") for (_o, a) in v.deps):
        return "W"            # computed from the stored world coordinates without any rotation
    return None


def check(res, index, cls_name, members, rule="FRAME-3"):
    cls = index.cls(cls_name)
    n = 0
    for member in members:
        m = cls.lookup(member)
        fn = None
        if isinstance(m, PropInfo):
            p = index.effective_prop(cls, member)
            fn = p.getter if p is not None else None
        elif isinstance(m, FuncInfo):
            fn = m
        if fn is None:
            continue
        it = Interp(index)
        r = it.run_entry(fn, cls)
        k = f"{cls_name}.{member}"
        sites = []
        for e in r["events"]:
            if e.type != "dotcall" or e.func is None or e.func.name == "_align_points_by_normal":
                continue
            if not e.func.module.name.rsplit(".", 1)[-1] in ("polygon", "convex_polygon", "convex_spheropolygon"):
                continue        # order-2 tensors are rotated by utils.rotate_order2_tensor (R T R^T): C04 FRAME-1
            d, vec = _direction(e)
            if d is None:
                continue
            sites.append((d, _frame(vec), e))
        if not sites:
            continue
        n += 1
        bad = [(d, f, e) for (d, f, e) in sites if (d == "fwd" and f == "C") or (d == "inv" and f == "W")]
        und = [(d, f, e) for (d, f, e) in sites if f is None]
        if bad:
            d, f, e = bad[0]
            what = ("a value computed in the frame where the normal is z is rotated with the forward rotation once more"
                    if d == "fwd" else "world-frame coordinates are rotated with the inverse of the alignment rotation")
            res.bad(rule, f"{e.func.qualname}:{d}-on-{f}", e.where(), f"{k}: {what} (`{e.src()[:60]}`); right only when the rotation is symmetric, i.e. for "
                    "polygons lying in a coordinate plane")
        elif und:
            res.not_in_fragment.append(f"{rule} {k}: frame of the operand of `{und[0][2].src()[:50]}` not established")
        else:
            res.ok(rule, k, sample={"member": k, "sites": [f"{d} on {f}" for d, f, _ in sites]})
    return n
