"""Findings, known-findings register, evidence files, exit codes."""

from __future__ import annotations

import json
import os
import sys
import time
from dataclasses import dataclass, field
from typing import Any, Dict, List, Optional

from . import VERIF

KNOWN_FILE = os.path.join(VERIF, "known_findings.json")


@dataclass
class Finding:
    rule: str
    key: str          # semantic key: rule-specific tuple rendered as text (never a line number)
    where: str        # file:line (diagnostic only)
    what: str
    detail: Dict[str, Any] = field(default_factory=dict)


CURRENT = [None]     # the Result being built (so that findings made before an AnalysisError are not lost)


def run_property(prop_id, index, tier="quick", seed=0):
    """run one property's check.  An AnalysisError raised after violations were already established does not discard
    them: the violations are reported (exit 1) and the part that could not be analysed is recorded as a note."""
    import importlib
    from .index import AnalysisError
    mod = importlib.import_module(f"cxa.props.{prop_id.lower()}")
    CURRENT[0] = None
    try:
        res = mod.run(index, tier=tier, seed=seed)
        rb = getattr(index, "renamed_back", None)
        if rb:
            # private helpers that were renamed since the confirmed tree and were matched to their reference (cxa/canon.py)
            res.extra["private_helpers_renamed_back"] = {k: v for k, v in sorted(rb.items())}
            res.notes.append(f"{len(rb)} renamed private helper(s) analysed under their reference names: " + ", ".join(f"{k} -> {v}" for k, v in sorted(rb.items())[:12]))
        return res
    except AnalysisError as e:
        cur = CURRENT[0]
        if cur is not None and cur.prop_id == prop_id and cur.findings:
            cur.not_in_fragment.append(f"analysis stopped early: {e}")
            cur.incomplete = str(e)      # callers: violations (if any beyond the known findings) are reported, else exit 2
            return cur
        raise


class Result:
    def __init__(self, prop_id, explanation, register=True):
        if register:
            CURRENT[0] = self
        self.prop_id = prop_id
        self.incomplete = None
        self.decided = {}            # rule -> instance keys decided (ok or violated) on this tree
        self.explanation = explanation
        self.findings: List[Finding] = []
        self._keys = set()
        self.obligations = 0
        self.discharged = 0
        self.evaluations = 0
        self.nontrivial = set()
        self.samples: List[Any] = []
        self.rules: Dict[str, Dict[str, int]] = {}
        self.unmodelled = set()
        self.not_in_fragment: List[str] = []
        self.notes: List[str] = []
        self.assumptions: List[str] = []
        self.trusted_base: List[str] = ["CPython ast (python3-vt 3.11)", "cxa numpy/scipy model table (cxa/npmodel.py)"]
        self.extra: Dict[str, Any] = {}

    # -- bookkeeping ---------------------------------------------------------
    def rule(self, name):
        return self.rules.setdefault(name, {"instances": 0, "discharged": 0, "violations": 0})

    def ok(self, rule, instance, nontrivial=True, sample=None):
        self.decided.setdefault(rule, set()).add(str(instance))
        r = self.rule(rule)
        r["instances"] += 1
        r["discharged"] += 1
        self.obligations += 1
        self.discharged += 1
        if nontrivial:
            self.nontrivial.add(f"{rule}:{instance}")
        if sample is not None and len(self.samples) < 40:
            self.samples.append({"rule": rule, "instance": instance, **(sample if isinstance(sample, dict) else {"info": sample})})

    def bad(self, rule, key, where, what, **detail):
        self.decided.setdefault(rule, set()).add(str(key))
        k = f"{rule}|{key}"
        r = self.rule(rule)
        if k in self._keys:
            return
        self._keys.add(k)
        r["instances"] += 1
        r["violations"] += 1
        self.obligations += 1
        self.nontrivial.add(f"{rule}:{key}")
        self.findings.append(Finding(rule, key, where, what, detail))

    def require(self, rule, minimum):
        """anti-vacuity: a rule that matched fewer instances than confirmed by hand is broken."""
        from .index import AnalysisError
        n = self.rule(rule)["instances"]
        if n < minimum:
            raise AnalysisError(f"rule {rule} matched {n} instances, fewer than the confirmed minimum {minimum} "
                                f"(anchor vanished?)")


def confirmed_lost(prop_id, res):
    """anti-vacuity: every rule that decided something on the confirmed tree must still decide something; a rule whose
    recogniser matches nothing any more is an analysis error (exit 2), never a silent pass.  Returns a message or None."""
    try:
        conf_all = json.load(open(os.path.join(os.path.dirname(os.path.abspath(__file__)), "confirmed_rules.json")))
    except Exception:
        conf_all = {}
    confirmed = conf_all.get(prop_id, [])
    lost = [r_ for r_ in confirmed if res.rules.get(r_, {}).get("instances", 0) == 0]
    # rules with few, structural instances (identities, recognisers): each confirmed instance must still be decided
    for r_, keys_ in conf_all.get("instances", {}).get(prop_id, {}).items():
        gone = sorted(set(keys_) - {k_.split(":unweighted")[0] for k_ in res.decided.get(r_, set())} - res.decided.get(r_, set()))
        # an instance that now carries a finding has a longer key (suffix): compare by prefix
        gone = [g_ for g_ in gone if not any(d_.startswith(g_) for d_ in res.decided.get(r_, set()))]
        if gone and r_ not in lost:
            lost.append(f"{r_}[{'; '.join(gone[:3])}]")
    if lost:
        return (f"rule(s) {lost} decided nothing on this tree (confirmed on the pinned tree): "
                f"{'; '.join(res.not_in_fragment[:3]) or 'construct not recognised'}")
    return None


def load_known():
    if not os.path.exists(KNOWN_FILE):
        return []
    with open(KNOWN_FILE) as f:
        data = json.load(f)
    return data.get("findings", [])


def finish(res: Result, tier: str, seed: int, t0: float, out_dir=None) -> int:
    """print verdict lines, write evidence + replay files, return exit code."""
    known = [k for k in load_known() if k.get("property") == res.prop_id and k.get("status") == "known"]
    known_keys = {f"{k['rule']}|{k['key']}": k for k in known}
    out_dir = out_dir or os.path.join(VERIF, "out", res.prop_id)
    os.makedirs(out_dir, exist_ok=True)
    for fn in os.listdir(out_dir):
        if fn.endswith(".json"):
            try:
                os.remove(os.path.join(out_dir, fn))
            except OSError:
                pass
    violations = 0
    matched = []
    for f in res.findings:
        k = f"{f.rule}|{f.key}"
        if k in known_keys:
            matched.append(k)
            print(f"KNOWN-FINDING: property={res.prop_id} {f.rule} {f.key}: {f.what} [{f.where}]")
            continue
        violations += 1
        path = os.path.join(out_dir, f"{violations}.json")
        with open(path, "w") as fh:
            json.dump({"property": res.prop_id, "rule": f.rule, "key": f.key, "where": f.where, "what": f.what,
                       "detail": _jsonable(f.detail)}, fh, indent=1)
        print(f"  {f.rule} {f.where}: {f.what}   [key {f.key}]")
        print(f"VIOLATION property={res.prop_id} replay={path}")
    stale = [k for k in known_keys if k not in matched]
    for k in stale:
        print(f"NOTE: listed known finding no longer reported: {k}")
    wall = time.time() - t0
    ev = {
        "property_id": res.prop_id,
        "tier": tier,
        "seed": seed,
        "level": "other",
        "coverage": {
            "explanation": res.explanation,
            "obligations": res.obligations,
            "discharged": res.discharged,
            "evaluations": max(res.evaluations, res.obligations),
            "distinct_nontrivial": len(res.nontrivial),
            "rule": "one obligation per (rule, construct) instance enumerated from the AST of /repo's working tree; "
                    "non-trivial = the instance exercised the rule's deciding branch (see explanation); distinct = distinct semantic key",
            "samples": res.samples[:40] if res.samples else [{"note": "no samples recorded"}],
            "exhaustive": True,
            "rules": res.rules,
            "known_findings_matched": matched,
            "unmodelled": sorted(res.unmodelled)[:80],
            "not_in_fragment": res.not_in_fragment[:80],
            "notes": res.notes,
            "checker_cmd": f"python3-vt -m cxa check {res.prop_id} --tier {tier}",
            "trusted_base": res.trusted_base,
            **_jsonable(res.extra),
        },
        "assumptions": res.assumptions or ["unknown (TOP / not-in-fragment / unmodelled callee) never alarms"],
        "wall_s": round(wall, 3),
        "violations": violations,
    }
    evdir = os.path.join(VERIF, "evidence")
    os.makedirs(evdir, exist_ok=True)
    with open(os.path.join(evdir, f"{res.prop_id}.json"), "w") as fh:
        json.dump(ev, fh, indent=1, sort_keys=False)
    status = "holds" if not violations else f"{violations} violation(s)"
    print(f"[{res.prop_id}] {status}: {res.discharged}/{res.obligations} obligations discharged, "
          f"{len(matched)} known finding(s), {len(res.nontrivial)} distinct non-trivial instances, {wall:.2f}s")
    return 1 if violations else 0


def _jsonable(x):
    if isinstance(x, dict):
        return {str(k): _jsonable(v) for k, v in x.items()}
    if isinstance(x, (list, tuple, set, frozenset)):
        return [_jsonable(v) for v in x]
    if isinstance(x, (str, int, float, bool)) or x is None:
        return x
    return str(x)
