"""Model table for library callees (numpy / scipy / rowan / miniball / builtins).

Each entry gives, for the product domain of cxa.values: the dimension transfer (E3), whether the
result may alias an argument (E1), and a few provenance tags.  Unmodelled callees evaluate to
TOP/fresh and are listed in the evidence; they never raise a report.
"""

from __future__ import annotations

import ast
import math
from fractions import Fraction

from .algebra import Poly
from .values import (ANY, COLS, D0, NOCONST, TOP, D, Val, dim_collapse, dim_contract, dim_div, dim_inv,
                     dim_known, dim_mul, dim_pow, dim_unify, join_vals, vconst)

# reductions: the batch axis survives only when an explicit axis is named (decided by the caller of the rule)
REDUCING = {"sum", "mean", "max", "min", "amax", "amin", "all", "any", "norm", "prod", "nansum", "median", "dot", "inner",
            "einsum", "tensordot", "vdot", "det", "trace", "count_nonzero"}

ALIASES = {
    "np": "numpy",
    "numpy.linalg.linalg": "numpy.linalg",
}


def canonical(dotted: str) -> str:
    parts = dotted.split(".")
    if parts[0] == "np":
        parts[0] = "numpy"
    d = ".".join(parts)
    d = d.replace("scipy.constants.constants.", "scipy.constants.")
    if d.startswith("math."):
        # math.* scalar functions behave like their numpy namesakes
        name = d[5:]
        if name in ("cos", "sin", "tan", "sqrt", "pi", "acos", "atan2", "exp", "cbrt"):
            return "numpy." + {"acos": "arccos", "atan2": "arctan2"}.get(name, name)
    return d


def ext_constant(ext: str):
    if ext in ("numpy.pi",):
        v = vconst(math.pi)
        v.sym = Poly.atom("pi")
        v.tags = frozenset(["pi"])
        return v
    if ext in ("numpy.inf",):
        return vconst(float("inf"))
    if ext in ("numpy.newaxis",):
        return vconst(None)
    if ext == "scipy.constants.golden_ratio":
        v = vconst((1 + 5 ** 0.5) / 2)
        v.sym = Poly.atom("phi")
        return v
    if ext in ("numpy.float64", "numpy.complex128", "numpy.int32", "numpy.int64"):
        return Val(kind="dtype", dim=D0)
    return None


# ----------------------------------------------------------------------------- helpers
def _deps(*vals):
    deps = frozenset()
    pdeps = frozenset()
    for v in vals:
        if v is None:
            continue
        deps |= v.deps
        pdeps |= v.pdeps
    return deps, pdeps


def mk(interp, dim, *srcs, kind="arr", **kw):
    deps, pdeps = _deps(*srcs)
    return Val(dim=dim, kind=kind, deps=deps, pdeps=pdeps, born=interp.time, **kw)


def _arg(args, kwargs, i, name=None, default=None):
    if i < len(args):
        return args[i]
    if name and name in kwargs:
        return kwargs[name]
    return default


def _seq_elems(interp, v, st, node):
    """elements of a sequence argument (tuple/list display or homogeneous)."""
    if v.items is not None:
        return list(v.items)
    return [interp.element_of(v, st, node)]


def subscript_dim(dim, idx):
    dim = dim
    if dim[0] != "COLS":
        return dim
    cols, lead = dim[1], dim[2]
    items = idx.items if idx.kind == "indextuple" else (idx,)
    # np.newaxis / None inserts an axis in front of the remaining ones
    nnew = sum(1 for it in items if it.kind == "none")
    if nnew:
        items = tuple(it for it in items if it.kind != "none")
        if not items or all(it.kind == "slice" and it.extra.lower is None and it.extra.upper is None for it in items[:lead]):
            if len(items) <= lead:
                return ("COLS", cols, lead + nnew)
    # consume leading axes
    k = 0
    for it in items:
        if it.has_const() and it.const is Ellipsis:
            # everything up to the column axis is consumed by '...'
            rest = items[k + 1:]
            if rest:
                return _col_select(cols, 0, rest[-1])
            return dim
        if lead > 0:
            if it.kind == "slice" or it.kind in ("idx", "arr", "list", "unknown", "other", "idxlist", "tuple"):
                # axis kept (slice/fancy): still a leading axis; continue to next index on next axis
                k += 1
                lead_kept = True
                # move to next axis
                lead -= 1
                if lead == 0:
                    # next index (if any) addresses the column axis
                    rest = items[k:]
                    if rest:
                        return _col_select(cols, 1, rest[0])
                    return ("COLS", cols, 1)
                continue
            else:
                # integer: axis removed
                k += 1
                lead -= 1
                if lead == 0:
                    rest = items[k:]
                    if rest:
                        return _col_select(cols, 0, rest[0])
                    return ("COLS", cols, 0)
                continue
        else:
            return _col_select(cols, 0, it)
    return ("COLS", cols, lead)


def _col_select(cols, lead, it):
    if any(c is None for c in cols):
        sel = _sel_columns(len(cols), it)
        if sel is None:
            return TOP
        sub = tuple(cols[j] for j in sel)
        if all(c is None for c in sub):
            return ANY
        if None in sub:
            return ("COLS", sub, lead) if it.kind == "slice" else TOP
        if len(set(sub)) == 1:
            return D(sub[0])
        return ("COLS", sub, lead)
    if it.kind == "slice":
        sl = it.extra
        try:
            lo = ast.literal_eval(sl.lower) if sl.lower is not None else None
            hi = ast.literal_eval(sl.upper) if sl.upper is not None else None
            stp = ast.literal_eval(sl.step) if sl.step is not None else None
            sub = cols[slice(lo, hi, stp)]
        except Exception:
            return TOP
        if not sub:
            return TOP
        if len(set(sub)) == 1:
            return D(sub[0])
        return ("COLS", tuple(sub), lead)
    if it.has_const() and isinstance(it.const, int):
        try:
            return D(cols[it.const])
        except IndexError:
            return TOP
    if it.items is not None and all(x.has_const() and isinstance(x.const, int) for x in it.items):
        sub = tuple(cols[x.const] for x in it.items)
        if len(set(sub)) == 1:
            return D(sub[0])
        return ("COLS", sub, lead)
    return TOP


def _sel_columns(width, it):
    """column indices selected by an index item on the last axis (None if not static)."""
    if it.kind == "slice":
        sl = it.extra
        try:
            lo = ast.literal_eval(sl.lower) if sl.lower is not None else None
            hi = ast.literal_eval(sl.upper) if sl.upper is not None else None
            stp = ast.literal_eval(sl.step) if sl.step is not None else None
            return list(range(width))[slice(lo, hi, stp)]
        except Exception:
            return None
    if it.has_const() and isinstance(it.const, int) and not isinstance(it.const, bool):
        return [it.const % width] if -width <= it.const < width else None
    return None


def column_store(cur, idx, v):
    """store `v` into columns of a freshly allocated local array of known width.
    -> (new dim, conflict) or None when the store is not a static column selection."""
    width = None
    if cur.extra and isinstance(cur.extra, tuple) and cur.extra[0] == "alloc":
        width = cur.extra[1]
    if cur.dim[0] == "COLS":
        width = len(cur.dim[1])
    if width is None or idx.kind != "indextuple" or len(idx.items) != 2:
        return None
    sel = _sel_columns(width, idx.items[1])
    if sel is None:
        return None
    if cur.dim[0] == "COLS":
        cols = list(cur.dim[1])
    elif cur.dim == ANY:
        cols = [None] * width
    else:
        d = dim_collapse(cur.dim)
        cols = [d[1] if dim_known(d) else None] * width
    vd = dim_collapse(v.dim)
    conflict = False
    if vd[0] == "COLS":
        if len(vd[1]) != len(sel):
            return None
        for j, c in zip(sel, vd[1]):
            if cols[j] is not None and c is not None and cols[j] != c:
                conflict = True
            cols[j] = c if c is not None else cols[j]
    elif vd == ANY:
        pass
    elif dim_known(vd):
        for j in sel:
            if cols[j] is not None and cols[j] != vd[1]:
                conflict = True
            cols[j] = vd[1]
    else:
        return (TOP, False)
    return (("COLS", tuple(cols), 1), conflict)


FRAME_DEP = ("frame", "rotated")
PLANE_OFFSET_DROPPED = ("plane-offset", "dropped")


def rot_frame(left, right, deps, tags):
    """a product with a rotation matrix (tag 'orth'): the result lives in the rotated frame (pseudo-dependence FRAME_DEP, which
    travels with the data dependences through every later operation) unless the effective matrix is the inverse applied to a
    rotated value, which brings it back (FRAME-3)."""
    lo = left is not None and "orth" in left.tags
    ro = right is not None and "orth" in right.tags
    if not lo and not ro and right is not None and "orth-rows2" in right.tags and left is not None and FRAME_DEP in left.deps:
        # v2 @ R[:2]: the in-plane coordinates of a plane-frame point taken back to the world frame; the coordinate along the
        # normal (the distance of the plane from the origin) is not restored by this product
        return (deps - {FRAME_DEP}) | {PLANE_OFFSET_DROPPED}, tags
    if lo == ro:
        return deps, tags
    mat, vec = (left, right) if lo else (right, left)
    fwd = ("transposed" not in mat.tags) if lo else ("transposed" in mat.tags)
    if fwd:
        return deps | {FRAME_DEP}, tags
    if vec is not None and FRAME_DEP in vec.deps:
        return deps - {FRAME_DEP}, tags | {"world3"}
    return deps, tags


def _rows_concat(name, elems):
    """row count of a concatenation relative to the vertex count: one block with a ('rows-of', attr, k) tag plus blocks of a
    statically known number of rows (list displays; single vectors under vstack)."""
    if name not in ("concatenate", "vstack", "append", "row_stack"):
        return frozenset()
    base = None
    extra = 0
    for e in elems:
        ro = [t for t in e.tags if isinstance(t, tuple) and t and t[0] == "rows-of"]
        if len(ro) == 1 and base is None:
            base = ro[0]
        elif ro:
            return frozenset()
        elif e.kind in ("list", "tuple") and e.items is not None:
            extra += len(e.items) if name != "vstack" or not all(i.kind in ("float", "int") for i in e.items) else 1
        elif e.kind in ("arr", "unknown") and e.deps and all(a == "_normal" for (_o, a) in e.deps if _o != "call"):
            extra += 1            # the normal as one more row (vstack of the vector, or normal[np.newaxis] under concatenate)
        elif e.is_number_const():
            extra += 1
        else:
            return frozenset()
    if base is None:
        return frozenset()
    return frozenset([("rows-of", base[1], base[2] + extra)])


def count_origin(v):
    """provenance of a count (len / shape / size): of the convex hull's output, or of input data (parameter / state array).
    Encoded as ('ret', '<count:..>') so that it travels through comparisons, boolean operators and builtins like the
    other provenance tags."""
    if v is None:
        return frozenset()
    if ("ret", "scipy.spatial.ConvexHull") in v.tags:
        return frozenset([("ret", "<count:hull>")])
    if v.pdeps or v.al or any(o != "call" for (o, _a) in v.deps):
        return frozenset([("ret", "<count:input>")])
    return frozenset()


ROWPERM = ("rowperm", "*")


def _given_order(v):
    """the array holds the caller's rows in the order given: an alias or a plain copy of a parameter / state array, or any
    array computed from the vertex array whose rows were never permuted (sorting, fancy indexing by a permutation and
    np.unique leave the pseudo-dependence ROWPERM, which travels with the data dependences)."""
    if ROWPERM in v.deps:
        return False
    if bool(v.al) or "raw-param" in v.tags or any(isinstance(t, tuple) and t and t[0] == "val-of" for t in v.tags):
        return True
    return v.kind in ("arr", "unknown") and ("vertices" in v.pdeps or any(a == "_vertices" for (_o, a) in v.deps))


# ----------------------------------------------------------------------------- attributes of values
def hull_attr(interp, base, attr):
    k = base.extra  # dimension of the input points (Fraction) and ndim
    pk, nd = k
    t = interp.time
    if attr in ("vertices", "simplices", "neighbors"):
        rt = frozenset([("ret", "scipy.spatial.ConvexHull")])
        return Val(dim=D0, kind="idx", deps=base.deps, pdeps=base.pdeps, born=t,
                   tags=(frozenset(["1d"]) if attr == "vertices" else frozenset()) | rt)
    if attr == "equations":
        cols = tuple([Fraction(0)] * nd + [pk])
        return Val(dim=("COLS", cols, 1), kind="arr", deps=base.deps, born=t, tags=frozenset(["hull"]))
    if attr == "volume":
        return Val(dim=D(pk * nd), kind="float", deps=base.deps, born=t)
    if attr == "area":
        return Val(dim=D(pk * (nd - 1)), kind="float", deps=base.deps, born=t)
    if attr in ("min_bound", "max_bound", "points"):
        return Val(dim=D(pk), kind="arr", deps=base.deps, born=t)
    if attr == "ndim":
        return Val(dim=D0, kind="int", born=t)
    return Val()


VIEW_ATTRS = {"T", "real", "imag", "flat"}


def value_attr(interp, base, attr, st, node):
    if attr in VIEW_ATTRS:
        out = base.copy(items=None, const=NOCONST, sym=None)
        if attr == "T" and "orth" in base.tags:
            out.tags = (base.tags - {"transposed"}) if "transposed" in base.tags else (base.tags | {"transposed"})
        return out
    if attr in ("shape",):
        co = count_origin(base) | frozenset(t_ for t_ in base.tags if isinstance(t_, tuple) and t_ and t_[0] == "ret")
        if base.pdeps:
            co = co | {("len-of", tuple(sorted(base.pdeps)))}        # x.shape is a statement about the size of x, as len(x) is
        el_ = Val(kind="int", dim=D0, deps=base.deps, pdeps=base.pdeps, tags=co)
        items_ = None
        sl_ = shape_last(base)
        if sl_ and sl_[1] == 2:
            # (rows, k) with a statically known number of columns: `n, d = x.shape` binds d to that constant
            items_ = (el_.copy(extra=("len", base), born=interp.time), Val(kind="int", dim=D0, const=sl_[0], born=interp.time))
        elif sl_ and sl_[1] == 1:
            items_ = (Val(kind="int", dim=D0, const=sl_[0], born=interp.time),)
        return Val(kind="tuple", dim=D0, elem=el_, items=items_,
                   deps=base.deps, pdeps=base.pdeps, born=interp.time, tags=co, extra=("shape", base))
    if attr in ("size", "ndim"):
        lo_ = frozenset([("len-of", tuple(sorted(base.pdeps)))]) if base.pdeps else frozenset()
        return Val(kind="int", dim=D0, born=interp.time, pdeps=base.pdeps, tags=(count_origin(base) if attr == "size" else frozenset()) | lo_)
    if attr == "flags":
        return Val(kind="flags", dim=D0)
    if attr == "dtype":
        return Val(kind="dtype", dim=D0)
    if base.kind == "objdict":
        return Val(kind="arrmethod", base=base, name=attr, dim=D0)
    return Val(kind="arrmethod", base=base, name=attr, dim=D0)


# ----------------------------------------------------------------------------- method calls on values
FRESH_KEEP_METHODS = {"copy", "sum", "max", "min", "mean", "round", "astype", "flatten", "cumsum", "conj",
                      "conjugate", "clip", "prod", "nonzero", "std", "tolist", "item", "argmax", "argmin", "argsort"}
VIEW_METHODS = {"reshape", "squeeze", "transpose", "ravel", "view", "swapaxes"}
MUTATING_METHODS = {"append", "pop", "sort", "fill", "update", "insert", "extend", "remove", "clear", "add",
                    "reverse", "setdefault", "resize", "put", "itemset", "discard", "popitem"}


def call_method(interp, base, name, node, args, kwargs, st):
    t = interp.time
    allv = [base] + list(args) + list(kwargs.values())
    deps, pdeps = _deps(*allv)
    # objdict:  self.__dict__.pop('edges', None)
    if base.kind == "objdict":
        if name == "pop" and args and args[0].has_const() and isinstance(args[0].const, str):
            interp.emit(st, "invalidate", node, loc=(base.base.obj.oid, args[0].const))
            return Val()
        if name in ("update", "clear", "setdefault", "__setitem__"):
            interp.emit(st, "write", node, loc=(base.base.obj.oid, "__dict__"), objcls=base.base.obj.cls,
                        mode="inplace", op="call:" + name, sub=None, rhs=args[0] if args else Val(), cur=None, result=None)
        if name == "get" and args and args[0].has_const() and isinstance(args[0].const, str) and base.base is not None and base.base.obj is not None:
            # self.__dict__.get("x"[, default]) reads the instance attribute x (or the default when it is absent)
            v = interp.read_field(base.base, args[0].const, st, node)
            dflt = args[1] if len(args) > 1 else vconst(None)
            return join_vals(v, dflt)
        return Val()
    if name in MUTATING_METHODS and base.kind not in ("str",):
        fnode0 = node.func.value if isinstance(node.func, ast.Attribute) else None
        if isinstance(fnode0, ast.Name) and fnode0.id not in st.env and not interp._in_closure(fnode0.id) and base.kind in ("dict", "list", "set", "other"):
            interp.emit(st, "global-write", node, name=fnode0.id, rhs=args[0] if args else Val())
        if base.al:
            interp.write_inplace(base, "call:" + name, None, args[0] if args else Val(), st, node, cur_val=base)
        # update the local container bound to a plain name
        fnode = node.func.value if isinstance(node.func, ast.Attribute) else None
        if isinstance(fnode, ast.Name) and fnode.id in st.env and name in ("append", "add", "insert", "extend", "update"):
            cur = st.env[fnode.id]
            new = args[-1] if args else Val()
            if name in ("extend", "update") and cur.kind != "dict":
                new = interp.element_of(new, st, node)
            elif name == "update" and cur.kind == "dict":
                mp = dict(cur.mapping) if cur.mapping is not None else None
                if mp is not None and new.mapping is not None:
                    mp.update(new.mapping)
                else:
                    mp = None
                st.env[fnode.id] = cur.copy(mapping=mp, elem=join_vals(cur.elem, new.elem), deps=cur.deps | new.deps)
                return vconst(None)
            if cur.items is not None and len(cur.items) == 0:
                el = new
                tags = new.tags
            else:
                el = join_vals(cur.elem if cur.elem is not None else (interp.element_of(cur, st, node) if cur.items else None), new)
                tags = cur.tags & new.tags
            d, _ = dim_unify(cur.dim, new.dim)
            st.env[fnode.id] = cur.copy(items=None, elem=el, dim=d, deps=cur.deps | new.deps, pdeps=cur.pdeps | new.pdeps,
                                        tags=tags, const=NOCONST)
        if name == "pop":
            return interp.element_of(base, st, node)
        return vconst(None)
    if name in ("dot",):
        other = args[0] if args else Val()
        interp.emit(st, "dotcall", node, left=base, right=other, method=True)
        d = dim_collapse(dim_mul(base.dim, other.dim))
        tags = frozenset([("linmap-of", tuple(sorted(base.al)), other.tags)]) if base.al else frozenset()
        deps2, tags = rot_frame(base, other, deps, tags)
        return Val(dim=d, kind="arr", deps=deps2, pdeps=pdeps, born=t, tags=tags)
    if name in VIEW_METHODS:
        if name == "squeeze":
            interp.emit(st, "squeeze", node, target=base, axis=_arg(args, kwargs, 0, "axis"))
        return base.copy(items=None, const=NOCONST, sym=None, extra=None)
    if name in FRESH_KEEP_METHODS:
        dim = base.dim
        if name in ("argmax", "argmin", "argsort", "nonzero"):
            return Val(dim=D0, kind="idx", deps=deps, pdeps=pdeps, born=t,
                       tags=frozenset(["perm"]) if name == "argsort" else frozenset())
        if name in ("sum", "max", "min", "mean", "prod"):
            ax = _arg(args, kwargs, 0, "axis")
            interp.emit(st, "reduce", node, fn=name, target=base, axis=ax, method=True)
            dim = dim_contract(dim) if ax is None or not (ax.has_const() and ax.const in (0,)) else dim
        if name == "tolist":
            return Val(dim=dim, kind="list", deps=deps, pdeps=pdeps, born=t,
                       tags=frozenset(["tolist"]) | frozenset(t_ for t_ in base.tags if isinstance(t_, tuple) and t_ and t_[0] in ("ret", "len-of")))
        keep = frozenset(tg for tg in base.tags if isinstance(tg, tuple) and tg[0] in ("saved-centroid", "getter-of")) if name in ("copy", "astype") else frozenset()
        if name in ("copy", "astype"):
            keep = keep | frozenset([("val-of", interp.val_id(base))])
        out_ = Val(dim=dim, kind=base.kind if base.kind in ("arr", "idx", "float") else "arr", deps=deps, pdeps=pdeps, born=t, tags=keep)
        if name == "sum" and not args and not kwargs and base.items is not None and 0 < len(base.items) <= 6 \
                and all(i_ is not None and i_.sym is not None and i_.kind in ("float", "int") for i_ in base.items):
            tot_ = base.items[0].sym
            for i_ in base.items[1:]:
                tot_ = tot_ + i_.sym
            out_ = Val(dim=dim, kind="float", deps=deps, pdeps=pdeps, born=t, tags=keep | {("reduced", "sum")}, sym=tot_)   # the sum of a small vector, term by term
        rb_ = ring_of(base)
        if rb_ is not None:
            if name in ("copy", "astype", "round", "clip", "conj", "conjugate"):
                with_ring(out_, rb_)
            elif name in ("sum", "max", "min", "mean", "prod"):
                ax_ = _arg(args, kwargs, 0, "axis")
                if ax_ is not None and ax_.has_const() and ax_.const in (1, -1):
                    with_ring(out_, rb_)
        return out_
    if name == "index" and base.kind in ("list", "tuple") and base.items is not None and args and args[0].has_const() \
            and all(i_ is not None and i_.has_const() for i_ in base.items):
        consts_ = [i_.const for i_ in base.items]
        if args[0].const in consts_:
            return vconst(consts_.index(args[0].const))         # position of a known constant in a known sequence
    if name in ("all", "any"):
        interp.emit(st, "reduce", node, fn=name, target=base, axis=_arg(args, kwargs, 0, "axis"), method=True)
        return Val(dim=D0, kind="bool", deps=deps, pdeps=pdeps, born=t)
    # dict / set / str methods
    if name in ("items",):
        el = base.elem
        if base.mapping is not None:
            for v in base.mapping.values():
                el = join_vals(el, v)
        if el is None:
            el = Val()
        out = Val(kind="list", elem=Val(kind="tuple", items=(Val(kind="str", dim=D0), el), dim=el.dim), dim=el.dim,
                  deps=deps, born=t)
        if base.mapping is not None:
            out.extra = ("items-of", list(base.mapping.items()))
        return out
    if name in ("values",):
        el = base.elem
        if base.mapping is not None:
            for v in base.mapping.values():
                el = join_vals(el, v)
        return Val(kind="list", elem=el if el is not None else Val(), dim=D0, deps=deps, born=t)
    if name in ("keys",):
        return Val(kind="list", elem=Val(kind="str", dim=D0), dim=D0, deps=deps, born=t)
    if name == "get":
        if base.mapping is not None and args and args[0].has_const() and args[0].const in base.mapping:
            return base.mapping[args[0].const]
        if base.mapping is not None and args and args[0].has_const() and isinstance(args[0].const, (str, int)):
            return args[1] if len(args) > 1 else vconst(None)       # a literal table without this key: the default
        r = base.elem
        if len(args) > 1:
            r = join_vals(r, args[1])
        return r if r is not None else Val()
    if name in ("intersection", "union", "difference", "symmetric_difference"):
        return Val(kind="set", elem=interp.element_of(base, st, node), dim=base.dim, deps=deps, born=t)
    if name in ("join", "rstrip", "strip", "lstrip", "format", "lower", "upper", "replace", "encode", "decode", "split"):
        return Val(kind="str", dim=D0, deps=deps, born=t)
    if name in ("write", "close", "text"):
        interp.emit(st, "filewrite", node, args=args)
        return vconst(None)
    if name in ("is_integer",):
        return Val(kind="bool", dim=D0)
    interp.unmodelled.add(f"method .{name}")
    return Val(deps=deps, pdeps=pdeps, born=t)


# ----------------------------------------------------------------------------- external calls
ELEMENTWISE_KEEP = {"abs", "absolute", "negative", "copy", "array", "asarray", "atleast_1d", "atleast_2d", "squeeze",
                    "ascontiguousarray", "roll", "sort", "unique", "flip", "transpose", "real", "imag", "conj",
                    "asanyarray", "nan_to_num", "round", "around", "floor", "ceil", "diag", "tile", "repeat", "ravel",
                    "triu", "tril", "moveaxis", "swapaxes", "expand_dims", "cumsum", "trace"}
MAY_ALIAS = {"asarray", "atleast_1d", "atleast_2d", "squeeze", "ascontiguousarray", "asanyarray", "transpose", "ravel",
             "reshape", "moveaxis", "swapaxes", "expand_dims", "real", "imag", "diag"}
REDUCE_KEEP = {"sum", "mean", "max", "min", "amax", "amin", "nansum", "median", "average", "nanmax", "nanmin", "ptp"}
DIMLESS_ARG = {"sin", "cos", "tan", "exp", "sinc", "arccos", "arcsin", "arctan", "sinh", "cosh", "tanh", "log",
               "log10", "expm1", "log1p"}
ALLOC_ANY = {"zeros", "empty", "zeros_like", "empty_like"}
INDEXY = {"argmax", "argmin", "argsort", "lexsort", "nonzero", "arange", "argwhere", "flatnonzero", "searchsorted",
          "digitize", "indices"}
LOGICAL = {"logical_and", "logical_or", "logical_not", "logical_xor", "isnan", "isfinite", "isinf", "all", "any",
           "array_equal", "isin", "iscomplex", "isreal"}


def _reduce_axis_kw(args, kwargs, pos=1):
    return _arg(args, kwargs, pos, "axis")


def shape_last(v):
    """('shape-last', k, ndim) provenance: the value is an ndim-dimensional array (ndim 1 or 2) whose last axis has the
    statically known size k (coordinate triples, a constraint matrix assembled from blocks of known width)."""
    if v is None:
        return None
    for t_ in v.tags:
        if isinstance(t_, tuple) and t_ and t_[0] == "shape-last":
            return (t_[1], t_[2])
    return None


def broadcast_last(l, r):
    a, b = shape_last(l), shape_last(r)
    if a and b:
        if a[0] == b[0] or 1 in (a[0], b[0]):
            return (max(a[0], b[0]), max(a[1], b[1]))
        return None
    one, other = (a, r) if a else (b, l)
    if one and one[0] > 1 and one[1] == 2:
        return one            # (n, k) with k > 1 against a scalar / column / row of k: the last axis keeps k
    if one and one[0] > 1 and other is not None and other.kind in ("float", "int"):
        return one
    return None


_SL_SAME = {"roll", "array", "asarray", "asanyarray", "copy", "absolute", "abs", "negative", "ascontiguousarray", "flip", "sign",
            "sqrt", "square", "nan_to_num", "asfarray", "float64"}


def _shape_last_of_call(name, args, kwargs):
    a0 = args[0] if args else None
    if name in _SL_SAME:
        return shape_last(a0)
    if name in ("atleast_2d", "atleast_1d"):
        sl = shape_last(a0)
        return sl if (sl and (sl[1] == 2 or name == "atleast_1d")) else None
    if name == "cross" and len(args) >= 2:
        a, b = shape_last(args[0]), shape_last(args[1])
        if (a and a[0] == 3) or (b and b[0] == 3):
            return (3, max((a or (0, 1))[1], (b or (0, 1))[1]))
        return None
    if name in ("add", "subtract", "multiply", "divide", "true_divide") and len(args) >= 2:
        return broadcast_last(args[0], args[1])
    if name in ("ones", "zeros", "empty", "full"):
        shp = a0 if a0 is not None else kwargs.get("shape")
        if shp is None:
            return None
        if shp.items is not None and shp.items and shp.kind in ("tuple", "list"):
            last = shp.items[-1]
            if last.has_const() and isinstance(last.const, int) and not isinstance(last.const, bool) and len(shp.items) <= 2:
                return (last.const, len(shp.items))
            return None
        if shp.has_const() and isinstance(shp.const, int) and not isinstance(shp.const, bool):
            return (shp.const, 1)
        return None
    if name in ("hstack", "column_stack", "vstack", "row_stack", "concatenate"):
        if a0 is None or a0.items is None or not a0.items:
            return None
        sl = [shape_last(e) for e in a0.items]
        if any(x is None for x in sl):
            return None
        ax = kwargs.get("axis", args[1] if len(args) > 1 else None)
        if name == "concatenate":
            if ax is None or (ax.has_const() and ax.const == 0):
                name = "vstack" if all(x[1] == 2 for x in sl) else ("hstack" if all(x[1] == 1 for x in sl) else "")
            elif ax.has_const() and ax.const in (1, -1) and all(x[1] == 2 for x in sl):
                name = "hstack"
            else:
                return None
        if name == "hstack" and len({x[1] for x in sl}) == 1:
            return (sum(x[0] for x in sl), sl[0][1])
        if name == "column_stack":
            return (sum(x[0] if x[1] == 2 else 1 for x in sl), 2)
        if name in ("vstack", "row_stack") and len({x[0] for x in sl}) == 1:
            return (sl[0][0], 2)
        return None
    if name == "append" and len(args) >= 2 and "axis" not in kwargs and len(args) == 2:
        a = shape_last(args[0])
        if not a or a[1] != 1:
            return None
        b = args[1]
        if b.kind in ("float", "int"):
            return (a[0] + 1, 1)
        if b.kind in ("list", "tuple") and b.items is not None and all(i_.kind in ("float", "int") for i_ in b.items):
            return (a[0] + len(b.items), 1)
        bs = shape_last(b)
        if bs and bs[1] == 1:
            return (a[0] + bs[0], 1)
    return None


RING_POISON = "ring?"


def ring_of(v):
    """ring stencil of a value whose rows run over the vertices of a closed cycle: the set of offsets k such that row i depends
    on vertex i + k.  frozenset | RING_POISON (row-aligned but lost) | None (not row-aligned / global)."""
    if v is None:
        return None
    if RING_POISON in v.tags:
        return RING_POISON
    for t_ in v.tags:
        if isinstance(t_, tuple) and t_ and t_[0] == "ring":
            return t_[1]
    if ("rows-of", "_vertices", 0) in v.tags:
        return frozenset([0])
    return None


def ring_union(vals):
    out = None
    for v in vals:
        r = ring_of(v)
        if r == RING_POISON:
            return RING_POISON
        if r is not None:
            out = r if out is None else (out | r)
    return out


def with_ring(v, r):
    if r is None or not isinstance(v, Val) or v.kind not in ("arr", "unknown"):
        return v
    keep = frozenset(t_ for t_ in v.tags if not (isinstance(t_, tuple) and t_ and t_[0] == "ring") and t_ != RING_POISON)
    v.tags = keep | ({RING_POISON} if r == RING_POISON else {("ring", frozenset(r))})
    return v


_RING_ELEMENTWISE = {"add", "subtract", "multiply", "divide", "true_divide", "arccos", "arcsin", "arctan2", "sin", "cos", "tan", "sqrt", "square",
                     "abs", "absolute", "negative", "array", "asarray", "copy", "asanyarray", "maximum", "minimum", "mod", "where", "clip", "power",
                     "hypot", "sign", "nan_to_num", "ascontiguousarray"}
_RING_ROWWISE = {"sum", "nansum", "mean", "max", "min", "amax", "amin", "prod", "any", "all"}


def _ring_of_call(name, mod, args, kwargs):
    a0 = args[0] if args else None
    if mod == "numpy" and name == "roll" and a0 is not None:
        r = ring_of(a0)
        if r is None or r == RING_POISON:
            return r
        k = args[1] if len(args) > 1 else kwargs.get("shift")
        ax = args[2] if len(args) > 2 else kwargs.get("axis")
        if ax is not None and not (ax.has_const() and ax.const == 0):
            return r if (ax.has_const() and ax.const in (1, -1)) else RING_POISON
        if k is None or not k.has_const() or not isinstance(k.const, int):
            return RING_POISON
        return frozenset(o - k.const for o in r)           # roll(x, k)[i] = x[i - k]
    if mod == "numpy" and name in _RING_ELEMENTWISE:
        return ring_union(args)
    if (mod == "numpy" and name in _RING_ROWWISE) or (mod == "numpy.linalg" and name == "norm") or (mod == "numpy" and name in ("cross", "einsum")):
        r = ring_of(a0) if name not in ("cross",) else ring_union(args[:2])
        if r is None:
            return None
        if name == "cross":
            return r
        ax = kwargs.get("axis", args[2] if (name == "norm" and len(args) > 2) else (args[1] if (name != "norm" and len(args) > 1) else None))
        if ax is not None and ax.has_const() and ax.const in (1, -1):
            return r
        return None                                          # reduced over the ring (or over everything): a global quantity
    return None


def call_ext(interp, ext, node, args, kwargs, st):
    out = _call_ext(interp, ext, node, args, kwargs, st)
    cext = canonical(ext)
    if isinstance(out, Val) and out.kind in ("arr", "unknown") and cext in ("numpy.array", "numpy.asarray") and out.items is None and args \
            and args[0].kind in ("list", "tuple") and args[0].items is not None and 0 < len(args[0].items) <= 6 and len(args) == 1 \
            and all(i_ is not None and i_.kind in ("float", "int") and i_.sym is not None for i_ in args[0].items) and set(kwargs) <= {"dtype"}:
        out.items = tuple(args[0].items)            # an array built from a display of scalars: component by component (as np.square([..]))
    if isinstance(out, Val) and cext == "numpy.cross" and len(args) >= 2 and out.kind in ("arr", "unknown") \
            and "world3" in args[0].tags and "world3" in args[1].tags and FRAME_DEP not in out.deps:
        out.tags = out.tags | {"world3"}            # the cross product of two world-frame vectors is a world-frame vector
    if isinstance(out, Val) and cext == "numpy.arange" and len(args) == 1 and not kwargs:
        out.tags = out.tags | {("ringidx", 0)}              # i = 0 .. n-1: the identity index of a cycle of n rows
    if isinstance(out, Val) and cext in ("numpy.mod", "numpy.remainder") and args:
        ri_ = [t_ for t_ in args[0].tags if isinstance(t_, tuple) and t_ and t_[0] == "ringidx"]
        if ri_:
            out.tags = out.tags | {ri_[0]}                      # (i + k) % n: still the index shifted by k, wrapped around
    if isinstance(out, Val) and out.kind in ("arr", "unknown") and cext == "numpy.einsum" and args and args[0].has_const() \
            and isinstance(args[0].const, str) and args[0].const.replace(" ", "") in ("ij,ij->i", "ik,ik->i", "ij,ij", "nd,nd->n"):
        with_ring(out, ring_union(args[1:3]))                    # the row-wise dot product
    if isinstance(out, Val) and out.kind in ("arr", "unknown") and (cext.startswith("numpy.")):
        try:
            m_, _, n_ = cext.rpartition(".")
            with_ring(out, _ring_of_call(n_, m_, args, kwargs))
        except Exception:
            pass
    if cext.startswith("numpy.") and cext.count(".") == 1 and isinstance(out, Val) and out.kind in ("arr", "unknown") and shape_last(out) is None:
        try:
            sl = _shape_last_of_call(cext.rpartition(".")[2], args, kwargs)
        except Exception:
            sl = None
        if sl:
            out.tags = out.tags | {("shape-last", sl[0], sl[1])}
    return out


def _call_ext(interp, ext, node, args, kwargs, st):
    ext = canonical(ext)
    t = interp.time
    allv = list(args) + list(kwargs.values())
    deps, pdeps = _deps(*allv)
    a0 = args[0] if args else None
    mod, _, name = ext.rpartition(".")

    def fresh(dim, kind="arr", **kw):
        return Val(dim=dim, kind=kind, deps=deps, pdeps=pdeps, born=t, **kw)

    # `out=` keyword: in-place write into the named array
    if "out" in kwargs and kwargs["out"].al:
        interp.write_inplace(kwargs["out"], "out=", None, a0 if a0 is not None else Val(), st, node, cur_val=kwargs["out"])

    # ---------------------------------------------------------------- builtins
    if mod == "builtins":
        return _builtin(interp, name, node, args, kwargs, st, fresh, deps, pdeps)

    if ext == "copy.deepcopy" or ext == "copy.copy":
        if a0 is not None and a0.obj is not None:
            interp.newobj += 1
            from .values import ObjRef
            o = ObjRef(a0.obj.cls, f"new#copy{interp.newobj}")
            interp.emit(st, "copyobj", node, new=o.oid, src=a0.obj.oid, cls=a0.obj.cls, shallow=(ext == "copy.copy"))
            if ext == "copy.copy":
                # shallow copy: every attribute not rebound afterwards is shared with the original
                st.comp.setdefault("__shallow", {})[o.oid] = (a0.obj.oid, frozenset())
                return Val(kind="obj", obj=o, dim=TOP, deps=deps, born=t, tags=frozenset(["shallowcopy"]))
            return Val(kind="obj", obj=o, dim=TOP, deps=deps, born=t, tags=frozenset(["deepcopy"]))
        return a0.copy(al=frozenset(), born=t) if a0 is not None else Val()

    if mod in ("numpy", "numpy.linalg", "numpy.random", "scipy.special", "scipy.spatial", "scipy.sparse.csgraph",
               "rowan", "rowan.mapping", "rowan.random", "miniball", "warnings", "os", "os.path", "json", "math",
               "functools", "itertools", "importlib", "xml.etree.ElementTree", "xml.etree", "scipy.constants",
               "collections", "numbers", "abc"):
        pass

    if mod == "numpy":
        if name in ELEMENTWISE_KEEP:
            if a0 is None:
                return fresh(TOP)
            dim = a0.dim
            kind = "arr" if a0.kind not in ("idx", "idxlist") else a0.kind
            if name in ("array", "asarray", "asanyarray") and a0.kind in ("list", "tuple", "gen", "set"):
                # np.array([a, b, c]): unify the elements
                dim = a0.dim
                if a0.items is not None:
                    d = ANY
                    for it in a0.items:
                        d, c = dim_unify(d, it.dim)
                    dim = d
                kind = "arr"
                el = a0.elem if a0.elem is not None else (join_all(a0.items) if a0.items else None)
                if el is not None and el.kind in ("idx", "int") and a0.kind != "set":
                    kind = "idx"
            al = frozenset()
            born = t
            if name in MAY_ALIAS and a0.kind not in ("list", "tuple", "gen", "set", "float", "int"):
                al = a0.al
                born = a0.born if a0.al else t
            tags = frozenset()
            if name == "squeeze":
                interp.emit(st, "squeeze", node, target=a0, axis=_arg(args, kwargs, 1, "axis"))
            if name == "diag":
                interp.emit(st, "diag", node, arg=a0)
            if name in ("sort", "unique"):
                deps = deps | {ROWPERM}
            if name in ("roll", "sort", "unique", "flip"):
                interp.emit(st, "reorder", node, fn=name, target=a0, axis=kwargs.get("axis", args[2] if (name == "roll" and len(args) > 2)
                                                                                  else (args[1] if (name != "roll" and len(args) > 1) else None)))
            if name == "roll":
                sh = _arg(args, kwargs, 1, "shift")
                tags = frozenset([("roll", sh.const if sh is not None and sh.has_const() else None)])
                if _given_order(a0):
                    tags = tags | {("roll-given", tuple(sorted(a0.pdeps)), tuple(sorted(a0.deps)))}
            if name in ("abs", "absolute"):
                tags = frozenset(["abs"])
                interp.emit(st, "abs", node, target=a0)
            if name == "unique":
                tags = frozenset(["unique"])
                if "return_index" in kwargs:
                    u = Val(dim=dim, kind=kind, deps=deps, pdeps=pdeps, born=t)
                    return Val(kind="tuple", items=(u, Val(dim=D0, kind="idx", deps=deps, born=t)), dim=TOP, born=t)
            sym = a0.sym if name in ("abs", "absolute", "array", "asarray", "copy") and a0.kind in ("float", "int") else None
            if sym is None and name in ("array", "asarray") and a0.kind in ("list", "gen") and a0.items is None \
                    and a0.elem is not None and a0.elem.sym is not None and a0.elem.kind in ("float", "int", "arr", "unknown"):
                sym = a0.elem.sym        # array of a comprehension: one representative element (as for loop accumulators)
            if name in ("array", "asarray", "copy", "asanyarray", "atleast_1d", "squeeze"):
                tags = tags | frozenset(tg for tg in a0.tags if isinstance(tg, tuple) and tg[0] in ("saved-centroid", "getter-of"))
            if name in ("array", "asarray", "copy", "asanyarray", "ascontiguousarray"):
                tags = tags | frozenset([("val-of", interp.val_id(a0))])
            if "world3" in a0.tags and name in ("array", "asarray", "copy", "asanyarray", "roll", "atleast_2d", "negative", "flip"):
                tags = tags | frozenset(["world3"])
            if name == "transpose" and "orth" in a0.tags and len(args) == 1 and not kwargs:
                tags = tags | ((a0.tags - {"transposed"}) if "transposed" in a0.tags else (a0.tags | {"transposed"})) & {"orth", "proper", "transposed"}
            elif name in ("array", "asarray", "copy", "asanyarray", "ascontiguousarray") and "orth" in a0.tags:
                tags = tags | (a0.tags & {"orth", "proper", "transposed"})
            if "unit" in a0.tags and name in ("array", "asarray", "copy", "asanyarray", "negative", "squeeze", "atleast_1d"):
                tags = tags | frozenset(["unit"])
            if name in ("array", "asarray", "copy", "asanyarray", "abs", "absolute", "negative"):
                src_o = a0.elem if (a0.elem is not None and a0.kind in ("list", "gen")) else a0
                tags = tags | frozenset(t_ for t_ in src_o.tags if isinstance(t_, tuple) and t_[0] == "order")
            if name in ("array", "asarray", "asanyarray") and "dtype" not in kwargs and len(args) < 2:
                # the dtype is the caller's: integers stay an integer array (in-place float arithmetic then raises)
                els = list(a0.items) if (a0.kind in ("list", "tuple") and a0.items is not None) else [a0]
                if els and all(("raw-param" in e.tags) or (e.is_number_const() and isinstance(e.const, int)) for e in els) \
                        and any("raw-param" in e.tags for e in els):
                    tags = tags | frozenset(["maybe-int"])
            elif name in ("copy", "atleast_1d", "atleast_2d", "squeeze", "ascontiguousarray") and "maybe-int" in a0.tags:
                tags = tags | frozenset(["maybe-int"])
            elif name in ("atleast_1d", "atleast_2d") and "raw-param" in a0.tags and "dtype" not in kwargs:
                tags = tags | frozenset(["maybe-int"])
            return Val(dim=dim, kind=kind, al=al, deps=deps, pdeps=pdeps, born=born, tags=tags,
                       guardp=a0.guardp if name in ("asarray", "array", "copy", "squeeze", "atleast_1d") else frozenset(),
                       sym=sym, items=None)
        if name in REDUCE_KEEP:
            if a0 is None:
                return fresh(TOP)
            ax = _reduce_axis_kw(args, kwargs)
            interp.emit(st, "reduce", node, fn=name, target=a0, axis=ax, method=False)
            src = a0
            if a0.kind in ("list", "tuple", "gen") and a0.items is not None:
                d = ANY
                conflict = False
                for it in a0.items:
                    d, c = dim_unify(d, it.dim)
                    conflict = conflict or c
                dim = TOP if conflict else d
            else:
                dim = a0.dim
            # reducing across columns of heterogeneous columns is not meaningful
            if dim[0] == "COLS":
                axc = ax.const if (ax is not None and ax.has_const()) else None
                if axc in (0,) and dim[2] >= 1:
                    pass
                else:
                    dim = dim_contract(dim)
            kind = "float" if (ax is None and name != "amin") else "arr"
            if ax is not None:
                kind = "arr"
            keep_batch = frozenset(["batch"]) if ("batch" in a0.tags and ax is not None) else frozenset()
            sym = None
            if name == "sum" and ax is None and a0.sym is not None and a0.sym.is_monomial() and len(a0.sym.atoms()) == 1 \
                    and next(iter(a0.sym.atoms())).startswith("norm<") and "norm" in a0.tags:
                sym = Poly.atom("sum<" + next(iter(a0.sym.atoms())) + ">")
            elif name == "sum" and ax is None and a0.sym is not None and a0.kind == "arr" and a0.items is None:
                sym = a0.sym             # sum over the terms of a vectorised expression: the representative term
            rtags = frozenset([("reduced", name)]) | keep_batch
            if ax is not None and ax.has_const() and ax.const in (1, -1) and a0 is not None:
                rtags = rtags | frozenset(t_ for t_ in a0.tags if isinstance(t_, tuple) and t_ and t_[0] == "rows-of")
            if name in ("sum", "nansum") and a0 is not None and "square-of" in a0.tags:
                rtags = rtags | {"sumsq"}          # sum of squares of one vector: a squared length
            if name in ("max", "min", "amax", "amin") and a0 is not None:
                rtags = rtags | (a0.tags & {"sumsq", "norm"})
            return fresh(dim, kind=kind, tags=rtags, sym=sym)
        if name in DIMLESS_ARG:
            if a0 is not None:
                interp.emit(st, "trigcall", node, fn=name, arg=a0)
                d = dim_collapse(a0.dim)
                if dim_known(d) and d[1] != 0:
                    interp.emit(st, "nondimless", node, fn=name, arg=a0)
            tsym = None
            if a0 is not None and a0.sym is not None and a0.kind in ("float", "int"):
                tsym = Poly.atom(f"{name}<{a0.sym!r}>")
            rtags = frozenset()
            if name in ARC_RANGE and a0 is not None:
                # value range of the inverse function in units of pi/2 (range typing of angles, C11 ST-6)
                lo, hi = ARC_RANGE[name]
                if name in ("arcsin", "arctan") and _nonneg(a0):
                    lo = 0
                rtags = frozenset([("range", lo, hi)])
                interp.emit(st, "arc", node, fn=name, arg=a0, result_sym=tsym, range=(lo, hi))
            return fresh(D0, kind=a0.kind if a0 is not None and a0.kind in ("float", "arr") else "arr", sym=tsym, tags=rtags)
        if name in ALLOC_ANY:
            out = fresh(ANY, tags=frozenset(["alloc"]))
            if name in ("zeros", "empty") and a0 is not None and a0.kind in ("int", "float") and a0.items is None:
                out.tags = out.tags | {"alloc1d"}               # np.empty(n): a vector
            if name.endswith("_like") and a0 is not None and "maybe-int" in a0.tags and "dtype" not in kwargs:
                out.tags = out.tags | {"maybe-int"}          # the buffer inherits the (caller's) dtype of its prototype
            if a0 is not None and a0.items is not None and a0.items and a0.items[-1].has_const() \
                    and isinstance(a0.items[-1].const, int) and len(a0.items) == 2:
                out.extra = ("alloc", a0.items[-1].const)
            return out
        if name in ("ones", "eye", "identity", "ones_like"):
            return fresh(D0, tags=frozenset(["ones"]))
        if name in ("full", "full_like"):
            v = _arg(args, kwargs, 1, "fill_value", Val())
            if name == "full_like" and a0 is not None and "dtype" not in kwargs and ("maybe-int" in a0.tags or "raw-param" in a0.tags) \
                    and not v.is_number_const() and dim_known(dim_collapse(v.dim)) and dim_collapse(v.dim)[1] != 0:
                # a buffer with the caller's dtype filled with a length: integer prototypes truncate the fill value
                interp.emit(st, "int-inplace", node, op="full_like", rhs=v, target="<full_like>", cur=a0)
            if v.is_number_const() and (v.const == 0 or v.const != v.const or v.const in (float("inf"), float("-inf"))):
                # filled with 0 / inf / nan: a placeholder of any dimension, columns typed by what is stored later
                out = fresh(ANY, tags=frozenset(["alloc"]))
                if name == "full" and a0 is not None and a0.items is not None and len(a0.items) == 2 and a0.items[-1].has_const() \
                        and isinstance(a0.items[-1].const, int):
                    out.extra = ("alloc", a0.items[-1].const)
                return out
            return fresh(v.dim)
        if name in ("linspace",):
            d, c = dim_unify(args[0].dim if args else ANY, args[1].dim if len(args) > 1 else ANY)
            return fresh(d if d != ANY else D0)
        if name in INDEXY:
            if name in ("argsort", "lexsort") and a0 is not None:
                interp.emit(st, "reorder", node, fn=name, target=a0, axis=kwargs.get("axis"))
            tags = frozenset(["perm"]) if name in ("argsort", "lexsort") else frozenset()
            one_d = name in ("lexsort", "flatnonzero", "arange") or (name in ("argmax", "argmin") and _reduce_axis_kw(args, kwargs) is not None)
            return fresh(D0, kind="idx", tags=tags | (frozenset(["1d"]) if one_d else frozenset()) | frozenset([("index-from", name)]))
        if name in LOGICAL:
            if name in ("all", "any"):
                interp.emit(st, "reduce", node, fn=name, target=a0, axis=_reduce_axis_kw(args, kwargs), method=False)
            k = "bool" if (name in ("all", "any") and _reduce_axis_kw(args, kwargs) is None) else "arr"
            out = fresh(D0, kind=k)
            if a0 is not None and "batch" in a0.tags and (name not in ("all", "any") or _reduce_axis_kw(args, kwargs) is not None):
                out.tags = out.tags | {"batch"}
            out.extra = ("logical", name, list(args))
            return out
        if name in ("isclose", "allclose"):
            b = args[1] if len(args) > 1 else Val()
            kw = {}
            if len(args) > 2:
                kw["rtol"] = args[2]
            if len(args) > 3:
                kw["atol"] = args[3]
            kw.update({k: v for k, v in kwargs.items() if k in ("rtol", "atol")})
            interp.emit(st, "cmp", node, op=name, left=a0, right=b, form=name, kw=kw)
            out = fresh(D0, kind="bool" if name == "allclose" else "arr")
            out.extra = ("isclose", name, a0, b)
            return out
        if name in ("dot", "inner", "matmul", "outer", "multiply", "cross", "tensordot", "kron", "vdot"):
            b = args[1] if len(args) > 1 else Val()
            if name in ("dot", "matmul"):
                interp.emit(st, "dotcall", node, left=a0, right=b, method=False)
            d = dim_mul(a0.dim if a0 is not None else TOP, b.dim)
            if name not in ("multiply", "cross", "outer"):
                d = dim_collapse(d)
                if d[0] == "COLS":
                    d = TOP
            tags = frozenset()
            if name in ("dot", "matmul") and a0 is not None and a0.al:
                tags = frozenset([("linmap-of", tuple(sorted(a0.al)), b.tags)])
            if name == "cross":
                tags = frozenset(["cross"])
            if a0 is not None:
                ch_l = {(t_[1], t_[2]) for t_ in a0.tags if isinstance(t_, tuple) and t_ and t_[0] == "chain"}
                ch_r = {(t_[1], t_[2]) for t_ in b.tags if isinstance(t_, tuple) and t_ and t_[0] == "chain"}
                if any((i_, "tail" if w_ == "head" else "head") in ch_r for (i_, w_) in ch_l):
                    tags = tags | {("ret", "<open-chain>")}
            if a0 is not None and "maybe-int" in a0.tags and "maybe-int" in b.tags:
                tags = tags | {"maybe-int"}      # integer (x) integer stays integer
            sym = a0.sym * b.sym if (name in ("multiply", "dot") and a0 is not None and a0.sym is not None and b.sym is not None) else None
            if (a0 is not None and "batch" in a0.tags) or "batch" in b.tags:
                tags = tags | {"batch"}
            out = fresh(d, tags=tags, sym=sym, kind="float" if sym is not None else "arr")
            if name in ("dot", "matmul"):
                out.deps, out.tags = rot_frame(a0, b, out.deps, out.tags)
            return out
        if name in ("divide", "true_divide"):
            b = args[1] if len(args) > 1 else Val()
            return fresh(dim_div(a0.dim, b.dim))
        if name in ("add", "subtract", "maximum", "minimum", "hypot", "fmax", "fmin", "mod", "fmod", "remainder"):
            b = args[1] if len(args) > 1 else Val()
            d = interp._unify_additive(a0, b, st, node, name)
            tags = frozenset(["mod2pi"]) if name in ("mod", "remainder", "fmod") and _is_2pi(b) else frozenset()
            if name in ("add", "subtract", "mod", "fmod", "remainder") and ("polar-angle" in a0.tags or (name in ("add", "subtract") and "polar-angle" in b.tags)):
                tags = tags | {"polar-angle"}            # a shifted / wrapped polar angle is still one
            out = fresh(d, tags=tags, kind=a0.kind if a0.kind in ("float", "int") and b.kind in ("float", "int") else "arr")
            if name in ("maximum", "minimum", "fmax", "fmin"):
                cs = [c for c in (a0, b) if c.is_number_const()]
                vs = [c for c in (a0, b) if not c.is_number_const()]
                if len(cs) == 1 and len(vs) == 1:
                    if vs[0].sym is not None and vs[0].kind in ("float", "int"):
                        out.sym = Poly.atom(f"{name[-3:]}<{cs[0].const!r};{vs[0].sym!r}>")
                    if _nonneg(vs[0]) and (name in ("maximum", "fmax") or cs[0].const >= 0):
                        out.tags = out.tags | {"nonneg"}
            return out
        if name in ("einsum",):
            ops = [a for a in args if a.kind != "str"]
            d = D0
            for o in ops:
                d = dim_mul(d, o.dim if o.dim != ANY else D0)
            d = dim_collapse(d)
            if d[0] == "COLS":
                d = TOP
            interp.emit(st, "einsum", node, spec=args[0].const if args and args[0].has_const() else None, operands=ops)
            return fresh(d)
        if name in ("sqrt", "cbrt", "square"):
            e = {"sqrt": Fraction(1, 2), "cbrt": Fraction(1, 3), "square": 2}[name]
            if a0 is not None and a0.items is not None and 0 < len(a0.items) <= 6 and all(i_.kind in ("float", "int") for i_ in a0.items):
                # a display of scalars: component by component (closed-form rules see each entry)
                its = tuple(Val(dim=dim_pow(i_.dim, e), kind="float", deps=i_.deps, pdeps=i_.pdeps, born=t,
                                sym=i_.sym.pow(e) if i_.sym is not None else None) for i_ in a0.items)
                return fresh(dim_pow(a0.dim, e), kind="arr", items=its)
            sym = a0.sym.pow(e) if (a0 is not None and a0.sym is not None) else None
            return fresh(dim_pow(a0.dim, e) if a0 is not None else TOP, sym=sym,
                         guardp=a0.guardp if name != "square" else frozenset(),
                         tags=frozenset(["norm"]) if (name == "sqrt" and a0 is not None and "sumsq" in a0.tags) else (
                             frozenset(["square-of"]) if (name == "square" and a0 is not None and a0.kind in ("arr", "unknown")) else frozenset()),
                         kind=a0.kind if a0 is not None and a0.kind in ("float",) else ("float" if sym is not None else "arr"))
        if name in ("power", "float_power"):
            b = args[1] if len(args) > 1 else Val()
            if b.is_number_const():
                return fresh(dim_pow(a0.dim, Fraction(repr(b.const)) if isinstance(b.const, float) else b.const))
            return fresh(TOP)
        if name in ("sign",):
            return fresh(D0, tags=frozenset(["sign"]))
        if name in ("arctan2",):
            b = args[1] if len(args) > 1 else Val()
            d, c = dim_unify(a0.dim, b.dim)
            if c:
                interp.dimconflict(st, node, a0, b, "arctan2")
            tsym = None
            if a0.sym is not None and b.sym is not None and a0.kind in ("float", "int") and b.kind in ("float", "int"):
                tsym = Poly.atom(f"arctan2<{a0.sym!r};{b.sym!r}>")
            rng = (0 if _nonneg(a0) else -2, 2)
            interp.emit(st, "arc", node, fn=name, arg=a0, result_sym=tsym, range=rng)
            return fresh(D0, sym=tsym, kind="float" if tsym is not None else "arr", tags=frozenset([("range",) + rng, "polar-angle"]))
        if name in ("where",):
            if len(args) == 1:
                return Val(kind="tuple", elem=Val(dim=D0, kind="idx", deps=deps, born=t, tags=frozenset(["1d", "where-index"])), dim=D0,
                           deps=deps, pdeps=pdeps, born=t, tags=frozenset(["where"]))
            b, c = args[1], args[2] if len(args) > 2 else Val()
            d = interp._unify_additive(b, c, st, node, "where")
            return fresh(d, tags=b.tags & c.tags)
        if name in ("concatenate", "vstack", "hstack", "stack", "column_stack", "append", "block", "dstack"):
            if name == "append":
                elems = list(args[:2])
            else:
                elems = _seq_elems(interp, a0, st, node) if a0 is not None else []
            # np.concatenate((x[k:], x[:k])): the rows of x rotated by k - the same value as np.roll(x, -k, axis=0)
            if name in ("concatenate", "vstack") and len(elems) == 2 and (len(args) == 1 or (len(args) == 2 and args[1].has_const() and args[1].const == 0)) \
                    and (not kwargs or (set(kwargs) == {"axis"} and kwargs["axis"].has_const() and kwargs["axis"].const == 0)):
                rs = [[t_ for t_ in e.tags if isinstance(t_, tuple) and t_ and t_[0] == "rowslice"] for e in elems]
                if all(len(r_) == 1 for r_ in rs) and rs[0][0][1] == rs[1][0][1]:
                    (_, bid, lo1, hi1), (_, _b, lo2, hi2) = rs[0][0], rs[1][0]
                    base_ = getattr(interp, "_slice_bases", {}).get(bid)
                    if base_ is not None and hi1 is None and lo2 is None and isinstance(lo1, int) and lo1 == hi2 and lo1 != 0:
                        return call_ext(interp, "numpy.roll", node, [base_, vconst(-lo1)], {"axis": vconst(0)}, st)
            if name in ("column_stack", "hstack") and elems:
                # blocks of statically known width side by side: a table typed column by column (plane equations: three
                # dimensionless normal components and an offset that is a length)
                cols = []
                for e in elems:
                    sl_ = shape_last(e)
                    ed = dim_collapse(e.dim) if e.dim[0] != "COLS" else e.dim
                    if sl_ and sl_[1] == 2:
                        if e.dim[0] == "COLS" and len(e.dim[1]) == sl_[0]:
                            cols += list(e.dim[1])
                        elif dim_known(dim_collapse(e.dim)):
                            cols += [dim_collapse(e.dim)[1]] * sl_[0]
                        else:
                            cols = None
                    elif name == "column_stack" and ("alloc1d" in e.tags or (sl_ and sl_[1] == 1) or "norm" in e.tags or ("reduced", "sum") in e.tags) \
                            and dim_known(dim_collapse(e.dim)):
                        cols += [dim_collapse(e.dim)[1]]
                    else:
                        cols = None
                    if cols is None:
                        break
                if cols and len(set(cols)) > 1:
                    return fresh(("COLS", tuple(cols), 1), tags=frozenset(["concat", ("shape-last", len(cols), 2)]))
            d = ANY
            conflict = False
            for e in elems:
                ed = e.dim
                if e.kind in ("list", "tuple") and e.items is not None:
                    ed = ANY
                    for it in e.items:
                        ed, _ = dim_unify(ed, it.dim)
                d, c = dim_unify(d, ed)
                conflict = conflict or c
            if conflict:
                # heterogeneous stacking (e.g. an in-plane constraint row appended to a coordinate block):
                # keep the dimension of the first block, never a report
                d = TOP
                for e in ([] if name in ("column_stack", "hstack") else elems):      # (side by side: columns of different kinds, no common degree)
                    ed = dim_collapse(e.dim)
                    if e.kind in ("list", "tuple") and e.items is not None:
                        ed = ANY
                        for it in e.items:
                            ed, _ = dim_unify(ed, it.dim)
                    if dim_known(ed):
                        d = ed
                        break
                return fresh(d, tags=frozenset(["concat", "hetero"]) | _rows_concat(name, elems))
            return fresh(d, tags=frozenset(["concat"]) | _rows_concat(name, elems))
        if name == "resize" and a0 is not None:
            # np.resize(a, n) fills the new length by repeating `a` cyclically: a padded vertex cycle walks its first corners
            # again (pseudo-dependence, travels with the data dependences)
            out = fresh(a0.dim, kind=a0.kind if a0.kind in ("idx", "idxlist", "arr") else "arr")
            out.deps = out.deps | {("cyclic-pad", f"resize@{getattr(node, 'lineno', 0)}")}
            return out
        if name in ("take_along_axis", "take", "compress", "delete", "choose", "select", "insert"):
            tags = frozenset()
            idx = args[1] if len(args) > 1 else Val()
            if name == "take_along_axis" and a0 is not None and a0.al:
                tags = frozenset([("reorder-of", tuple(sorted(a0.al)), tuple(sorted(idx.deps)))])
            return fresh(a0.dim if a0 is not None else TOP, kind=a0.kind if a0 is not None else "arr", tags=tags)
        if name in ("reshape",):
            return a0.copy(items=None, const=NOCONST) if a0 is not None else Val()
        if name in ("shape", "ndim", "size"):
            return fresh(D0, kind="tuple" if name == "shape" else "int")
        if name in ("meshgrid", "broadcast_arrays", "atleast_3d"):
            return fresh(a0.dim if a0 is not None else TOP)
        if name in ("diff", "ediff1d"):
            out = fresh(a0.dim)
            if name == "diff" and _given_order(a0):
                out.tags = out.tags | {("ret", "<neighbour-diff>")}
            return out
        if name in ("clip",):
            out = fresh(a0.dim, kind=a0.kind if a0.kind in ("float", "arr") else "arr")
            lo_ = _arg(args, kwargs, 1, "a_min")
            if a0.sym is not None and a0.kind in ("float", "int"):
                out.sym = Poly.atom(f"clip<{a0.sym!r}>")
            if _nonneg(a0) or (lo_ is not None and lo_.is_number_const() and lo_.const >= 0):
                out.tags = out.tags | {"nonneg"}
            return out
        if name in ("deg2rad", "rad2deg", "radians", "degrees", "angle"):
            return fresh(D0)
        if name in ("allclose",):
            return fresh(D0, kind="bool")
        if name in ("prod", "cumprod"):
            return fresh(TOP)

    if mod == "numpy.linalg":
        if name == "norm":
            ax = _arg(args, kwargs, 2, "axis")
            interp.emit(st, "reduce", node, fn="norm", target=a0, axis=ax, method=False)
            d = dim_contract(a0.dim)
            sym = None
            if a0.deps:
                sym = _opaque("norm", a0)
            nt = frozenset(["norm"]) | (frozenset(["batch"]) if ("batch" in a0.tags and ax is not None) else frozenset())
            return fresh(d, kind="float" if ax is None else "arr", tags=nt, sym=sym)
        if name == "det":
            d = dim_collapse(a0.dim)
            interp.emit(st, "det", node, target=a0)
            out = fresh(dim_pow(d, 3) if dim_known(d) else d, tags=frozenset(["det"]))
            out.extra = ("det-of", a0)
            return out
        if name == "inv":
            return fresh(dim_inv(dim_collapse(a0.dim)))
        if name == "lstsq":
            b = args[1] if len(args) > 1 else Val()
            ad, bd = dim_collapse(a0.dim), dim_collapse(b.dim)
            x = fresh(dim_div(bd, ad) if (dim_known(ad) and dim_known(bd)) else TOP, tags=frozenset(["lstsq-x"]))
            res = fresh(dim_pow(bd, 2) if dim_known(bd) else TOP, tags=frozenset(["lstsq-resid"]))
            return Val(kind="tuple", items=(x, res, fresh(D0, kind="int"), fresh(ad)), dim=TOP, deps=deps, born=t)
        if name == "solve":
            b = args[1] if len(args) > 1 else Val()
            return fresh(dim_div(dim_collapse(b.dim), dim_collapse(a0.dim)))
        if name in ("eigh", "eig"):
            vals = fresh(a0.dim)
            vecs = fresh(D0, tags=frozenset(["eigvecs"]))
            vecs.extra = ("eigvecs", node)
            return Val(kind="tuple", items=(vals, vecs), dim=TOP, deps=deps, born=t)
        if name in ("eigvalsh", "eigvals", "svd"):
            return fresh(a0.dim)
        if name == "matrix_rank":
            return fresh(D0, kind="int")

    if mod == "scipy.special":
        if name in ("ellipe", "ellipk", "ellipeinc", "ellipkinc"):
            for a in args:
                d = dim_collapse(a.dim)
                if dim_known(d) and d[1] != 0:
                    interp.emit(st, "nondimless", node, fn=name, arg=a)
            return fresh(D0, kind="float", sym=_opaque_call(name, args))
    if ext == "scipy.spatial.ConvexHull":
        d = dim_collapse(a0.dim) if a0 is not None else TOP
        pk = d[1] if dim_known(d) else None
        nd = 3
        # 2-D hull when the argument is a two-column slice
        if isinstance(node.args[0], ast.Subscript):
            try:
                s = ast.unparse(node.args[0].slice)
                if s.replace(" ", "").endswith(":2"):
                    nd = 2
            except Exception:
                pass
        if pk is None:
            return Val(kind="hull", extra=(Fraction(0), nd), deps=deps, pdeps=pdeps, born=t, dim=TOP, tags=frozenset(["unknown-dim"]))
        return Val(kind="hull", extra=(pk, nd), deps=deps, pdeps=pdeps, born=t, dim=TOP)
    if ext == "scipy.sparse.csgraph.connected_components":
        return Val(kind="tuple", items=(fresh(D0, kind="int"), fresh(D0, kind="idx", tags=frozenset(["1d"]))), dim=D0, born=t)
    if mod in ("rowan.mapping",) and name == "kabsch":
        rot = fresh(D0, tags=frozenset(["orth", "proper"]))
        return Val(kind="tuple", items=(rot, fresh(TOP)), dim=TOP, deps=deps, born=t)
    if mod == "rowan":
        if name == "rotate":
            v = args[1] if len(args) > 1 else Val()
            return fresh(v.dim)
        if name in ("conjugate", "inverse", "normalize", "multiply", "from_matrix", "to_matrix"):
            return fresh(D0)
    if mod == "rowan.random":
        interp.emit(st, "random", node)
        return fresh(D0)
    if ext == "miniball.get_bounding_ball":
        d = dim_collapse(a0.dim)
        return Val(kind="tuple", items=(fresh(d), fresh(dim_pow(d, 2), kind="float")), dim=TOP, deps=deps, born=t)
    if mod == "warnings":
        return vconst(None)
    if mod in ("os", "os.path", "json", "importlib", "functools", "itertools"):
        if ext == "itertools.chain":
            el = None
            for a in args:
                el = join_vals(el, interp.element_of(a, st, node))
            return Val(kind="gen", elem=el, dim=el.dim if el else TOP, deps=deps, born=t)
        return fresh(D0, kind="other")
    if mod.startswith("xml.etree"):
        interp.emit(st, "xml", node, fn=name, args=args, kwargs=kwargs)
        return fresh(D0, kind="xml")
    interp.unmodelled.add(ext)
    return fresh(TOP, kind="unknown")


def join_all(items):
    r = None
    for i in items or ():
        r = join_vals(r, i)
    return r


ARC_RANGE = {"arccos": (0, 2), "arcsin": (-1, 1), "arctan": (-1, 1)}     # units of pi/2


def _nonneg(v):
    """the value is known to be >= 0 (a norm, an absolute value, a clamp of one of those)."""
    return bool(v.tags & {"norm", "abs", "nonneg"}) or (v.is_number_const() and v.const >= 0)


def _is_2pi(v):
    if v.is_number_const():
        return abs(v.const - 2 * math.pi) < 1e-12
    return False


def _opaque(fn, v):
    key = ",".join(sorted(f"{o}.{a}" for o, a in v.deps if o != "call")) or "?"
    return Poly.atom(f"{fn}<{key}>")


def _opaque_call(fn, args):
    parts = []
    for a in args:
        parts.append(repr(a.sym) if a.sym is not None else ",".join(sorted(f"{o}.{x}" for o, x in a.deps if o != "call")))
    return Poly.atom(f"{fn}<{';'.join(parts)}>")


def _builtin(interp, name, node, args, kwargs, st, fresh, deps, pdeps):
    t = interp.time
    a0 = args[0] if args else None
    if name == "len":
        tg = frozenset([("len-of", tuple(sorted(a0.pdeps)))]) if a0 is not None and a0.pdeps else frozenset()
        tg = tg | count_origin(a0)
        return Val(dim=D0, kind="int", deps=deps, pdeps=pdeps, born=t, extra=("len", a0), tags=tg)
    if name == "range":
        return Val(kind="list", elem=Val(dim=D0, kind="int", born=t, deps=deps), dim=D0, deps=deps, born=t, tags=frozenset(["range"]))
    if name == "enumerate":
        el = interp.element_of(a0, st, node)
        return Val(kind="list", elem=Val(kind="tuple", items=(Val(dim=D0, kind="int", born=t), el), dim=el.dim, deps=el.deps),
                   dim=el.dim, deps=deps, born=t)
    if name == "zip":
        els = tuple(interp.element_of(a, st, node) for a in args)
        if "starargs" in getattr(node, "_dummy", ()):  # pragma: no cover
            pass
        e = Val(kind="tuple", items=els, dim=TOP, deps=deps, born=t)
        return Val(kind="list", elem=e, dim=TOP, deps=deps, born=t)
    if name in ("sorted", "list", "tuple", "set", "reversed", "iter", "frozenset", "filter"):
        if a0 is None:
            return Val(kind="list" if name != "set" else "set", items=(), dim=ANY, born=t)
        src = a0 if name != "filter" else args[1]
        el = interp.element_of(src, st, node)
        kind = {"sorted": "list", "list": "list", "tuple": "tuple", "set": "set", "reversed": "list", "iter": "gen",
                "frozenset": "set", "filter": "list"}[name]
        items = None
        if name in ("list", "tuple") and src.items is not None:
            items = src.items
        tags = frozenset(["sorted"]) if name == "sorted" else frozenset()
        if name == "sorted" and src.items is not None:
            tags = tags | {("sorted-of", len(src.items))}
        v = Val(kind=kind, elem=el, items=items, dim=src.dim if src.dim != TOP else el.dim, deps=deps, pdeps=pdeps, born=t, tags=tags)
        if name == "sorted" and src.items is not None:
            # values of a sorted display: any of the inputs
            j = join_all(src.items)
            v.items = tuple(j for _ in src.items)
            v.extra = ("sorted", src.items)
        return v
    if name == "map":
        f = args[0]
        el = interp.element_of(args[1], st, node) if len(args) > 1 else Val()
        r = interp.call_val(f, [el], {}, st, node)
        return Val(kind="list", elem=r, dim=r.dim, deps=deps | r.deps, born=t)
    if name == "next":
        return interp.element_of(a0, st, node)
    if name in ("min", "max"):
        cands = list(args)
        if len(args) == 1:
            cands = _seq_elems(interp, a0, st, node)
        d = ANY
        for c in cands:
            d2, conflict = dim_unify(d, c.dim)
            if conflict:
                interp.dimconflict(st, node, cands[0], c, name)
            d = d2
        out = Val(dim=d, kind="float", deps=deps, pdeps=pdeps, born=t)
        out.extra = (name, cands)
        if len(cands) == 2:
            # clamp of a symbolic scalar by a number: an opaque atom that keeps the sign knowledge
            cs = [c for c in cands if c.is_number_const()]
            vs = [c for c in cands if not c.is_number_const()]
            if len(cs) == 1 and len(vs) == 1 and vs[0].sym is not None:
                out.sym = Poly.atom(f"{name}<{cs[0].const!r};{vs[0].sym!r}>")
                if _nonneg(vs[0]) and (name == "max" or cs[0].const >= 0):
                    out.tags = out.tags | {"nonneg"}
        return out
    if name == "abs":
        interp.emit(st, "abs", node, target=a0)
        return Val(dim=a0.dim, kind=a0.kind, deps=deps, pdeps=pdeps, born=t, tags=frozenset(["abs"]))
    if name == "sum":
        el = interp.element_of(a0, st, node)
        return Val(dim=el.dim, kind="float", deps=deps, pdeps=pdeps, born=t)
    if name in ("any", "all", "isinstance", "hasattr", "callable", "bool"):
        out = Val(dim=D0, kind="bool", deps=deps, pdeps=pdeps, born=t)
        out.extra = (name, list(args))
        return out
    if name in ("float", "int", "round", "complex"):
        if a0 is None:
            return vconst(0)
        return Val(dim=a0.dim, kind="int" if name == "int" else "float", deps=deps, pdeps=pdeps, born=t, sym=a0.sym,
                   guardp=a0.guardp, const=a0.const if a0.is_number_const() else NOCONST,
                   tags=frozenset(tg for tg in a0.tags if isinstance(tg, tuple) and tg[0] in ("getter", "ret")))
    if name in ("str", "repr"):
        return Val(dim=D0, kind="str", deps=deps, born=t, extra=("str", a0))
    if name == "getattr":
        if a0 is not None and a0.kind in ("module", "class", "ext") and len(args) > 1 and args[1].has_const() and isinstance(args[1].const, str):
            return interp.getattr_val(a0, args[1].const, st, node)          # getattr(io, "to_obj"): the named member
        if a0 is not None and a0.obj is not None and len(args) > 1:
            if args[1].has_const() and isinstance(args[1].const, str):
                return interp.getattr_val(a0, args[1].const, st, node)
            interp.emit(st, "getattr-dynamic", node, obj=a0, name=args[1])
            return Val(deps=deps | args[1].deps, born=t, tags=frozenset(["getattr-dynamic"]), extra=("getattr", a0, args[1]))
        return Val(deps=deps, born=t)
    if name == "setattr":
        if a0 is not None and a0.obj is not None:
            interp.emit(st, "write", node, loc=(a0.obj.oid, "*"), objcls=a0.obj.cls, mode="rebind", op="setattr", sub=None,
                        rhs=args[2] if len(args) > 2 else Val(), cur=None, result=None)
        return vconst(None)
    if name == "dict":
        return Val(kind="dict", mapping={k: v for k, v in kwargs.items()} if not args else None, dim=D0, deps=deps, born=t)
    if name == "open":
        return Val(kind="file", dim=D0, born=t, deps=deps, pdeps=pdeps, tags=frozenset([("ret", "builtins.open")]))
    if name == "print":
        return vconst(None)
    if name == "type":
        if a0 is not None and a0.obj is not None:
            return Val(kind="classobj", extra=a0.obj.cls, dim=D0)
        return Val(kind="classobj", dim=D0)
    if name == "slice":
        return Val(kind="slice", dim=D0)
    if name in ("ValueError", "RuntimeError", "TypeError", "KeyError", "ImportError", "AttributeError",
                "NotImplementedError", "Exception", "AssertionError", "OSError", "IndexError", "DeprecationWarning"):
        return Val(kind="exc", name=name, dim=D0)
    if name == "divmod":
        return Val(kind="tuple", dim=TOP, deps=deps, born=t)
    if name == "pow":
        return fresh(TOP)
    if name == "id":
        return Val(kind="int", dim=D0)
    interp.unmodelled.add(f"builtins.{name}")
    return Val(deps=deps, born=t)
