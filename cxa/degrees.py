"""Declared length degrees of the public observables (SC-2 and the degree clauses of C01/C02/C04/C10-C14)."""

from fractions import Fraction

from .values import ANY, TOP, dim_collapse, dim_known, dim_str

LENGTH1 = {"perimeter", "circumference", "radius", "diameter", "a", "b", "c", "mean_curvature", "edge_lengths",
           "edge_vectors", "distance_to_surface", "centroid", "center", "vertices", "face_centroids"}
AREA2 = {"area", "signed_area", "surface_area", "get_face_area"}
VOLUME3 = {"volume"}
DIMLESS = {"iq", "eccentricity", "tau", "asphericity", "normals", "normal", "get_dihedral", "is_inside",
           "num_vertices", "num_faces", "num_edges", "faces", "edges", "neighbors", "simplices"}
INERTIA = {"inertia_tensor", "planar_moments_inertia", "polar_moment_inertia"}


def declared_degree(cls, member):
    """-> Fraction | 'cols' | None (no declaration)."""
    two_d = cls.is_subclass_of("Shape2D")
    if member.endswith("_radius") or member in LENGTH1:
        return Fraction(1)
    if member in AREA2:
        return Fraction(2)
    if member in VOLUME3:
        return Fraction(3)
    if member in INERTIA:
        return Fraction(4 if two_d else 5)
    if member == "compute_form_factor_amplitude":
        return Fraction(2 if two_d else 3)
    if member in DIMLESS:
        return Fraction(0)
    if member == "equations":
        return "cols"
    return None


def check_degree(v, want):
    """-> ('ok'|'bad'|'unknown'|'noreturn', text)"""
    if v is None:
        return "noreturn", "no normal return"
    d = dim_collapse(v.dim)
    if v.items is not None and v.kind in ("tuple", "list") and v.items:
        # tuple of values: every item must have the degree
        worst = "ok"
        for it in v.items:
            st, tx = check_degree(it, want)
            if st == "bad":
                return st, tx
            if st == "unknown":
                worst = "unknown"
        return worst, dim_str(d)
    if want == "cols":
        if d[0] == "COLS" and tuple(d[1]) == (0, 0, 0, 1):
            return "ok", dim_str(d)
        if d == TOP:
            return "unknown", "TOP"
        return "bad", dim_str(d)
    if d == ANY:
        return "ok", "ANY (constant zero)"
    if dim_known(d):
        if d[1] == want:
            return "ok", dim_str(d)
        # numeric constants (iq == 1) are dimensionless
        return "bad", dim_str(d)
    if d[0] == "COLS":
        return "bad", dim_str(d)
    return "unknown", dim_str(d)
