"""E3 client: one pass of the interpreter over every public entry of every shape class, collecting
result dimensions, inhomogeneity reports and decision sites (shared by C01/C02/C04/C09-C14)."""

from __future__ import annotations

import ast
import re
from dataclasses import dataclass, field
from fractions import Fraction
from typing import Dict, List

from .index import FuncInfo, Index, PropInfo
from .interp import Interp
from .model import ATTR
from .values import ANY, TOP, dim_collapse, dim_known, dim_str

BAND_MARGIN = Fraction(1, 1000)       # boundary margin of the property quantifiers
SCALE_RANGE = Fraction(1, 1000)       # smallest supported scale factor


def in_band(k, c):
    """A decision comparing a quantity of length-degree k with the bare constant c flips for some admissible
    (margin-separated) input at some scale in [1e-3, 1e3]  iff  margin^|k| * 1e-3^|k| < c."""
    k = abs(Fraction(k))
    if k == 0:
        return False
    thresh = float(BAND_MARGIN) ** float(k) * float(SCALE_RANGE) ** float(k)
    return thresh < abs(c)


@dataclass
class Site:
    func: str
    file: str
    line: int
    text: str
    form: str
    k: object
    c: object
    verdict: str     # exact-zero | homogeneous | relative | dimensionless | in-band | out-of-band | unknown
    path: tuple = ()

    @property
    def key(self):
        # semantic key: function, form, degree of the compared quantity, constant (not the source text).  A site inside a
        # private helper (name starting with '_') is anchored at the nearest non-private caller on its call path, so that
        # extracting a decision into a shared helper (or inlining it again) does not turn a listed finding into a new one.
        anchored = self.func
        def _private(q):
            n_ = q.rsplit(".", 1)[-1]
            return n_.startswith("_") and not n_.startswith("__")
        if _private(anchored) and self.path:
            for q_ in reversed(self.path[:-1]):
                if not _private(q_):
                    anchored = q_
                    break
        f = anchored.rsplit(".", 2)[-1] if anchored.startswith("coxeter.") else anchored
        if anchored is not self.func:
            if self.k is None or self.c is None:
                return f"{f}:{self.form}:{self.text}"
            return f"{f}:{self.form}:k={self.k}:c={self.c}"
        if self.func.startswith("coxeter."):
            f = "polytri." + self.func.rsplit(".", 1)[-1] if "polytri" in self.func else self.func
        if self.k is None or self.c is None:
            return f"{f}:{self.form}:{self.text}"
        return f"{f}:{self.form}:k={self.k}:c={self.c}"


@dataclass
class Scan:
    results: Dict[tuple, object] = field(default_factory=dict)   # (cls, member, kind) -> Val
    conflicts: Dict[str, tuple] = field(default_factory=dict)    # key -> (where, what, func)
    sites: Dict[str, Site] = field(default_factory=dict)
    constructs: List[tuple] = field(default_factory=list)        # (cls, member, built class, args)
    entries: int = 0
    stmts: int = 0
    unmodelled: set = field(default_factory=set)
    events_by_entry: Dict[tuple, list] = field(default_factory=dict)
    trans: Dict[str, tuple] = field(default_factory=dict)      # translation-typing findings (rule, where, what, func, path)
    trans_ok: int = 0


_CACHE = {}


def _norm(node):
    try:
        return re.sub(r"\s+", " ", ast.unparse(node))
    except Exception:
        return "?"


def _maxdeg(d):
    d = dim_collapse(d)
    if dim_known(d):
        return d[1]
    if d[0] == "COLS":
        ks = [c for c in d[1] if c is not None and c != 0]
        if ks:
            return max(ks, key=abs)
        return Fraction(0)
    return None


def _is_zeroish(v):
    return dim_collapse(v.dim) == ANY or (v.is_number_const() and v.const == 0)


def _param_default(v, ev):
    """numeric default of the raw parameter `v` is (tolerance arguments are rarely overridden by callers)."""
    fn = getattr(ev, "func", None)
    if v is None or fn is None or "raw-param" not in v.tags or len(v.pdeps) != 1:
        return None
    name = next(iter(v.pdeps))
    a = fn.node.args
    pos = list(a.posonlyargs) + list(a.args)
    defaults = [None] * (len(pos) - len(a.defaults)) + list(a.defaults)
    for p, d in list(zip(pos, defaults)) + list(zip(a.kwonlyargs, a.kw_defaults)):
        if p.arg == name and d is not None:
            try:
                c = ast.literal_eval(d)
            except Exception:
                return None
            return c if isinstance(c, (int, float)) and not isinstance(c, bool) else None
    return None


def classify_cmp(ev):
    left, right = ev.left, ev.right
    form = ev.form
    kw = ev.kw or {}
    if left is None or right is None:
        return None
    if form == "compare":
        inf = (float("inf"), float("-inf"))
        lc = left.is_number_const() and left.const != 0 and left.const not in inf and "pi" not in left.tags
        rc = right.is_number_const() and right.const != 0 and right.const not in inf and "pi" not in right.tags
        kl, kr = _maxdeg(left.dim), _maxdeg(right.dim)
        if rc and not lc:
            q, c = kl, right.const
        elif lc and not rc:
            q, c = kr, left.const
        else:
            if _is_zeroish(left) or _is_zeroish(right):
                return ("exact-zero", kl if not _is_zeroish(left) else kr, 0)
            if kl is None or kr is None:
                return ("unknown", None, None)
            if kl != kr and left.dim[0] == "D" and right.dim[0] == "D":
                # both sides have one definite length degree and the degrees differ: the decision changes with the unit of length
                return ("inhomogeneous", kl, kr)
            return ("homogeneous" if kl == kr else "unknown", kl, None)
        if q is None:
            return ("unknown", None, c)
        if q == 0:
            return ("dimensionless", 0, c)
        return ("in-band" if in_band(q, c) else "out-of-band", q, c)
    # isclose / allclose
    atol = kw.get("atol")
    rtol = kw.get("rtol")
    atol_c = atol.const if (atol is not None and atol.is_number_const()) else (1e-8 if atol is None else _param_default(atol, ev))
    kl, kr = _maxdeg(left.dim), _maxdeg(right.dim)
    lz, rz = _is_zeroish(left), _is_zeroish(right)
    if lz or rz:
        q = kr if lz else kl
        if atol_c is None:
            return ("relative", q, None)     # caller-supplied tolerance
        if q is None:
            return ("unknown", None, atol_c)
        if q == 0:
            return ("dimensionless", 0, atol_c)
        return ("in-band" if in_band(q, atol_c) else "out-of-band", q, atol_c)
    # a constant reference value (e.g. isclose(x, 1)): dimensionless unless x is dimensioned
    if right.is_number_const() or left.is_number_const():
        q = kl if right.is_number_const() else kr
        if q is None:
            return ("unknown", None, atol_c)
        if q == 0:
            return ("dimensionless", 0, atol_c)
        cval = right.const if right.is_number_const() else left.const
        return ("in-band" if in_band(q, abs(cval)) else "out-of-band", q, cval)
    if kl is None or kr is None:
        return ("unknown", None, atol_c)
    if kl == kr:
        if kl != 0 and atol_c is not None and atol_c > 0 and in_band(kl, atol_c):
            # an absolute tolerance (explicit, or numpy's default 1e-8) next to the relative one that lies inside the range the
            # compared quantities take over the supported scales: at the small end both sides are below it and the test is
            # always true (whatever their signs): it decides nothing there
            return ("in-band", kl, atol_c)
        return ("relative" if kl != 0 else "dimensionless", kl, atol_c)
    return ("unknown", kl, atol_c)


SCOPE = ("coxeter.shapes", "coxeter.extern.polytri")


def scan(index: Index) -> Scan:
    cached = getattr(index, "_dimscan_result", None)    # cached on the Index itself: an id() key is reused after gc
    if cached is not None:
        return cached
    sc = Scan()
    from .entries import register_lazy_caches
    register_lazy_caches(index)
    for cls in index.shape_classes():
        members = dict(cls.public_members())
        for name, m in sorted(members.items()):
            fns = []
            if isinstance(m, PropInfo):
                p = index.effective_prop(cls, name)
                if p.getter:
                    fns.append((p.getter, "getter"))
                if p.setter:
                    fns.append((p.setter, "setter"))
            elif isinstance(m, FuncInfo):
                fns.append((m, "method"))
            for fn, kind in fns:
                if name in ("plot", "to_plato_scene"):
                    continue
                it = Interp(index, config={"assume_defaults": name == "__init__"})
                r = it.run_entry(fn, cls)
                sc.entries += 1
                sc.stmts += it.stats["stmts"]
                sc.unmodelled |= it.unmodelled
                sc.results[(cls.name, name, kind)] = r["result"] if r["returns"] else None
                sc.events_by_entry[(cls.name, name, kind)] = r["events"]
                for e in r["events"]:
                    if e.func is None or not e.func.module.name.startswith(SCOPE):
                        continue
                    if e.type == "dimconflict":
                        k = f"{e.func.qualname}:{_norm(e.node)}"
                        sc.conflicts.setdefault(k, (e.where(), f"inhomogeneous {e.what}: {dim_str(e.a.dim)} vs {dim_str(e.b.dim)} in `{_norm(e.node)[:80]}`", e.func.qualname))
                    elif e.type == "write" and e.mode == "rebind" and e.rhs is not None and e.loc[1] in ATTR \
                            and e.op == "set":
                        want = ATTR[e.loc[1]][0]
                        from .values import dim_unify
                        got = e.rhs.dim
                        _, bad = dim_unify(want, got)
                        if bad and dim_collapse(got) != ANY and not (e.rhs.has_const() and e.rhs.const is None):     # None: "not computed yet"
                            k = f"{e.func.qualname}:store:{e.loc[1]}"
                            sc.conflicts.setdefault(k, (e.where(), f"stores a quantity of dimension {dim_str(got)} into {e.loc[1]} "
                                                        f"(declared {dim_str(want)}) in `{_norm(e.node)[:70]}`", e.func.qualname))
                    elif e.type == "nondimless":
                        k = f"{e.func.qualname}:{_norm(e.node)}"
                        sc.conflicts.setdefault(k, (e.where(), f"{e.fn}() of a quantity of dimension {dim_str(e.arg.dim)} in `{_norm(e.node)[:80]}`", e.func.qualname))
                    elif e.type == "addconst":
                        c = e.constant.const
                        q = _maxdeg(e.quantity.dim)
                        verdict = "in-band" if (q is not None and in_band(q, c)) else "out-of-band"
                        s = Site(e.func.qualname, e.func.file, getattr(e.node, "lineno", 0), _norm(e.node), "add-constant", q, c, verdict, e.path)
                        sc.sites.setdefault(s.key, s)
                    elif e.type == "cmp":
                        cl = classify_cmp(e)
                        if cl is None:
                            continue
                        verdict, q, c = cl
                        s = Site(e.func.qualname, e.func.file, getattr(e.node, "lineno", 0), _norm(e.node), e.form, q, c, verdict, e.path)
                        old = sc.sites.get(s.key)
                        # keep the most specific verdict seen over all calling contexts
                        rank = {"inhomogeneous": 6, "in-band": 5, "out-of-band": 4, "relative": 3, "homogeneous": 3, "exact-zero": 3, "dimensionless": 2, "unknown": 1}
                        if old is None or rank[verdict] > rank[old.verdict]:
                            sc.sites[s.key] = s
                    elif e.type == "construct":
                        sc.constructs.append((cls.name, name, e.cls.name, e.args, e.kwargs, e))
                    # ---- translation typing (cxa/trans.py): decisions / solves / balls that depend on where the origin is
                    if e.type == "cmp":
                        from .trans import tr_of
                        tl, trr = tr_of(e.left), tr_of(e.right)
                        pos = ("T1", "TA", "TX")
                        if (tl in pos and trr == "T0") or (trr in pos and tl == "T0"):
                            k = f"{e.func.qualname}:cmp:{e.form}:{e.op if e.form == 'compare' else ''}:{tl}-{trr}"
                            sc.trans.setdefault(k, ("TR-1", e.where(), f"`{_norm(e.node)[:70]}` decides on a quantity that depends on where the origin "
                                                    f"is ({'a position' if 'T1' in (tl, trr) else 'a projection n.p / rotated coordinate' if 'TA' in (tl, trr) else 'origin dependent'} "
                                                    f"compared with a translation-invariant value): the answer changes when shape and query are translated together",
                                                    e.func.qualname, tuple(e.path)))
                    elif e.type == "linsolve":
                        from .trans import tr_of
                        if tr_of(e.b) == "MIX":
                            k = f"{e.func.qualname}:solve:mixed-rhs"
                            sc.trans.setdefault(k, ("TR-3", e.where(), f"`{_norm(e.node)[:70]}`: the right-hand side mixes translation-invariant entries with "
                                                    "entries n.p that move with the origin, while the matrix is translation invariant: the solution is "
                                                    "neither relative nor absolute (it changes with the distance of the plane from the origin)",
                                                    e.func.qualname, tuple(e.path)))
                        else:
                            sc.trans_ok += 1
    index._dimscan_result = sc
    return sc


def report_translation(res, sc, pred, what):
    """TR-1 / TR-3 (translation typing, cxa/trans.py) for the functions selected by pred(qualname, path)."""
    n = 0
    for k, (rule, where, text, func, path) in sorted(sc.trans.items()):
        if pred(func, path):
            n += 1
            res.bad(rule, k, where, f"{func}: {text}")
    if n == 0:
        res.ok("TR-1", what, sample={"translation_typing": what, "solves_with_consistent_rhs": sc.trans_ok})
