"""Inlining abstract interpreter over the coxeter sources (E1 + E2 + E3 + E4 product domain).

One syntax-directed walk per (entry point, concrete class of `self`): calls on `self`, on
composite fields, on freshly constructed shapes and on module functions of the repository are
resolved (MRO / imports) and *inlined*; library calls are modelled by cxa.npmodel.  Control
flow is structured (if/for/while/try/with, return/raise/break/continue): states are joined at
merges, loops are iterated to a (two-pass) fixpoint.  Clients observe *events* and keep
flow-sensitive components in the state.
"""

from __future__ import annotations

import ast
from fractions import Fraction
from typing import Dict, List, Optional

from .algebra import Poly
from . import trans
from .index import ClassInfo, FuncInfo, Index, ModuleInfo, PropInfo
from .model import ATTR, PARAM
from .values import (ANY, D0, NOCONST, TOP, D, ObjRef, Val, dim_collapse, dim_div, dim_known, dim_mul,
                     dim_pow, dim_unify, join_vals, vconst)

MAX_DEPTH = 14
# vendored Bentley-Ottmann sweep: pure-python tuple arithmetic, treated as an opaque predicate
OPAQUE_MODULES = ("coxeter.extern.bentley_ottmann",)


def baxis_of(v):
    """position of the batch axis of a batch-carrying value, when known (tag ('baxis', k))."""
    if v is None:
        return None
    for t in v.tags:
        if isinstance(t, tuple) and t and t[0] == "baxis":
            return t[1]
    return None


EDGE_ORDERED = ("edges", "edge_vectors", "edge_lengths")


def order_of(v):
    """which enumeration a per-edge / per-face sequence follows, when known."""
    if v is None:
        return None
    for t in v.tags:
        if isinstance(t, tuple) and t and t[0] == "order":
            return t[1]
        if isinstance(t, tuple) and t and t[0] == "getter-of" and t[1] in EDGE_ORDERED:
            return "edges"
    return None


def batch_tag(*vals):
    ks = set()
    found = False
    for v in vals:
        if v is not None and "batch" in v.tags:
            found = True
            ks.add(baxis_of(v))
    if not found:
        return frozenset()
    if len(ks) == 1 and None not in ks:
        return frozenset(["batch", ("baxis", next(iter(ks)))])
    return frozenset(["batch"])


def ret_tags(*vals):
    """provenance tags ('ret', callee) / ('len-of', params) carried through tests."""
    out = set()
    for v in vals:
        if v is None:
            continue
        for t in v.tags:
            if isinstance(t, tuple) and t and t[0] in ("ret", "len-of"):
                out.add(t)
    return frozenset(out)


class AbortPath(Exception):
    """the current path ended inside an inlined callee (it raised on all its paths)."""


class Ev:
    __slots__ = ("type", "node", "func", "path", "f")

    def __init__(self, type, node, func, path, **f):
        self.type = type
        self.node = node
        self.func = func
        self.path = path
        self.f = f

    def __getattr__(self, k):
        try:
            return self.f[k]
        except KeyError:
            raise AttributeError(k)

    def where(self):
        ln = getattr(self.node, "lineno", 0)
        return f"{self.func.file}:{ln}" if self.func else f"?:{ln}"

    def src(self):
        try:
            return ast.unparse(self.node)
        except Exception:
            return "?"


class Component:
    """flow-sensitive client state; value must be copyable/joinable by these methods."""
    name = "component"

    def init(self, interp):
        return None

    def copy(self, v):
        return v

    def join(self, a, b):
        return a

    def on_event(self, interp, st, ev):
        pass

    def on_branch(self, interp, st, test_node, test_val, truth):
        pass


class St:
    __slots__ = ("env", "comp")

    def __init__(self, env, comp):
        self.env = env
        self.comp = comp


class Frame:
    def __init__(self, fn: FuncInfo, module: ModuleInfo, selfobj, closure_env=None):
        self.fn = fn
        self.module = module
        self.selfobj = selfobj
        self.returns = []   # (Val, St)
        self.yields = []
        self.loops = []     # stack of {'break': [], 'continue': []}
        self.closure_env = closure_env
        self.is_gen = False
        self.cur_stmt = None
        self.role = None


BUILTIN_NAMES = {
    "len", "range", "enumerate", "zip", "sorted", "set", "list", "tuple", "dict", "map", "min", "max",
    "abs", "sum", "any", "all", "isinstance", "hasattr", "getattr", "setattr", "float", "int", "str", "bool",
    "print", "open", "iter", "next", "repr", "super", "type", "round", "reversed", "filter", "divmod", "pow",
    "ValueError", "RuntimeError", "TypeError", "KeyError", "ImportError", "AttributeError", "NotImplementedError",
    "Exception", "DeprecationWarning", "AssertionError", "OSError", "IndexError", "StopIteration", "complex",
    "frozenset", "id", "callable", "slice", "object", "property", "staticmethod", "classmethod",
}


class Interp:
    def __init__(self, index: Index, components: List[Component] = (), config: Optional[dict] = None):
        self.index = index
        self.components = list(components)
        self.config = config or {}
        self.events: List[Ev] = []
        self.frames: List[Frame] = []
        self.raise_sinks: List[list] = []
        self.time = 0
        self.newobj = 0
        self._keepalive = []
        self.unmodelled = set()
        self.unresolved = set()
        self.composites = self._scan_composites()
        self.listeners = []
        self.stats = {"stmts": 0, "calls_inlined": 0, "ext_calls": 0}
        self.site_count = {}
        self._noreturn = False
        from . import npmodel
        self.np = npmodel

    # ------------------------------------------------------------------ set-up helpers
    def _scan_composites(self):
        comp = {}
        for c in self.index.classes.values():
            init = c.methods.get("__init__")
            if not init:
                continue
            for n in ast.walk(init.node):
                if isinstance(n, ast.Assign) and len(n.targets) == 1:
                    t = n.targets[0]
                    if (isinstance(t, ast.Attribute) and isinstance(t.value, ast.Name) and t.value.id == "self"
                            and isinstance(n.value, ast.Call) and isinstance(n.value.func, ast.Name)):
                        r = self.index.resolve_name(c.module, n.value.func.id)
                        if isinstance(r, ClassInfo):
                            comp[(c.name, t.attr)] = r
        return comp

    def composite_of(self, cls: ClassInfo, attr):
        for c in cls.mro:
            if (c.name, attr) in self.composites:
                return self.composites[(c.name, attr)]
        return None

    def tick(self):
        self.time += 1
        return self.time

    def path(self):
        return tuple(f.fn.qualname for f in self.frames)

    def emit(self, st, type, node, **f):
        fn = self.frames[-1].fn if self.frames else None
        ev = Ev(type, node, fn, self.path(), **f)
        ev.f["time"] = self.tick()
        ev.f["stmt"] = getattr(self.frames[-1], "cur_stmt", None) if self.frames else None
        ev.f["stack"] = tuple(self.frames)
        self.events.append(ev)
        for c in self.components:
            c.on_event(self, st, ev)
        return ev

    # ------------------------------------------------------------------ states
    def new_state(self):
        return St({}, {c.name: c.init(self) for c in self.components})

    # symbolic store forwarding for scalar fields: atoms always denote entry-time values
    FLOAT_FUNCS = {"eye", "identity", "zeros", "ones", "sqrt", "sin", "cos", "tan", "norm", "linspace", "mean", "average", "exp", "log",
                   "arctan2", "arccos", "arcsin", "hypot", "true_divide", "divide", "zeros_like", "ones_like", "pi"}

    def floaty_expr(self, node, depth=0):
        """is the value of this expression certainly of a floating dtype?  (a true division, a non-integral float literal,
        or a numpy function that returns floats; locals are looked through)"""
        if depth > 3:
            return False
        fr = self.frames[-1] if self.frames else None
        for n in ast.walk(node):
            if isinstance(n, ast.BinOp) and isinstance(n.op, ast.Div):
                return True
            if isinstance(n, ast.Constant) and isinstance(n.value, float):
                return True
            if isinstance(n, ast.Call):
                f = n.func
                nm = f.attr if isinstance(f, ast.Attribute) else getattr(f, "id", "")
                if nm in self.FLOAT_FUNCS and not any(k.arg == "dtype" for k in n.keywords):
                    return True
            if isinstance(n, ast.Attribute) and n.attr == "pi":
                return True
        return False

    def val_id(self, v: Val):
        """identity of the value `v` was copied from (through array/asarray/copy): see tag 'val-of'."""
        for t in v.tags:
            if isinstance(t, tuple) and t[0] == "val-of":
                return t[1]
        self._keepalive.append(v)
        return id(v)

    def _symstore(self, st):
        return st.comp.setdefault("__symstore", {})

    def copy_state(self, st: St):
        comp = {c.name: c.copy(st.comp[c.name]) for c in self.components}
        comp["__symstore"] = dict(st.comp.get("__symstore", {}))
        comp["__shallow"] = dict(st.comp.get("__shallow", {}))
        comp["__lazyval"] = dict(st.comp.get("__lazyval", {}))
        return St(dict(st.env), comp)

    def join_states(self, a: Optional[St], b: Optional[St]) -> Optional[St]:
        if a is None:
            return b
        if b is None:
            return a
        env = {}
        for k in set(a.env) | set(b.env):
            if k in a.env and k in b.env:
                env[k] = join_vals(a.env[k], b.env[k])
            else:
                env[k] = a.env.get(k) or b.env.get(k)
        comp = {c.name: c.join(a.comp[c.name], b.comp[c.name]) for c in self.components}
        sa, sb = a.comp.get("__symstore", {}), b.comp.get("__symstore", {})
        ss = {}
        for k in set(sa) | set(sb):
            if isinstance(k, tuple) and isinstance(k[0], str) and k[0].startswith("new#") and ((k in sa) != (k in sb)):
                ss[k] = sa.get(k, sb.get(k))     # an object created on one path only: nothing to merge with
                continue
            x, y = sa.get(k, "entry"), sb.get(k, "entry")
            ss[k] = x if (x is not None and not isinstance(x, str) and x == y) else (x if x == y else None)
        comp["__symstore"] = ss
        ha, hb = a.comp.get("__shallow", {}), b.comp.get("__shallow", {})
        sh = {}
        for k in set(ha) | set(hb):
            if k in ha and k in hb:
                sh[k] = (ha[k][0], ha[k][1] & hb[k][1])   # shared unless rebound on both paths
            else:
                sh[k] = ha.get(k) or hb.get(k)
        comp["__shallow"] = sh
        # lazily filled attributes: on the path that did not fill, the attribute already held what an earlier execution of the
        # same fill stored - the abstract value of the fill stands for both
        la, lb = a.comp.get("__lazyval", {}), b.comp.get("__lazyval", {})
        lz = {}
        for k in set(la) | set(lb):
            lz[k] = join_vals(la[k], lb[k]) if (k in la and k in lb) else (la.get(k) or lb.get(k))
        comp["__lazyval"] = lz
        return St(env, comp)

    # ------------------------------------------------------------------ entry
    def make_self(self, cls: ClassInfo, oid="self"):
        return Val(dim=TOP, kind="obj", obj=ObjRef(cls, oid), born=0)

    def param_val(self, name, fn: FuncInfo = None, override=None):
        if override and name in override:
            dim, kind = override[name]
        elif fn is not None and fn.kind == "setter" and fn.name not in ("centroid", "center"):
            dim, kind = TOP, "float"   # size setters take a scalar target
        else:
            dim, kind = PARAM.get(name, (TOP, "unknown"))
        loc = ("param", name)
        scalar = kind in ("float", "int", "bool", "str")
        v = Val(dim=dim, kind=kind, al=frozenset() if scalar else frozenset([loc]), deps=frozenset([loc]),
                pdeps=frozenset([name]), guardp=frozenset([name]), born=0,
                tags=frozenset(["raw-param"]) if scalar else frozenset(["param-root", "raw-param"]),
                tr=trans.TR_PARAM.get(name))
        if kind in ("float", "int"):
            v.sym = Poly.atom(f"param.{name}")
        return v

    def run_entry(self, fn: FuncInfo, self_cls: Optional[ClassInfo] = None, args: Optional[Dict[str, Val]] = None,
                  param_dims=None):
        """Analyse fn with `self` of class self_cls.  Returns dict(returns, raises, events, result)."""
        self.events = []
        self.frames = []
        self.site_count = {}
        self.raise_sinks = [[]]
        st = self.new_state()
        selfv = None
        params = fn.params
        a = fn.node.args
        bind = {}
        defaults = self._defaults(fn)
        for i, p in enumerate(params):
            if i == 0 and fn.cls is not None and fn.kind not in ("staticmethod",):
                if fn.kind == "classmethod":
                    bind[p] = Val(kind="class", extra=self_cls or fn.cls, dim=D0)
                else:
                    selfv = self.make_self(self_cls or fn.cls)
                    bind[p] = selfv
                continue
            if args and p in args:
                bind[p] = args[p]
            else:
                bind[p] = self.param_val(p, fn, param_dims)
                if p in defaults and defaults[p] is not None:
                    dv = defaults[p]
                    # keep the parameter identity, remember the default
                    bind[p].extra = ("default", dv)
                    if bind[p].kind == "unknown" and dv.kind in ("bool", "none"):
                        bind[p].kind = dv.kind
                    if self.config.get("assume_defaults") and dv.has_const() and isinstance(dv.const, bool):
                        bind[p] = vconst(dv.const)
        if a.vararg:
            bind[a.vararg.arg] = Val(kind="tuple", dim=TOP)
        if a.kwarg:
            bind[a.kwarg.arg] = Val(kind="dict", dim=TOP)
        for k in a.kwonlyargs:
            bind[k.arg] = self.param_val(k.arg, fn, param_dims)
        frame = Frame(fn, fn.module, selfv)
        frame.is_gen = self._is_generator(fn)
        self.frames.append(frame)
        st.env = bind
        self.emit(st, "enter", fn.node, callee=fn, entry=True, selfobj=selfv.obj if selfv else None, args=bind)
        out = self.exec_block(fn.node.body, st)
        if out is not None:
            frame.returns.append((vconst(None), out, fn.node))
        for (v, s, n) in frame.returns:
            self.emit(s, "exit", n, callee=fn, entry=True, value=v)
        self.frames.pop()
        result = None
        for (v, s, n) in frame.returns:
            result = join_vals(result, v)
        if frame.is_gen:
            el = None
            for y in frame.yields:
                el = join_vals(el, y)
            result = Val(kind="gen", elem=el, dim=el.dim if el else TOP)
        return {"returns": frame.returns, "raises": self.raise_sinks[0], "events": self.events, "result": result}

    def _is_generator(self, fn: FuncInfo):
        for n in self._walk_own(fn.node):
            if isinstance(n, (ast.Yield, ast.YieldFrom)):
                return True
        return False

    @staticmethod
    def _walk_own(node):
        """walk a function body without descending into nested function definitions."""
        stack = list(ast.iter_child_nodes(node))
        while stack:
            n = stack.pop()
            yield n
            if isinstance(n, (ast.FunctionDef, ast.Lambda, ast.AsyncFunctionDef, ast.ClassDef)):
                continue
            stack.extend(ast.iter_child_nodes(n))

    def _defaults(self, fn: FuncInfo):
        a = fn.node.args
        pos = list(a.posonlyargs) + list(a.args)
        out = {}
        nd = len(a.defaults)
        for p, d in zip(pos[len(pos) - nd:], a.defaults):
            out[p.arg] = self._eval_default(d, fn.module)
        for p, d in zip(a.kwonlyargs, a.kw_defaults):
            if d is not None:
                out[p.arg] = self._eval_default(d, fn.module)
        return out

    def _eval_default(self, node, module):
        try:
            c = ast.literal_eval(node)
            if isinstance(c, tuple):
                return Val(kind="tuple", dim=ANY if all(x == 0 for x in c) else D0, const=c,
                           items=tuple(vconst(x) for x in c))
            return vconst(c)
        except Exception:
            pass
        if isinstance(node, ast.Name):
            # a default that names a class / function / constant of the defining module (`family_type=TabulatedGSDShapeFamily`)
            r = self.index.resolve_name(module, node.id)
            if r is not None and isinstance(r, (ClassInfo, FuncInfo)):
                return self.global_val(r, node.id)
        return Val()

    # ------------------------------------------------------------------ statements
    def exec_block(self, stmts, st: Optional[St]) -> Optional[St]:
        for s in stmts:
            if st is None:
                return None
            st = self.exec_stmt(s, st)
        return st

    def exec_stmt(self, s, st: St) -> Optional[St]:
        self.stats["stmts"] += 1
        self.tick()
        m = getattr(self, "s_" + type(s).__name__, None)
        if m is None:
            return st
        if self.frames:
            self.frames[-1].cur_stmt = s
        depth = len(self.frames)
        nloops = len(self.frames[-1].loops) if self.frames else 0
        nsinks = len(self.raise_sinks)
        try:
            return m(s, st)
        except AbortPath:
            # a callee that never returns normally ends this path
            del self.frames[depth:]
            if self.frames:
                del self.frames[-1].loops[nloops:]
            del self.raise_sinks[nsinks:]
            return None

    def s_Expr(self, s, st):
        self.ev(s.value, st)
        return st

    def s_Pass(self, s, st):
        return st

    def s_Assign(self, s, st):
        v = self.ev(s.value, st)
        for t in s.targets:
            self.assign(t, v, st, s)
        return st

    def s_AnnAssign(self, s, st):
        if s.value is not None:
            v = self.ev(s.value, st)
            self.assign(s.target, v, st, s)
        return st

    def s_AugAssign(self, s, st):
        rhs = self.ev(s.value, st)
        t = s.target
        opname = type(s.op).__name__
        self.emit(st, "augassign", s, op=opname, rhs=rhs, target=ast.unparse(t))
        if isinstance(t, ast.Name):
            cur = self.load_name(t.id, st, t)
            res = self.binop(s.op, cur, rhs, st, s)
            if "maybe-int" in cur.tags and cur.kind == "arr":
                lengthy = rhs.kind == "arr" and dim_known(dim_collapse(rhs.dim)) and dim_collapse(rhs.dim)[1] != 0 and "maybe-int" not in rhs.tags
                if opname == "Div" or (opname in ("Add", "Sub", "Mult") and ((rhs.is_number_const() and isinstance(rhs.const, float)
                                       and not float(rhs.const).is_integer()) or self.floaty_expr(s.value) or lengthy)):
                    self.emit(st, "int-inplace", s, op=opname, rhs=rhs, target=t.id, cur=cur)
                res = res.copy(tags=res.tags | {"maybe-int"})
            if cur.al and cur.kind not in ("int", "float", "bool", "str", "none"):
                # numpy in-place on a view / the object itself
                self.write_inplace(cur, opname, None, rhs, st, s, cur_val=cur)
                res = res.copy(al=cur.al, born=cur.born)
            elif cur.kind in ("list",) and opname == "Add":
                res = res.copy(al=cur.al)
            else:
                # a fresh array updated in place stays the same fresh object
                res = res.copy(born=cur.born if cur.born else res.born)
                if cur.kind == "arr" and opname in ("Mult", "Div") and ("eigvecs" in cur.tags or "orth" in cur.tags):
                    res = res.copy(tags=res.tags | (cur.tags & {"eigvecs", "orth", "transposed"}), extra=cur.extra)
            st.env[t.id] = res
            return st
        if isinstance(t, ast.Attribute):
            base = self.ev(t.value, st)
            if base.obj is not None:
                prop = self.index.effective_prop(base.obj.cls, t.attr)
                if prop is not None:
                    cur = self.read_prop(base, prop, st, t)
                    res = self.binop(s.op, cur, rhs, st, s)
                    self.write_prop(base, prop, t.attr, res, st, s)
                    return st
                cur = self.read_field(base, t.attr, st, t)
                res = self.binop(s.op, cur, rhs, st, s)
                if cur.kind in ("arr", "idx", "idxlist", "list", "unknown"):
                    self.emit(st, "write", s, loc=(base.obj.oid, t.attr), objcls=base.obj.cls, mode="inplace",
                              op=opname, sub=None, rhs=rhs, cur=cur, result=res)
                else:
                    self._symstore(st)[(base.obj.oid, t.attr)] = res.sym
                    self.emit(st, "write", s, loc=(base.obj.oid, t.attr), objcls=base.obj.cls, mode="rebind",
                              op=opname, sub=None, rhs=res, cur=cur, result=res, aug=rhs)
                return st
            return st
        if isinstance(t, ast.Subscript):
            base = self.ev(t.value, st)
            idx = self.ev_index(t.slice, st)
            cur = self.subscript(base, idx, t, st)
            res = self.binop(s.op, cur, rhs, st, s)
            self.write_inplace(base, opname, (t.slice, idx), rhs, st, s, cur_val=cur)
            if isinstance(t.value, ast.Name) and t.value.id in st.env and not base.al and base.kind in ("arr", "unknown"):
                curv = st.env[t.value.id]
                colsel = self.np.column_store(curv, idx, res)
                if colsel is not None:
                    d = colsel[0]
                else:
                    d, conflict = dim_unify(curv.dim, res.dim)
                    if conflict:
                        d = TOP
                st.env[t.value.id] = curv.copy(dim=d, deps=curv.deps | res.deps, pdeps=curv.pdeps | res.pdeps)
            return st
        return st

    def write_inplace(self, target: Val, op, sub, rhs: Val, st, node, cur_val=None):
        """an in-place modification of the storage `target` views."""
        for loc in sorted(target.al):
            if loc[0] == "param":
                self.emit(st, "param-inplace", node, loc=loc, op=op, rhs=rhs, target=target)
            else:
                self.emit(st, "write", node, loc=loc, objcls=None, mode="inplace", op=op, sub=sub, rhs=rhs,
                          cur=cur_val, result=None)
                st.comp.get("__lazyval", {}).pop(loc, None)

    def s_Return(self, s, st):
        v = self.ev(s.value, st) if s.value is not None else vconst(None)
        self.frames[-1].returns.append((v, st, s))
        return None

    def s_Raise(self, s, st):
        name = "Exception"
        if s.exc is not None:
            e = s.exc
            if isinstance(e, ast.Call):
                for a in e.args:
                    self.ev(a, st)
                e = e.func
            if isinstance(e, ast.Name):
                name = e.id
                # `err = ValueError("..."); ...; raise err`: a local bound (once, in this function) to a constructed exception
                if not isinstance(s.exc, ast.Call) and self.frames:
                    fn_ = self.frames[-1].fn
                    from .astutil import single_assignments
                    src_ = single_assignments(fn_.node).get(e.id) if fn_ is not None else None
                    if isinstance(src_, ast.Call) and isinstance(src_.func, (ast.Name, ast.Attribute)):
                        cn_ = src_.func.id if isinstance(src_.func, ast.Name) else src_.func.attr
                        if cn_.endswith(("Error", "Exception", "Warning")):
                            name = cn_
            elif isinstance(e, ast.Attribute):
                name = e.attr
        self.emit(st, "raise", s, exc=name)
        self.raise_sinks[-1].append((name, st, s, self.path()))
        return None

    def s_Assert(self, s, st):
        tv = self.ev(s.test, st)
        for c in self.components:
            c.on_branch(self, st, s.test, tv, True)
        return st

    def s_If(self, s, st):
        tv = self.ev(s.test, st)
        truth = self.static_truth(tv)
        st_t = self.copy_state(st)
        st_f = st
        for c in self.components:
            c.on_branch(self, st_t, s.test, tv, True)
            c.on_branch(self, st_f, s.test, tv, False)
        self.refine_env(s.test, st_t, True)
        self.refine_env(s.test, st_f, False)
        out_t = self.exec_block(s.body, st_t) if truth is not False else None
        out_f = self.exec_block(s.orelse, st_f) if truth is not True else None
        return self.join_states(out_t, out_f)

    def static_truth(self, tv: Val):
        if tv.has_const() and isinstance(tv.const, bool) and "static" in tv.tags:
            return tv.const          # decided by the code alone (membership of a literal key in an exactly known key set)
        if self.config.get("fold_branches", False) and tv.has_const() and isinstance(tv.const, bool) \
                and (not tv.deps or "static" in tv.tags):
            return tv.const
        return None

    def refine_env(self, test, st, truth):
        """`x is None` / `x is not None` / isinstance refinements that matter for defaults."""
        if isinstance(test, ast.Compare) and len(test.ops) == 1 and isinstance(test.left, ast.Name):
            if isinstance(test.comparators[0], ast.Constant) and test.comparators[0].value is None:
                isnone = isinstance(test.ops[0], ast.Is)
                if isinstance(test.ops[0], (ast.Is, ast.IsNot)):
                    name = test.left.id
                    if name in st.env and (isnone == truth):
                        # the variable is None on this branch
                        st.env[name] = vconst(None)

    def s_For(self, s, st):
        it = self.ev(s.iter, st)
        def _static(v, d=0):
            if v.has_const() or v.kind in ("func", "class", "ext"):
                return True
            return d < 2 and v.kind in ("tuple", "list") and v.items is not None and all(_static(i, d + 1) for i in v.items)

        if (it.items is not None and 0 < len(it.items) <= 12 and all(_static(i) for i in it.items)
                and it.kind in ("list", "tuple")):
            # a loop over a literal display of constants is unrolled (precise getattr / dict keys); `break` / `continue` / `else`
            # keep their meaning: a pass that certainly breaks ends the loop and skips the else clause
            frame = self.frames[-1]
            cur = st
            broke = []
            for item in it.items:
                if cur is None:
                    break
                ctx = {"break": [], "continue": []}
                frame.loops.append(ctx)
                self.assign(s.target, item, cur, s)
                cur = self.exec_block(s.body, cur)
                frame.loops.pop()
                for c_ in ctx["continue"]:
                    cur = self.join_states(cur, c_)
                broke.extend(ctx["break"])
            if s.orelse and cur is not None:
                cur = self.exec_block(s.orelse, cur)
            for b_ in broke:
                cur = self.join_states(cur, b_)
            return cur
        elem = self.element_of(it, st, s.iter)
        return self._loop(s, st, elem=elem)

    def s_While(self, s, st):
        return self._loop(s, st, elem=None)

    def _loop(self, s, st, elem):
        frame = self.frames[-1]
        entry = self.copy_state(st)
        exits = []

        def one_pass(start: St):
            ctx = {"break": [], "continue": []}
            frame.loops.append(ctx)
            cur = self.copy_state(start)
            if elem is not None:
                self.assign(s.target, elem, cur, s)
            else:
                tv = self.ev(s.test, cur)
                cf = self.copy_state(cur)
                for c in self.components:
                    c.on_branch(self, cur, s.test, tv, True)
                    c.on_branch(self, cf, s.test, tv, False)
                exits.append(cf)
            out = self.exec_block(s.body, cur)
            frame.loops.pop()
            for c in ctx["continue"]:
                out = self.join_states(out, c)
            return out, ctx["break"]

        out1, br1 = one_pass(entry)
        merged = self.join_states(self.copy_state(entry), out1)
        out2, br2 = one_pass(merged)
        final = self.join_states(merged, out2)
        br3 = []
        # accumulators  acc += term : keep one representative term (the sum over iterations is implicit)
        if final is not None and out1 is not None:
            for name in self._accumulators(s):
                a0, a1 = entry.env.get(name), out1.env.get(name)
                if a0 is not None and a1 is not None and a0.sym is not None and a1.sym is not None and name in final.env:
                    final.env[name] = final.env[name].copy(sym=a1.sym, tags=final.env[name].tags | {"loopsum"})
        if elem is not None and self.config.get("nonempty_loops"):
            # iteration over a collection known to be non-empty: the zero-trip path is infeasible
            final = self.join_states(out1, out2) if (out1 is not None or out2 is not None) else None
        if elem is None:
            # while: normal exit is through a false test
            ex = None
            for e in exits:
                ex = self.join_states(ex, e)
            normal = ex
        else:
            normal = final
        if s.orelse and normal is not None:
            normal = self.exec_block(s.orelse, normal)
        for b in br1 + br2 + br3:
            normal = self.join_states(normal, b)
        return normal

    @staticmethod
    def _accumulators(loop):
        """names only ever modified by `name += / -= expr` inside the loop body."""
        aug, other = set(), set()
        for n in ast.walk(loop):
            if isinstance(n, ast.AugAssign) and isinstance(n.target, ast.Name) and isinstance(n.op, (ast.Add, ast.Sub)):
                aug.add(n.target.id)
            elif isinstance(n, ast.AugAssign) and isinstance(n.target, ast.Name):
                other.add(n.target.id)
            elif isinstance(n, (ast.Assign, ast.For, ast.NamedExpr, ast.comprehension)):
                tg = n.targets if isinstance(n, ast.Assign) else [n.target]
                for t in tg:
                    for x in ast.walk(t):
                        if isinstance(x, ast.Name):
                            other.add(x.id)
        return aug - other

    def s_Break(self, s, st):
        if self.frames[-1].loops:
            self.frames[-1].loops[-1]["break"].append(st)
        return None

    def s_Continue(self, s, st):
        if self.frames[-1].loops:
            self.frames[-1].loops[-1]["continue"].append(st)
        return None

    def s_Try(self, s, st):
        frame = self.frames[-1]
        nret0 = len(frame.returns)
        out = self._try_inner(s, st)
        if s.finalbody:
            # `return` inside try/except runs the finally block before the function returns
            fixed = []
            for (v, rst, node) in frame.returns[nret0:]:
                env_keep = rst.env
                fst = self.exec_block(s.finalbody, rst)
                if fst is not None:
                    fixed.append((v, fst, node))
            frame.returns[nret0:] = fixed
        return out

    def _try_inner(self, s, st):
        pre = self.copy_state(st)
        sink = []
        self.raise_sinks.append(sink)
        out = self.exec_block(s.body, st)
        self.raise_sinks.pop()
        caught_any = None
        handled_names = []
        for h in s.handlers:
            names = []
            if h.type is None:
                names = ["*"]
            elif isinstance(h.type, ast.Tuple):
                for e in h.type.elts:
                    names.append(e.attr if isinstance(e, ast.Attribute) else getattr(e, "id", "*"))
            else:
                names.append(h.type.attr if isinstance(h.type, ast.Attribute) else getattr(h.type, "id", "*"))
            handled_names.append(names)
        results = out
        remaining = []
        per_handler = [None] * len(s.handlers)
        for (name, rst, rnode, rpath) in sink:
            placed = False
            for i, names in enumerate(handled_names):
                if "*" in names or "Exception" in names or "BaseException" in names or name in names:
                    per_handler[i] = self.join_states(per_handler[i], rst)
                    placed = True
                    break
            if not placed:
                remaining.append((name, rst, rnode, rpath))
        self.raise_sinks[-1].extend(remaining)
        for i, h in enumerate(s.handlers):
            # a library call anywhere in the body may raise: handler may start from pre or post state
            hst = self.join_states(per_handler[i], self.copy_state(pre))
            if out is not None:
                hst = self.join_states(hst, self.copy_state(out))
            if h.name:
                hst.env[h.name] = Val(kind="exc")
            hout = self.exec_block(h.body, hst)
            results = self.join_states(results, hout) if (results is not None or hout is not None) else None
        if s.orelse and out is not None:
            # else runs only when no exception; already merged into results conservatively
            eo = self.exec_block(s.orelse, self.copy_state(out))
            results = self.join_states(results, eo)
        if s.finalbody and results is not None:
            results = self.exec_block(s.finalbody, results)
        return results

    def s_With(self, s, st):
        for item in s.items:
            v = self.ev(item.context_expr, st)
            if item.optional_vars is not None:
                self.assign(item.optional_vars, v, st, s)
        return self.exec_block(s.body, st)

    def s_FunctionDef(self, s, st):
        fr = self.frames[-1]
        fi = FuncInfo(s.name, s, fr.module, None, "nested")
        st.env[s.name] = Val(kind="closure", fn=fi, extra=("closure", st.env, fr.selfobj), dim=D0)
        return st

    def s_Import(self, s, st):
        for a in s.names:
            local = a.asname or a.name.split(".")[0]
            st.env[local] = Val(kind="ext", ext=a.name if a.asname else a.name.split(".")[0], dim=D0)
        return st

    def s_ImportFrom(self, s, st):
        for a in s.names:
            st.env[a.asname or a.name] = Val(kind="ext", ext=f"{s.module}.{a.name}", dim=D0)
        return st

    def s_Delete(self, s, st):
        for t in s.targets:
            if isinstance(t, ast.Attribute):
                base = self.ev(t.value, st)
                if base.obj is not None:
                    self.emit(st, "invalidate", s, loc=(base.obj.oid, t.attr))
            elif isinstance(t, ast.Subscript):
                base = self.ev(t.value, st)
                idx = self.ev_index(t.slice, st)
                self.write_inplace(base, "del", (t.slice, idx), vconst(None), st, s)
            elif isinstance(t, ast.Name):
                st.env.pop(t.id, None)
        return st

    def s_Global(self, s, st):
        return st

    s_Nonlocal = s_Global

    # ------------------------------------------------------------------ assignment
    def assign(self, target, v: Val, st: St, node):
        if isinstance(target, ast.Name):
            st.env[target.id] = v
        elif isinstance(target, (ast.Tuple, ast.List)):
            n = len(target.elts)
            star = [i for i, e in enumerate(target.elts) if isinstance(e, ast.Starred)]
            if v.items is not None and len(v.items) == n and not star:
                for e, x in zip(target.elts, v.items):
                    self.assign(e, x, st, node)
            elif v.kind in ("arr", "unknown") and v.dim[0] == "COLS" and len(v.dim[1]) == n and not star:
                # unpacking one row of an array with column-wise dimensions (slope, intercept = lines[i])
                el = self.element_of(v, st, node)
                for e, c in zip(target.elts, v.dim[1]):
                    self.assign(e, el.copy(dim=D(c) if c is not None else ANY), st, node)
            else:
                el = self.element_of(v, st, node)
                if "where" in v.tags and n >= 2:
                    el = el.copy(tags=el.tags | {"dup-index"})
                for e in target.elts:
                    if isinstance(e, ast.Starred):
                        self.assign(e.value, Val(kind="list", elem=el, dim=el.dim, deps=el.deps, al=el.al), st, node)
                    else:
                        self.assign(e, el, st, node)
        elif isinstance(target, ast.Attribute):
            base = self.ev(target.value, st)
            if base.obj is not None:
                prop = self.index.effective_prop(base.obj.cls, target.attr)
                if prop is not None:
                    self.write_prop(base, prop, target.attr, v, st, node)
                else:
                    self.write_field(base, target.attr, v, st, node)
            elif base.kind == "class" or base.kind == "obj":
                pass
            else:
                # e.g. sorted_ij_pairs.flags.writeable = False ; script.text = ' '
                pass
        elif isinstance(target, ast.Subscript):
            base = self.ev(target.value, st)
            idx = self.ev_index(target.slice, st)
            if base.kind == "objdict" and base.base is not None and base.base.obj is not None:
                # self.__dict__["x"] = v  is a field write
                key = idx.const if (idx.has_const() and isinstance(idx.const, str)) else "*"
                self.emit(st, "write", node, loc=(base.base.obj.oid, key), objcls=base.base.obj.cls, mode="rebind", op="set",
                          sub=None, rhs=v, cur=None, result=v)
                return
            if "maybe-int" in base.tags and base.kind == "arr" and isinstance(target.value, ast.Name) and isinstance(node, ast.Assign) \
                    and self.floaty_expr(node.value) and "maybe-int" not in v.tags:
                self.emit(st, "int-inplace", node, op="store", rhs=v, target=target.value.id, cur=base)
            self.write_inplace(base, "set", (target.slice, idx), v, st, node)
            if "dup-index" in idx.tags:
                self.emit(st, "scatter-dup", node, index=idx, value=v, target=ast.unparse(target.value))
            if isinstance(target.value, ast.Name) and not base.al:
                self.emit(st, "local-store", node, name=target.value.id, value=v, index=idx, base=base)
            if isinstance(target.value, ast.Name) and target.value.id not in st.env and not self._in_closure(target.value.id):
                self.emit(st, "global-write", node, name=target.value.id, rhs=v)
            # a container of an enclosing function (memo dict of a closure): remember what was stored there as well
            if isinstance(target.value, ast.Name) and target.value.id not in st.env and self._in_closure(target.value.id):
                for cenv in self.frames[-1].closure_env:
                    if target.value.id in cenv:
                        ccur = cenv[target.value.id]
                        if not ccur.al and ccur.kind in ("dict", "list", "set"):
                            cenv[target.value.id] = ccur.copy(deps=ccur.deps | v.deps, pdeps=ccur.pdeps | v.pdeps, elem=join_vals(ccur.elem, v),
                                                              mapping=None, items=None if ccur.kind == "list" else ccur.items)
                        break
            # local containers: remember what was stored
            if isinstance(target.value, ast.Name) and target.value.id in st.env:
                cur = st.env[target.value.id]
                if not cur.al and cur.kind in ("dict", "list", "set"):
                    newel = join_vals(cur.elem, v)
                    mapping = cur.mapping
                    if cur.kind == "dict" and idx.has_const() and isinstance(idx.const, str):
                        if mapping is not None:              # (an unknown key set stays unknown)
                            mapping = dict(mapping)
                            mapping[idx.const] = v
                    elif cur.kind == "dict":
                        mapping = None
                    st.env[target.value.id] = cur.copy(deps=cur.deps | v.deps, pdeps=cur.pdeps | v.pdeps, elem=newel,
                                                       mapping=mapping, items=None if cur.kind == "list" else cur.items)
                elif not cur.al:
                    colsel = self.np.column_store(cur, idx, v)
                    if colsel is not None:
                        d, conflict = colsel
                        if conflict:
                            self.dimconflict(st, node, cur, v, "store into column")
                    elif self._is_reshape_index(idx) and not any(i.kind == "none" for i in (idx.items if idx.kind == "indextuple" else (idx,))):
                        # x[:] = v / x[...] = v overwrites every element: the buffer now holds v (a buffer may be reused)
                        d = v.dim
                    else:
                        d, conflict = dim_unify(cur.dim, v.dim)
                        if conflict and dim_known(dim_collapse(cur.dim)) and dim_known(dim_collapse(v.dim)):
                            first_ = idx.items[0] if (idx.kind == "indextuple" and idx.items) else idx
                            fixed_row = (first_.has_const() and isinstance(first_.const, int) and not isinstance(first_.const, bool)) or (
                                first_.kind == "slice" and first_.extra is not None and first_.extra.step is None
                                and not (first_.extra.lower is None and first_.extra.upper is None)
                                and all(b_ is None or isinstance(b_, ast.Constant) or (isinstance(b_, ast.UnaryOp) and isinstance(b_.operand, ast.Constant))
                                        for b_ in (first_.extra.lower, first_.extra.upper)))
                            second_ = idx.items[1] if (idx.kind == "indextuple" and len(idx.items) == 2) else None
                            fixed_col = second_ is not None and first_.kind == "slice" and first_.extra is not None and first_.extra.lower is None \
                                and first_.extra.upper is None and (
                                    (second_.has_const() and isinstance(second_.const, int)) or (second_.kind == "slice" and second_.extra is not None and all(
                                        b_ is None or isinstance(b_, ast.Constant) for b_ in (second_.extra.lower, second_.extra.upper))))
                            if fixed_row or fixed_col:
                                # a block of rows at a fixed position gets a quantity of another kind than the other rows (the plane
                                # constraint under the vertex equations of a linear system): a heterogeneous table, never a report
                                d = TOP
                            else:
                                self.dimconflict(st, node, cur, v, "store into array")
                                d = cur.dim
                    newel = join_vals(cur.elem, v) if cur.kind in ("list", "dict") else cur.elem
                    mapping = cur.mapping
                    if cur.kind == "dict" and idx.has_const() and isinstance(idx.const, str):
                        if mapping is not None:
                            mapping = dict(mapping)
                            mapping[idx.const] = v
                    elif cur.kind == "dict":
                        mapping = None
                    st.env[target.value.id] = cur.copy(dim=d if cur.dim != TOP or cur.kind in ("arr",) else cur.dim,
                                                       deps=cur.deps | v.deps, pdeps=cur.pdeps | v.pdeps,
                                                       elem=newel, mapping=mapping)
        elif isinstance(target, ast.Starred):
            self.assign(target.value, v, st, node)

    def _in_closure(self, name):
        fr = self.frames[-1]
        if fr.closure_env is not None:
            return any(name in env for env in fr.closure_env)
        return False

    def write_field(self, base: Val, attr, v: Val, st, node):
        obj = base.obj
        if v.obj is not None and v.obj.oid.startswith("new#"):
            # composite: the fresh object becomes part of this object
            pass
        sh = st.comp.get("__shallow")
        if sh and obj.oid in sh:
            sh[obj.oid] = (sh[obj.oid][0], sh[obj.oid][1] | {attr})
        if ATTR.get(attr, (None, None))[1] in ("float", "int"):
            self._symstore(st)[(obj.oid, attr)] = v.sym
        ev_ = self.emit(st, "write", node, loc=(obj.oid, attr), objcls=obj.cls, mode="rebind", op="set", sub=None,
                        rhs=v, cur=None, result=v)
        lz = st.comp.setdefault("__lazyval", {})
        from .components import _lazy_fill
        if not (v.has_const() and v.const is None) and _lazy_fill(self, ev_, attr):
            lz[(obj.oid, attr)] = v
        else:
            lz.pop((obj.oid, attr), None)

    def write_prop(self, base: Val, prop: PropInfo, attr, v: Val, st, node):
        if prop.setter is None:
            if prop.cached:
                self.emit(st, "write", node, loc=(base.obj.oid, attr), objcls=base.obj.cls, mode="rebind",
                          op="set", sub=None, rhs=v, cur=None, result=v)
            else:
                self.emit(st, "no-setter", node, obj=base.obj, attr=attr)
            return
        self.call_function(prop.setter, base, [v], {}, st, node, role=("setter", attr))

    # ------------------------------------------------------------------ expression evaluation
    def ev(self, node, st: St) -> Val:
        if node is None:
            return vconst(None)
        m = getattr(self, "e_" + type(node).__name__, None)
        if m is None:
            return Val()
        v = m(node, st)
        if v is None:
            v = Val()
        return v

    def e_Constant(self, n, st):
        return vconst(n.value, self.time)

    def e_Name(self, n, st):
        return self.load_name(n.id, st, n)

    def load_name(self, name, st, node) -> Val:
        if name in st.env:
            return st.env[name]
        fr = self.frames[-1]
        if fr.closure_env is not None:
            for env in fr.closure_env:
                if name in env:
                    return env[name]
        r = self.index.resolve_name(fr.module, name)
        if r is not None:
            return self.global_val(r, name)
        if name in BUILTIN_NAMES:
            return Val(kind="ext", ext=f"builtins.{name}", dim=D0)
        self.unresolved.add(f"{fr.module.name}:{name}")
        return Val()

    def global_val(self, r, name):
        if isinstance(r, ClassInfo):
            return Val(kind="class", extra=r, dim=D0, name=r.name)
        if isinstance(r, FuncInfo):
            return Val(kind="func", fn=r, dim=D0)
        if isinstance(r, ModuleInfo):
            return Val(kind="module", extra=r, dim=D0)
        if isinstance(r, tuple) and r[0] == "ext":
            c = self.np.ext_constant(self.np.canonical(r[1]))
            if c is not None:
                return c
            return Val(kind="ext", ext=r[1], dim=D0)
        if isinstance(r, tuple) and r[0] == "const":
            return self.eval_module_const(r[1], r[2], name)
        return Val()

    def eval_module_const(self, node, module: ModuleInfo, name):
        try:
            c = ast.literal_eval(node)
        except Exception:
            c = NOCONST
        if c is not NOCONST:
            if isinstance(c, dict):
                return Val(kind="dict", const=c, dim=D0, mapping={k: vconst(v) if not isinstance(v, (list, dict)) else Val(const=v, kind="list") for k, v in c.items()}, name=name)
            if isinstance(c, (int, float, str, bool)) or c is None:
                v = vconst(c)
                v.name = name
                v.tags = frozenset(["modconst"])
                return v
            if isinstance(c, (tuple, list)) and len(c) <= 32:
                def _cv(x, d=0):
                    if isinstance(x, (tuple, list)) and d < 3 and len(x) <= 32:
                        return Val(kind="tuple" if isinstance(x, tuple) else "list", const=x, dim=D0, items=tuple(_cv(y, d + 1) for y in x))
                    return vconst(x) if (isinstance(x, (int, float, str, bool)) or x is None) else Val(const=x, kind="other", dim=D0)
                v = _cv(c)
                v.name = name
                return v
            return Val(const=c, kind="other", dim=D0, name=name)
        # evaluate in a throw-away frame of that module
        fi = FuncInfo(f"<const {name}>", ast.parse("def _f(): pass").body[0], module, None, "function")
        self.frames.append(Frame(fi, module, None))
        try:
            v = self.ev(node, St({}, {c.name: c.init(self) for c in self.components}))
        finally:
            self.frames.pop()
        v = v.copy(name=name)
        return v

    def e_Attribute(self, n, st):
        base = self.ev(n.value, st)
        return self.getattr_val(base, n.attr, st, n)

    def getattr_val(self, base: Val, attr, st, node) -> Val:
        if base.kind == "ext":
            ext = self.np.canonical(f"{base.ext}.{attr}")
            c = self.np.ext_constant(ext)
            if c is not None:
                return c
            return Val(kind="ext", ext=ext, dim=D0)
        if base.kind == "module":
            r = self.index.resolve_name(base.extra, attr)
            if r is None:
                return Val()
            return self.global_val(r, attr)
        if base.kind == "super":
            cls, selfv = base.extra
            if selfv is None or selfv.obj is None:
                # super() inside a classmethod / staticmethod: resolve against the defining class
                for c in (cls.mro[1:] if cls is not None else []):
                    if attr in c.methods:
                        return Val(kind="bound", fn=c.methods[attr], base=Val(kind="class", extra=cls, dim=D0), dim=D0)
                return Val()
            start = selfv.obj.cls.mro.index(cls) + 1 if cls in selfv.obj.cls.mro else 1
            for c in selfv.obj.cls.mro[start:]:
                if attr in c.methods:
                    return Val(kind="bound", fn=c.methods[attr], base=selfv, dim=D0)
                if attr in c.props and c.props[attr].getter is not None:
                    return self.call_function(c.props[attr].getter, selfv, [], {}, st, node, role=("getter", attr))
            return Val()
        if base.kind == "class":
            cls = base.extra
            if attr == "__name__":
                return Val(kind="str", dim=D0, const=cls.name)
            m = cls.lookup(attr) if isinstance(cls, ClassInfo) else None
            if isinstance(m, FuncInfo):
                return Val(kind="bound", fn=m, base=base, dim=D0)
            if isinstance(m, tuple) and m[0] == "classattr":
                fi = FuncInfo(f"<classattr {attr}>", ast.parse("def _f(): pass").body[0], m[2].module, m[2], "function")
                self.frames.append(Frame(fi, m[2].module, None))
                try:
                    env = {}
                    # class-level names visible while evaluating a class attribute
                    for k, vnode in m[2].class_attrs.items():
                        if k == attr:
                            break
                        env[k] = self.ev(vnode, St(env, st.comp))
                    v = self.ev(m[1], St(env, st.comp))
                finally:
                    self.frames.pop()
                if v.kind in ("dict", "list", "set"):
                    # a mutable container defined in the class body is one object shared by every instance
                    return v.copy(name=attr, al=frozenset([(f"class:{m[2].name}", attr)]))
                return v.copy(name=attr)
            return Val()
        if base.obj is not None:
            return self.obj_attr(base, attr, st, node)
        if base.kind == "hull":
            return self.np.hull_attr(self, base, attr)
        if base.kind == "classobj":
            if attr == "__name__":
                return Val(kind="str", dim=D0)
            return Val()
        # array / container attributes
        return self.np.value_attr(self, base, attr, st, node)

    def obj_attr(self, base: Val, attr, st, node) -> Val:
        obj = base.obj
        if attr == "__class__":
            return Val(kind="classobj", extra=obj.cls, dim=D0)
        if attr == "__dict__":
            return Val(kind="objdict", base=base, dim=D0)
        prop = self.index.effective_prop(obj.cls, attr)
        if prop is not None:
            return self.read_prop(base, prop, st, node)
        m = obj.cls.lookup(attr)
        if isinstance(m, FuncInfo):
            return Val(kind="bound", fn=m, base=base, dim=D0)
        if isinstance(m, tuple) and m[0] == "classattr":
            if attr not in self._rebound_attrs(obj.cls):
                return self.getattr_val(Val(kind="class", extra=obj.cls, dim=D0), attr, st, node)
            # a class-level default (`_x = None`) shadowed by an instance attribute stored somewhere in the hierarchy
        return self.read_field(base, attr, st, node)

    def _rebound_attrs(self, cls):
        """attributes rebound on the instance (`self.x = ...`) somewhere in the hierarchy: they shadow a class-level default.
        (`self.x[k] = v` mutates the class-level object itself and does not shadow it.)"""
        cache = self.index.__dict__.setdefault("_rebound_attrs", {})
        if cls.name not in cache:
            out = set()
            for c in cls.mro:
                fns = list(c.methods.values()) + [x for p in c.props.values() for x in (p.getter, p.setter) if x]
                for f in fns:
                    for n in ast.walk(f.node):
                        tgts = n.targets if isinstance(n, ast.Assign) else ([n.target] if isinstance(n, (ast.AugAssign, ast.AnnAssign)) else [])
                        for t in tgts:
                            for e in (t.elts if isinstance(t, (ast.Tuple, ast.List)) else [t]):
                                if isinstance(e, ast.Attribute) and isinstance(e.value, ast.Name) and e.value.id == "self":
                                    out.add(e.attr)
            cache[cls.name] = out
        return cache[cls.name]

    def read_prop(self, base: Val, prop: PropInfo, st, node) -> Val:
        if prop.getter is None:
            return Val()
        if prop.cached:
            self.emit(st, "read", node, loc=(base.obj.oid, prop.name), objcls=base.obj.cls, cached=True)
        v = self.call_function(prop.getter, base, [], {}, st, node, role=("getter", prop.name))
        if v.sym is None and not v.al and v.kind in ("float", "int", "unknown", "arr") and v.obj is None \
                and v.items is None and v.mapping is None:
            # opaque scalar: an atom named after the property (E4 treats it as one symbol)
            v = v.copy(sym=Poly.atom(f"getter<{base.obj.oid}.{prop.name}>"))
        return v

    def field_summary(self, cls, attr):
        store = self.index.__dict__.setdefault("_field_summaries", {})
        key = (cls.name, attr)
        if key in store:
            return store[key]
        store[key] = None          # while it is being computed (and for recursive reads): unknown
        sites = []
        for c in cls.mro:
            fns = list(c.methods.values()) + [x for p in c.props.values() for x in (p.getter, p.setter) if x]
            for f in fns:
                for n in ast.walk(f.node):
                    if isinstance(n, ast.Assign) and any(isinstance(t, ast.Attribute) and t.attr == attr and isinstance(t.value, ast.Name)
                                                         and t.value.id == "self" for t in n.targets):
                        if not (isinstance(n.value, ast.Constant) and n.value.value is None):
                            sites.append(f)
                            break
        acc = None
        for f in sites[:4]:
            try:
                sub = Interp(self.index, config=dict(self.config))
                r = sub.run_entry(f, cls)
            except (RecursionError, AnalysisError):
                continue
            for e in r["events"]:
                if e.type == "write" and e.loc == ("self", attr) and e.mode == "rebind" and e.rhs is not None \
                        and not (e.rhs.has_const() and e.rhs.const is None):
                    acc = join_vals(acc, e.rhs)
        store[key] = acc
        return acc

    def read_field(self, base: Val, attr, st, node) -> Val:
        obj = base.obj
        loc = (obj.oid, attr)
        self.emit(st, "read", node, loc=loc, objcls=obj.cls, cached=False)
        lzv = st.comp.get("__lazyval", {}).get(loc)
        if lzv is not None:
            return lzv.copy(al=lzv.al | ({loc} if lzv.kind not in ("float", "int", "bool") else set()), deps=lzv.deps | {loc})
        dim, kind = ATTR.get(attr, (TOP, "unknown"))
        comp = self.composite_of(obj.cls, attr)
        if comp is not None:
            return Val(kind="obj", obj=ObjRef(comp, f"{obj.oid}.{attr}"), al=frozenset([loc]), deps=frozenset([loc]), born=0)
        if attr not in ATTR:
            # an attribute the tables do not know (a memo, a lazily filled cache): field-based abstraction - it holds what
            # the class stores into it (join over the store sites, each evaluated in the function that contains it)
            summ = self.field_summary(obj.cls, attr)
            if summ is not None:
                return summ.copy(al=summ.al | {loc}, deps=summ.deps | {loc}, born=self.time, const=NOCONST)
        scalar = kind in ("float", "int", "bool")
        locs = [loc]
        sh = st.comp.get("__shallow")
        o = obj.oid
        while sh and o in sh and attr not in sh[o][1]:
            o = sh[o][0]
            locs.append((o, attr))
        v = Val(dim=dim, kind=kind, al=frozenset() if scalar else frozenset(locs), deps=frozenset(locs), born=self.time,
                tr=trans.TR_ATTR.get(attr))
        if attr == "_vertices":
            v.tags = v.tags | {("rows-of", "_vertices", 0)}      # number of rows relative to the vertex count
            v.tags = v.tags | {("shape-last", 3, 2)}             # every vertex array of the library is (n, 3)
        if attr == "_normal" and kind == "arr":
            v.tags = v.tags | {("shape-last", 3, 1)}
        if attr in self.config.get("maybe_int_attrs", ()):
            v.tags = v.tags | {"maybe-int"}          # stored as np.array(value) without dtype: integer input stays integer
        if attr in ("_vertices", "_centroid"):
            v.tags = v.tags | {"world3"}                          # coordinates in the world frame (not rotated into a plane)
        if kind == "float":
            ss = st.comp.get("__symstore", {})
            if loc in ss:
                v.sym = ss[loc]
            else:
                v.sym = Poly.atom(f"{obj.oid}.{attr}")
        return v

    # ---- subscripts
    def ev_index(self, sl, st) -> Val:
        if isinstance(sl, ast.Slice):
            for x in (sl.lower, sl.upper, sl.step):
                if x is not None:
                    self.ev(x, st)
            v = Val(kind="slice", dim=D0)
            v.extra = sl
            return v
        if isinstance(sl, ast.Tuple):
            items = tuple(self.ev_index(e, st) for e in sl.elts)
            return Val(kind="indextuple", items=items, dim=D0)
        return self.ev(sl, st)

    def e_Subscript(self, n, st):
        base = self.ev(n.value, st)
        idx = self.ev_index(n.slice, st)
        return self.subscript(base, idx, n, st)

    @staticmethod
    def _is_partial_index(idx: Val):
        """a slice with a literal bound (v[:, :2], v[1:], v[:-1]) somewhere in the index: a proper sub-array."""
        items = idx.items if idx.kind == "indextuple" else (idx,)
        for i in items:
            if i.kind == "slice" and i.extra is not None and (i.extra.lower is not None or i.extra.upper is not None):
                return True
        return False

    @staticmethod
    def _is_reshape_index(idx: Val):
        def one(i):
            if i.kind == "none" or (i.has_const() and (i.const is Ellipsis or i.const is None)):
                return True
            if i.kind == "slice" and i.extra is not None:
                sl = i.extra
                return sl.lower is None and sl.upper is None and sl.step is None
            return False
        items = idx.items if idx.kind == "indextuple" else (idx,)
        return bool(items) and all(one(i) for i in items)

    @staticmethod
    def _is_view_index(idx: Val):
        """basic indexing (view) vs fancy (copy)."""
        if idx.kind == "slice":
            return True
        if idx.kind in ("int",):
            return True
        if idx.kind == "none" or (idx.has_const() and idx.const is Ellipsis):
            return True
        if idx.kind == "indextuple":
            return all(Interp._is_view_index(i) for i in idx.items)
        return False

    def subscript(self, base: Val, idx: Val, node, st) -> Val:
        self._rawuse(st, node, base)
        out = self._subscript(base, idx, node, st)
        if base.al and out is not base and not out.has_const() and any(o != "param" for (o, _a) in base.al) and self._is_partial_index(idx):
            # a proper part (some rows / columns) of a state array: pseudo-dependence that travels with the value (REPR-4)
            out = out.copy(deps=out.deps | {("subset", a_) for (o_, a_) in base.al if o_ != "param"})
        if out is not base and not out.has_const() and base.kind in ("arr", "unknown"):
            # x[:-1] / x[1:] along the first axis: head and tail of an open chain (consecutive pairs without the wrap-around)
            first = idx.items[0] if (idx.kind == "indextuple" and idx.items) else idx
            if first.kind == "slice" and first.extra is not None and first.extra.step is None:
                lo_, hi_ = first.extra.lower, first.extra.upper
                try:
                    lo_v = ast.literal_eval(lo_) if lo_ is not None else None
                    hi_v = ast.literal_eval(hi_) if hi_ is not None else None
                except Exception:
                    lo_v = hi_v = "?"
                which = "head" if (lo_v is None and hi_v == -1) else ("tail" if (lo_v == 1 and hi_v is None) else None)
                if which:
                    out = out.copy(tags=out.tags | {("chain", self.val_id(base), which)})
                rest_full = idx.kind != "indextuple" or all(i_.kind == "slice" and i_.extra is not None and i_.extra.lower is None
                                                            and i_.extra.upper is None and i_.extra.step is None for i_ in idx.items[1:])
                if rest_full and (lo_v is None or isinstance(lo_v, int)) and (hi_v is None or isinstance(hi_v, int)) and not (lo_v is None and hi_v is None):
                    # x[k:] / x[:k]: a block of consecutive rows (np.concatenate((x[k:], x[:k])) is the rotation np.roll(x, -k))
                    bid = ("al",) + tuple(sorted(base.al)) if base.al else self.val_id(base)     # (two reads of one state array are one base)
                    self._slice_bases = getattr(self, "_slice_bases", {})
                    self._slice_bases[bid] = base
                    out = out.copy(tags=out.tags | {("rowslice", bid, lo_v, hi_v)})
        if "hull" in base.tags and out is not base and not out.has_const() and "hull" not in out.tags:
            out = out.copy(tags=out.tags | {"hull"})        # rows / slices of qhull's own output keep that provenance
        if out is not base and getattr(out, "tr", None) is None and base.kind in ("arr", "unknown", "idx", "float") and not out.has_const():
            t_ = trans.subscript(base, idx)
            if t_ is not None:
                out = out.copy(tr=t_)
        if "batch" in base.tags or "batch" in idx.tags:
            first = idx.items[0] if (idx.kind == "indextuple" and idx.items) else idx
            if first.kind != "int" and not (first.has_const() and isinstance(first.const, int)):
                out = out.copy(tags=out.tags | {"batch"})
                k = baxis_of(base)
                if k is not None:
                    # where does the batch axis go?  None inserts an axis, an int removes one, a slice / mask keeps one
                    items = idx.items if idx.kind == "indextuple" else (idx,)
                    pos, shift, known = 0, 0, True
                    for it_ in items:
                        if it_.kind == "none" or (it_.has_const() and it_.const is None):
                            if pos <= k:
                                shift += 1
                        elif it_.has_const() and it_.const is Ellipsis:
                            break
                        elif it_.kind == "int" or (it_.has_const() and isinstance(it_.const, int) and not isinstance(it_.const, bool)):
                            if pos == k:
                                known = False
                            elif pos < k:
                                shift -= 1
                            pos += 1
                        elif it_.kind == "slice":
                            pos += 1
                        else:
                            if pos <= k:
                                known = pos == k and it_.kind in ("arr", "bool")   # a mask / index array on the batch axis keeps its place
                            pos += 1
                            if not known:
                                break
                    if known:
                        out = out.copy(tags=out.tags | {("baxis", k + shift)})
        return out

    def _subscript(self, base: Val, idx: Val, node, st) -> Val:
        # x.shape[i]: the row count is a count of x (as len(x) is); a last axis of statically known size is that constant
        if base.kind == "tuple" and isinstance(base.extra, tuple) and len(base.extra) == 2 and base.extra[0] == "shape" \
                and idx.has_const() and isinstance(idx.const, int) and not isinstance(idx.const, bool) and base.elem is not None:
            src = base.extra[1]
            sl = self.np.shape_last(src)
            if sl and (idx.const == -1 or idx.const == sl[1] - 1):
                return Val(kind="int", dim=D0, const=sl[0], born=self.time)
            if idx.const == 0:
                return base.elem.copy(extra=("len", src), born=self.time)
        # containers with known items
        if base.items is not None and idx.has_const() and isinstance(idx.const, int) and not isinstance(idx.const, bool):
            try:
                return base.items[idx.const]
            except IndexError:
                return Val()
        if base.items is not None and idx.items is not None and idx.kind in ("list", "tuple") and idx.items \
                and all(i_.has_const() and isinstance(i_.const, int) and not isinstance(i_.const, bool) for i_ in idx.items):
            # fancy indexing of a small vector of known components by a literal index list: the selected components
            try:
                return base.copy(items=tuple(base.items[i_.const] for i_ in idx.items), const=NOCONST, al=frozenset(), born=self.time)
            except IndexError:
                return Val()
        if base.items is not None and idx.kind == "slice" and base.kind in ("tuple", "list"):
            sl = idx.extra
            try:
                lo = ast.literal_eval(sl.lower) if sl.lower is not None else None
                hi = ast.literal_eval(sl.upper) if sl.upper is not None else None
                stp = ast.literal_eval(sl.step) if sl.step is not None else None
                items = base.items[slice(lo, hi, stp)]
                return base.copy(items=items, const=NOCONST)
            except Exception:
                pass
        if base.mapping is not None and idx.has_const() and idx.const in base.mapping:
            if "closed" in base.tags:
                self.emit(st, "key-read", node, key=idx.const, mapping=base)
            return base.mapping[idx.const]
        if base.mapping is not None and "closed" in base.tags and idx.has_const():
            self.emit(st, "key-missing", node, key=idx.const, mapping=base)
            self.emit(st, "raise", node, exc="KeyError")
            self.raise_sinks[-1].append(("KeyError", st, node, self.path()))
            raise AbortPath()
        if base.kind in ("dict",):
            e = base.elem if base.elem is not None else Val()
            # provenance of a lookup mapping[key] (KeyError for a missing key)
            tg = frozenset([("item-of", tuple(sorted(base.al)), self.val_id(idx))]) if base.al else frozenset()
            return e.copy(deps=e.deps | idx.deps | base.deps, pdeps=e.pdeps | idx.pdeps | base.pdeps, tags=e.tags | tg)
        if base.kind in ("list", "tuple", "set", "gen", "idxlist") and base.kind != "arr":
            if idx.kind == "slice":
                return base
            el = self.element_of(base, st, node)
            return el
        if base.kind == "str":
            return Val(kind="str", dim=D0)
        view = self._is_view_index(idx)
        dim = self.np.subscript_dim(base.dim, idx)
        kind = base.kind
        if base.kind == "idx":
            # element of an index array is an int when fully indexed by ints
            if idx.kind == "int" or (idx.kind == "indextuple" and all(i.kind == "int" for i in idx.items)):
                kind = "int" if base.tags and "1d" in base.tags else "idx"
        if base.kind in ("float", "int"):
            kind = base.kind
        tags = frozenset()
        # reversal  x[::-1]
        src = base.al
        if not src:
            for tg in base.tags:
                if isinstance(tg, tuple) and tg[0] == "copy-of":
                    src = frozenset(tg[1])
        if self._is_reverse_index(idx):
            tags = tags | {("reverse-of",) + tuple(sorted(src))} if src else tags | {("reversed",)}
        elif not view and src and "perm" in idx.tags:
            tags = tags | {("reorder-of", tuple(sorted(src)), tuple(sorted(idx.deps)))}
        elif not view and src:
            tags = tags | {("copy-of", tuple(sorted(src)))}
        rowperm = (not view) and ("perm" in idx.tags or any("perm" in i_.tags for i_ in (idx.items or ())))
        if "maybe-int" in base.tags and kind == "arr":
            tags = tags | {"maybe-int"}
        for tg in base.tags:
            if isinstance(tg, tuple) and tg[0] == "rows-of":
                first = idx.items[0] if (idx.kind == "indextuple" and idx.items) else idx
                if first.kind == "slice" and first.extra is not None and first.extra.step is None:
                    try:
                        lo = ast.literal_eval(first.extra.lower) if first.extra.lower is not None else 0
                        hi = ast.literal_eval(first.extra.upper) if first.extra.upper is not None else None
                    except Exception:
                        lo = hi = "?"
                    if isinstance(lo, int) and lo >= 0 and (hi is None or (isinstance(hi, int) and hi < 0)):
                        tags = tags | {("rows-of", tg[1], tg[2] - lo + (hi or 0))}
        if "orth" in base.tags and "transposed" not in base.tags and kind in ("arr", "unknown"):
            # the first two rows of a rotation matrix R (images of the in-plane axes): `v2 @ R[:2]` applies the inverse rotation to
            # the in-plane part of a plane-frame vector only
            first_ = idx.items[0] if (idx.kind == "indextuple" and idx.items) else idx
            rest_ = idx.items[1:] if idx.kind == "indextuple" else ()
            if first_.kind == "slice" and first_.extra is not None and first_.extra.lower is None and first_.extra.step is None \
                    and isinstance(first_.extra.upper, ast.Constant) and first_.extra.upper.value == 2 \
                    and all(i_.kind == "slice" and i_.extra is not None and i_.extra.lower is None and i_.extra.upper is None for i_ in rest_):
                tags = tags | {"orth-rows2"}
        rg_ = self.np.ring_of(base)
        if rg_ is not None and kind in ("arr", "unknown"):
            first_ = idx.items[0] if (idx.kind == "indextuple" and idx.items) else idx
            full_ = first_.kind == "slice" and first_.extra is not None and first_.extra.lower is None and first_.extra.upper is None \
                and first_.extra.step is None
            if full_:
                tags = frozenset(t_ for t_ in tags if not (isinstance(t_, tuple) and t_ and t_[0] == "ring")) | (
                    {self.np.RING_POISON} if rg_ == self.np.RING_POISON else {("ring", rg_)})
            elif [t_ for t_ in first_.tags if isinstance(t_, tuple) and t_ and t_[0] == "ringidx"] and rg_ != self.np.RING_POISON:
                k_ = [t_ for t_ in first_.tags if isinstance(t_, tuple) and t_ and t_[0] == "ringidx"][0][1]
                tags = frozenset(t_ for t_ in tags if not (isinstance(t_, tuple) and t_ and t_[0] == "ring")) | {("ring", frozenset(o_ + k_ for o_ in rg_))}
            elif first_.kind in ("slice", "idx", "idxlist", "arr", "unknown", "list"):
                tags = tags | {self.np.RING_POISON}           # a selection / reordering of the rows: no longer aligned with the ring
        sl_ = self.np.shape_last(base)
        if sl_ and sl_[1] == 2 and kind in ("arr", "unknown"):
            if idx.kind == "slice" or idx.kind in ("idx", "idxlist"):
                tags = tags | {("shape-last", sl_[0], 2)}            # a selection of rows
            elif idx.kind == "int":
                tags = tags | {("shape-last", sl_[0], 1)}            # one row
        point_like = any(isinstance(t_, tuple) and t_[0] == "getter-of" and t_[1] in ("centroid", "center") for t_ in base.tags) \
            or (base.al and all(loc_[1] == "_centroid" for loc_ in base.al))
        if point_like and idx.kind in ("slice", "int") and kind in ("arr", "unknown", "float"):
            # a single world-frame point: c[:2], c[0] select fixed world coordinates
            if idx.kind == "int" and idx.has_const():
                self.emit(st, "world-column", node, base=base, index=idx)
            elif idx.kind == "slice" and idx.extra is not None and (idx.extra.lower is not None or idx.extra.upper is not None) \
                    and all(x is None or isinstance(x, ast.Constant) for x in (idx.extra.lower, idx.extra.upper)):
                self.emit(st, "world-column", node, base=base, index=idx)
        if "world3" in base.tags and kind in ("arr", "unknown", "float"):
            items_ = idx.items if idx.kind == "indextuple" else None
            last_ = items_[-1] if items_ and len(items_) >= 2 else None
            col_const = False
            if last_ is not None:
                if last_.has_const() and isinstance(last_.const, int) and not isinstance(last_.const, bool):
                    col_const = True
                elif last_.kind == "slice" and last_.extra is not None and (last_.extra.lower is not None or last_.extra.upper is not None):
                    col_const = all(x is None or isinstance(x, ast.Constant) for x in (last_.extra.lower, last_.extra.upper))
            if col_const:
                self.emit(st, "world-column", node, base=base, index=idx)
            elif last_ is None or (last_.kind == "slice" and last_.extra is not None and last_.extra.lower is None and last_.extra.upper is None) \
                    or last_.kind == "none":
                tags = tags | {"world3"}       # rows selected / reshaped: still world-frame coordinates
        if self._is_reshape_index(idx):
            # x[None, :], x[np.newaxis], x[...]: the same values with another shape
            tags = tags | frozenset(t for t in base.tags if isinstance(t, tuple) and t[0] in ("getter-of", "saved-centroid", "val-of"))
        first_ = idx.items[0] if (idx.kind == "indextuple" and idx.items) else None
        if first_ is not None and first_.kind == "slice" and first_.extra is not None and first_.extra.lower is None \
                and first_.extra.upper is None and first_.extra.step is None:
            # x[:, cols]: every row is kept, in the same order
            tags = tags | frozenset(t for t in base.tags if isinstance(t, tuple) and t and t[0] == "roll-given")
        tags = tags | frozenset(t for t in base.tags if t in (("ret", "<neighbour-diff>"), ("ret", "<open-chain>")))
        v = Val(dim=dim, kind=kind, al=base.al if view else frozenset(), deps=base.deps | idx.deps,
                pdeps=base.pdeps | idx.pdeps, tags=tags, born=base.born if view else self.time)
        if rowperm:
            v.deps = v.deps | {("rowperm", "*")}       # rows reordered by a sort permutation (see npmodel._given_order)
        if view and base.kind == "arr":
            v.extra = ("view", base.extra)
            if idx.has_const() and isinstance(idx.const, int) and not isinstance(idx.const, bool) and len(base.al) == 1 \
                    and not (base.extra and isinstance(base.extra, tuple) and base.extra[0] == "view"):
                (o, a), = tuple(base.al)
                if o != "param":
                    v.sym = Poly.atom(f"{o}.{a}[{idx.const}]")
                    v.kind = "float"
        return v

    @staticmethod
    def _is_reverse_index(idx: Val):
        def rev(i):
            if i.kind == "slice" and i.extra is not None and i.extra.step is not None:
                try:
                    return ast.literal_eval(i.extra.step) == -1 and i.extra.lower is None and i.extra.upper is None
                except Exception:
                    return False
            return False
        if rev(idx):
            return True
        if idx.kind == "indextuple":
            return any(rev(i) for i in idx.items)
        return False

    def element_of(self, it: Val, st, node) -> Val:
        if it.items is not None and len(it.items) > 0:
            r = None
            for i in it.items:
                r = join_vals(r, i)
            return r
        if it.elem is not None:
            return it.elem
        if it.kind == "idxlist":
            return Val(dim=D0, kind="idx", al=it.al, deps=it.deps, pdeps=it.pdeps, tags=frozenset(["1d"]), born=it.born)
        if it.kind == "idx":
            k = "int" if ("1d" in it.tags) else "idx"
            keep = frozenset(t for t in it.tags if t == "where-index" or (isinstance(t, tuple) and t and t[0] == "index-from"))
            return Val(dim=D0, kind=k, al=it.al if k == "idx" else frozenset(), deps=it.deps, pdeps=it.pdeps,
                       tags=(frozenset(["1d"]) if k == "idx" else frozenset()) | keep, born=it.born)
        if it.kind == "arr":
            d = it.dim
            if d[0] == "COLS" and d[2] >= 1:
                d = ("COLS", d[1], d[2] - 1)
            return Val(dim=d, kind="arr", al=it.al, deps=it.deps, pdeps=it.pdeps, born=it.born)
        if it.kind == "dict":
            return Val(kind="str", dim=D0)
        if it.kind == "str":
            return Val(kind="str", dim=D0)
        return Val(dim=it.dim if it.dim != ANY else ANY, al=it.al, deps=it.deps, pdeps=it.pdeps, born=it.born,
                   kind="other" if it.kind in ("list", "tuple") else "unknown")

    # ---- operators
    def dimconflict(self, st, node, a: Val, b: Val, what):
        self.emit(st, "dimconflict", node, a=a, b=b, what=what)

    def e_BinOp(self, n, st):
        l = self.ev(n.left, st)
        r = self.ev(n.right, st)
        return self.binop(n.op, l, r, st, n)

    def _rawuse(self, st, node, *vals):
        for v in vals:
            if v is not None and "param-root" in v.tags and v.kind in ("arr", "unknown"):
                self.emit(st, "rawuse", node, param=next(iter(v.al))[1] if v.al else "?", value=v)

    def binop(self, op, l: Val, r: Val, st, node) -> Val:
        self._rawuse(st, node, l, r)
        if isinstance(op, ast.Sub) and l.kind in ("arr", "unknown") and r.kind in ("arr", "unknown") and l.deps:
            self.emit(st, "sub", node, left=l, right=r)
        if isinstance(op, ast.MatMult):
            # `a @ b` is np.matmul(a, b): one model for both spellings (events, frame tags, degrees)
            return self.np.call_ext(self, "numpy.matmul", node, [l, r], {}, st)
        if isinstance(op, ast.Mod) and (l.kind in ("arr", "unknown") or r.kind in ("arr", "unknown")) and not l.kind == "str":
            return self.np.call_ext(self, "numpy.mod", node, [l, r], {}, st)
        out = self._binop(op, l, r, st, node)
        if out.tr is None and not out.has_const():
            out.tr = trans.binop(op, l, r)
        if out.kind in ("arr", "unknown") and isinstance(op, (ast.Add, ast.Sub, ast.Mult, ast.Div)) and self.np.shape_last(out) is None:
            sl_ = self.np.broadcast_last(l, r)
            if sl_:
                out.tags = out.tags | {("shape-last", sl_[0], sl_[1])}
        if isinstance(op, ast.Mult) and out.kind in ("arr", "unknown"):
            for a_, b_ in ((l, r), (r, l)):
                if (a_.kind in ("float", "int") or any(t_ in a_.tags for t_ in (("ret", "numpy.dot"), ("ret", "numpy.inner"), ("ret", "numpy.vdot")))) \
                        and b_.kind in ("arr", "unknown") and (
                        "along-normal" in b_.tags or (b_.al and all(loc_[1] == "_normal" for loc_ in b_.al))
                        or any(isinstance(t_, tuple) and t_[:2] == ("getter", "normal") for t_ in b_.tags)):
                    out.tags = out.tags | {"along-normal"}        # a multiple of the plane's normal
        if isinstance(op, (ast.Add, ast.Sub)) and self.np.PLANE_OFFSET_DROPPED in out.deps and ("along-normal" in l.tags or "along-normal" in r.tags):
            out.deps = out.deps - {self.np.PLANE_OFFSET_DROPPED}      # the component along the normal is put back
        if out.kind in ("arr", "unknown"):
            ru_ = self.np.ring_union([l, r])
            if ru_ is not None:
                self.np.with_ring(out, ru_)
                if isinstance(op, ast.Div) and ru_ != self.np.RING_POISON:
                    rn_, rd_ = self.np.ring_of(l), self.np.ring_of(r)
                    if rn_ and rd_:
                        out.tags = out.tags | {("quot-rings", rn_, rd_)}
        if isinstance(op, (ast.Add, ast.Sub)) and ("polar-angle" in l.tags or "polar-angle" in r.tags) and out.kind in ("arr", "unknown", "float"):
            out.tags = out.tags | {"polar-angle"}
        rl = {t for t in l.tags if isinstance(t, tuple) and t[0] == "rows-of"}
        rr = {t for t in r.tags if isinstance(t, tuple) and t[0] == "rows-of"}
        ol_, or__ = order_of(l), order_of(r)
        if ol_ and or__ and ol_ != or__ and l.kind in ("arr", "list", "unknown") and r.kind in ("arr", "list", "unknown"):
            self.emit(st, "order-mismatch", node, left=l, right=r, orders=(ol_, or__))
        elif (ol_ or or__) and out.kind in ("arr", "unknown"):
            out.tags = out.tags | {("order", ol_ or or__)}
        if isinstance(op, ast.Div) and "norm" in r.tags and r.kind in ("float", "arr") and l.kind in ("arr", "unknown") \
                and (r.deps or r.pdeps) and {d for d in r.deps if d[0] != "call"} <= l.deps and r.pdeps <= l.pdeps:
            out.tags = out.tags | {"unit"}        # x / |x|: a unit vector
        if isinstance(op, ast.Mult) and (("unit" in l.tags and r.is_number_const() and abs(r.const) == 1)
                                         or ("unit" in r.tags and l.is_number_const() and abs(l.const) == 1)):
            out.tags = out.tags | {"unit"}
        if isinstance(op, (ast.Add, ast.Sub)) and ("world3" in l.tags or "world3" in r.tags) and out.kind in ("arr", "unknown"):
            out.tags = out.tags | {"world3"}
        if isinstance(op, (ast.Mult, ast.Div)) and "world3" in l.tags and "world3" not in r.tags and "orth" not in r.tags and out.kind in ("arr", "unknown") \
                and (r.kind in ("float", "int") or "norm" in r.tags or isinstance(op, ast.Div)):
            out.tags = out.tags | {"world3"}            # a world-frame vector scaled (normalised) is a world-frame vector
        if (rl or rr) and out.kind == "arr" and (not rl or not rr or rl == rr):
            out.tags = out.tags | (rl or rr)      # elementwise arithmetic (broadcast against a row / scalar) keeps the row count
        bt = batch_tag(l, r)
        if bt and out.kind not in ("str",):
            out.tags = out.tags | bt
        if isinstance(op, (ast.Mult, ast.Sub)):
            ch_l = {(t[1], t[2]) for t in l.tags if isinstance(t, tuple) and t and t[0] == "chain"}
            ch_r = {(t[1], t[2]) for t in r.tags if isinstance(t, tuple) and t and t[0] == "chain"}
            if any((i_, "tail" if w_ == "head" else "head") in ch_r for (i_, w_) in ch_l):
                out.tags = out.tags | {("ret", "<open-chain>")}      # pairs (x_i, x_{i+1}) for i < N-1 only
        if isinstance(op, ast.Mult) and isinstance(node, ast.BinOp) and ast.dump(node.left) == ast.dump(node.right) and out.kind in ("arr", "unknown"):
            out.tags = out.tags | {"square-of"}
        if isinstance(op, ast.Pow) and r.is_number_const() and r.const == 2 and out.kind in ("arr", "unknown"):
            out.tags = out.tags | {"square-of"}
        if isinstance(op, ast.Mod):
            ri_ = [t_ for t_ in l.tags if isinstance(t_, tuple) and t_ and t_[0] == "ringidx"]
            if ri_:
                out.tags = out.tags | {ri_[0]}                  # (i + k) % n
        if isinstance(op, (ast.Add, ast.Sub)):
            for a_, b_, sg_ in ((l, r, 1), (r, l, 1 if isinstance(op, ast.Add) else None)):
                ri_ = [t_ for t_ in a_.tags if isinstance(t_, tuple) and t_ and t_[0] == "ringidx"]
                if ri_ and sg_ is not None and b_.is_number_const() and isinstance(b_.const, int) and not isinstance(b_.const, bool):
                    k_ = ri_[0][1] + (b_.const if (isinstance(op, ast.Add) or a_ is r) else -b_.const)
                    out.tags = frozenset(t_ for t_ in out.tags if not (isinstance(t_, tuple) and t_ and t_[0] == "ringidx")) | {("ringidx", k_)}
                    break
        if isinstance(op, ast.Sub) and l.is_number_const() and isinstance(l.const, float) and abs(l.const - 3.141592653589793) < 1e-12:
            rg_r = [t_ for t_ in r.tags if isinstance(t_, tuple) and t_ and t_[0] == "range"]
            if rg_r:
                out.tags = out.tags | {("range", 2 - rg_r[0][2], 2 - rg_r[0][1])}      # pi - angle: the supplement (units of pi / 2)
        if isinstance(op, ast.Mult) and l is r and out.kind in ("arr", "unknown"):
            out.tags = out.tags | {"square-of"}                # x * x
        if isinstance(op, ast.Add) and out.kind in ("arr", "unknown") and (l.tags & {"square-of", "sumsq"}) and (r.tags & {"square-of", "sumsq"}):
            out.tags = out.tags | {"sumsq"}                    # a sum of squares, written out component by component
        if l.kind == "set" or r.kind == "set":
            out.tags = out.tags | ret_tags(l, r)        # set algebra keeps the provenance of its operands
        if l.kind in ("int", "float") and r.kind in ("int", "float") and out.kind in ("int", "float") and not out.has_const():
            out.tags = out.tags | ret_tags(l, r)      # arithmetic on counts keeps where the counts came from
        oc = {t for t in (l.tags | r.tags) if t in (("ret", "<open-chain>"), ("ret", "<neighbour-diff>"))}
        if oc and out.kind in ("arr", "unknown", "float"):
            out.tags = out.tags | oc
        if isinstance(op, ast.Sub):
            # x_{i+1} - x_i over the rows in the order given: a comparison of *consecutive* rows only
            for a_, b_ in ((l, r), (r, l)):
                rg = [t for t in a_.tags if isinstance(t, tuple) and t and t[0] == "roll-given"]
                if rg and rg[0][1] == tuple(sorted(b_.pdeps)) and \
                        {d_ for d_ in rg[0][2] if d_[0] != "subset"} == {d_ for d_ in b_.deps if d_[0] != "subset"}:
                    out.tags = out.tags | {("ret", "<neighbour-diff>")}
        return out

    def _binop(self, op, l: Val, r: Val, st, node) -> Val:
        now = self.time
        deps = l.deps | r.deps
        pdeps = l.pdeps | r.pdeps
        const = NOCONST
        if l.is_number_const() and r.is_number_const():
            try:
                const = {ast.Add: lambda a, b: a + b, ast.Sub: lambda a, b: a - b, ast.Mult: lambda a, b: a * b,
                         ast.Div: lambda a, b: a / b, ast.Pow: lambda a, b: a ** b, ast.FloorDiv: lambda a, b: a // b,
                         ast.Mod: lambda a, b: a % b}.get(type(op), lambda a, b: NOCONST)(l.const, r.const)
            except Exception:
                const = NOCONST
        kind = "arr" if "arr" in (l.kind, r.kind) else ("float" if {l.kind, r.kind} <= {"float", "int"} else
                                                         ("arr" if {l.kind, r.kind} & {"unknown", "other"} else "float"))
        if {l.kind, r.kind} == {"int"} and not isinstance(op, ast.Div):
            kind = "int"
        if l.kind in ("list", "tuple") and r.kind in ("list", "tuple") and isinstance(op, ast.Add):
            items = l.items + r.items if (l.items is not None and r.items is not None) else None
            return Val(kind=l.kind, dim=dim_unify(l.dim, r.dim)[0], deps=deps, pdeps=pdeps, items=items,
                       elem=join_vals(l.elem, r.elem), al=frozenset(), born=now)
        if l.kind == "list" and isinstance(op, ast.Mult) and r.kind == "int":
            return l.copy(items=None, elem=self.element_of(l, st, node), born=now, const=NOCONST)
        if l.kind == "str" or r.kind == "str":
            return Val(kind="str", dim=D0, deps=deps, pdeps=pdeps, born=now)
        # small vectors with known scalar components (np.array([a**2, b**2, c**2])): arithmetic is done component by component so
        # that closed-form rules see each entry
        def _vec(v_):
            return v_.kind == "arr" and v_.items is not None and 0 < len(v_.items) <= 6 and all(i_.kind in ("float", "int") for i_ in v_.items)
        if isinstance(op, (ast.Add, ast.Sub, ast.Mult, ast.Div)) and (_vec(l) or _vec(r)) and not getattr(self, "_in_vec", False):
            n_ = len(l.items) if _vec(l) else len(r.items)
            if (_vec(l) and _vec(r) and len(l.items) == len(r.items)) or (_vec(l) and r.kind in ("float", "int") and r.items is None) \
                    or (_vec(r) and l.kind in ("float", "int") and l.items is None):
                self._in_vec = True
                try:
                    its = tuple(self._binop(op, l.items[i] if _vec(l) else l, r.items[i] if _vec(r) else r, st, node) for i in range(n_))
                finally:
                    self._in_vec = False
                d_ = ANY
                for i_ in its:
                    d_, _c = dim_unify(d_, i_.dim)
                return Val(kind="arr", dim=d_, deps=deps, pdeps=pdeps, items=its, born=now)
        sym = None
        guardp = frozenset()
        if isinstance(op, (ast.Add, ast.Sub)):
            dim = self._unify_additive(l, r, st, node, "+" if isinstance(op, ast.Add) else "-")
            if l.sym is not None and r.sym is not None:
                sym = l.sym + r.sym if isinstance(op, ast.Add) else l.sym - r.sym
                if isinstance(op, ast.Sub) and len(l.sym.terms) >= 2 and not r.is_number_const():
                    # (s + x) - x: a summand of the minuend is the subtrahend - exact arithmetic cancels it, floating point does
                    # not when that summand dominates the rest
                    both = [m_ for m_, c_ in r.sym.terms.items() if m_ in l.sym.terms and (c_ > 0) == (l.sym.terms[m_] > 0) and m_]
                    if both and len(both) == len(r.sym.terms):
                        self.emit(st, "self-cancel", node, left=l, right=r, monomials=tuple(both), result=sym)
        elif isinstance(op, (ast.Mult, ast.MatMult)):
            dim = dim_mul(l.dim, r.dim)
            if isinstance(op, ast.MatMult):
                dim = dim_collapse(dim)
            if l.sym is not None and r.sym is not None:
                sym = l.sym * r.sym
            if not r.pdeps:
                guardp = l.guardp
            elif not l.pdeps:
                guardp = r.guardp
        elif isinstance(op, (ast.Div, ast.FloorDiv)):
            dim = dim_div(l.dim, r.dim)
            if l.sym is not None and r.sym is not None:
                sym = l.sym.div(r.sym)
            if not r.pdeps:
                guardp = l.guardp
            elif not l.pdeps:
                guardp = r.guardp
        elif isinstance(op, ast.Pow):
            e = None
            if r.sym is not None and r.sym.const_value() is not None:
                e = r.sym.const_value()
            elif r.is_number_const():
                e = Fraction(repr(r.const)) if isinstance(r.const, float) else Fraction(r.const)
            if e is not None:
                dim = dim_pow(l.dim, e)
                if l.sym is not None:
                    sym = l.sym.pow(e)
                if not (e.denominator == 1 and e.numerator % 2 == 0):
                    guardp = l.guardp
            else:
                ld = dim_collapse(l.dim)
                dim = ld if ld in (D0, ANY) else TOP
        elif isinstance(op, ast.Mod):
            dim = self._unify_additive(l, r, st, node, "%")
        elif isinstance(op, (ast.BitAnd, ast.BitOr, ast.BitXor)):
            dim = D0
            kind = "arr" if "arr" in (l.kind, r.kind) else "bool"
        else:
            dim = TOP
        if const is not NOCONST and isinstance(const, (int, float)) and not isinstance(const, bool):
            v = vconst(const, now)
            v.deps, v.pdeps = deps, pdeps
            if sym is not None:
                v.sym = sym
            if const != 0 and dim_known(dim_collapse(dim)):
                v.dim = dim_collapse(dim)
            return v
        tags = frozenset()
        extra = None
        # a linear map of a state array:  X.dot(M) / np.dot(X, M) handled in npmodel; here: X @ M
        if isinstance(op, ast.MatMult) and l.al:
            tags = frozenset([("linmap-of", tuple(sorted(l.al)), r.tags)])
        elif isinstance(op, (ast.Mult, ast.Div)) and l.al and not r.al and r.kind in ("float", "int"):
            tags = frozenset([("scale-of", tuple(sorted(l.al)), type(op).__name__)])
            extra = ("factor", r)
        elif isinstance(op, ast.Mult) and r.al and not l.al and l.kind in ("float", "int"):
            tags = frozenset([("scale-of", tuple(sorted(r.al)), "Mult")])
            extra = ("factor", l)
        elif isinstance(op, (ast.Add, ast.Sub)) and (l.al or r.al) and not (l.al and r.al):
            src = l if l.al else r
            if src.kind == "arr":
                tags = frozenset([("translate-of", tuple(sorted(src.al)))])
        if extra is None and isinstance(op, ast.Mult):
            # array * scalar factor (either order): remember the factor for closed-form rules
            if l.kind in ("arr", "unknown") and r.kind in ("float", "int") and r.sym is not None:
                extra = ("factor", r)
                self.emit(st, "scaled", node, array=l, factor=r)
            elif r.kind in ("arr", "unknown") and l.kind in ("float", "int") and l.sym is not None:
                extra = ("factor", l)
                self.emit(st, "scaled", node, array=r, factor=l)
        if isinstance(op, ast.Sub) and l.obj is None:
            # `target - <current centroid>`: the displacement that moves the centroid onto `target`
            cen = {loc[0] for loc in r.al if loc[1] == "_centroid"} | \
                  {t[2] for t in r.tags if isinstance(t, tuple) and t[0] == "getter-of" and t[1] in ("centroid", "center")}
            if cen:
                tags = tags | {("shift-to", self.val_id(l), tuple(sorted(cen)))}
        return Val(dim=dim, kind=kind, deps=deps, pdeps=pdeps, sym=sym, guardp=guardp, born=now, tags=tags, extra=extra)

    def _unify_additive(self, l: Val, r: Val, st, node, what):
        ld, rd = dim_collapse(l.dim), dim_collapse(r.dim)
        # bare non-zero constant against a dimensioned quantity: tolerance site, not a formula error
        lc = l.is_number_const() and l.const != 0
        rc = r.is_number_const() and r.const != 0
        if rc and dim_known(ld) and ld[1] != 0:
            self.emit(st, "addconst", node, quantity=l, constant=r, what=what)
            return ld
        if lc and dim_known(rd) and rd[1] != 0:
            self.emit(st, "addconst", node, quantity=r, constant=l, what=what)
            return rd
        d, conflict = dim_unify(l.dim, r.dim)
        if conflict:
            self.dimconflict(st, node, l, r, what)
        return d

    def e_UnaryOp(self, n, st):
        v = self.ev(n.operand, st)
        if isinstance(n.op, ast.Not):
            c = NOCONST
            if v.has_const() and isinstance(v.const, bool):
                c = not v.const
            out = Val(kind="bool", dim=D0, deps=v.deps, pdeps=v.pdeps, const=c, tags=ret_tags(v) | (v.tags & {"static"}), born=self.time)
            out.extra = ("not", v)
            return out
        if isinstance(n.op, ast.USub):
            c = -v.const if v.is_number_const() else NOCONST
            if c is not NOCONST:
                o = vconst(c, self.time)
                o.deps, o.pdeps = v.deps, v.pdeps
                return o
            return Val(dim=v.dim, kind=v.kind, deps=v.deps, pdeps=v.pdeps, sym=(-v.sym) if v.sym is not None else None,
                       born=self.time, tags=(frozenset([("neg-of",) + tuple(sorted(v.al))]) if v.al else frozenset()) | batch_tag(v)
                       | ret_tags(v) | (frozenset() if "negated" in v.tags else frozenset(["negated"])),
                       tr=v.tr if v.tr in ("T0", "TA", "TX") else None)
        if isinstance(n.op, ast.Invert):
            return Val(dim=D0, kind=v.kind, deps=v.deps, pdeps=v.pdeps, born=self.time, tags=batch_tag(v))
        return v.copy(al=frozenset(), born=self.time)

    def e_BoolOp(self, n, st):
        vals = [self.ev(v, st) for v in n.values]
        r = None
        for v in vals:
            r = join_vals(r, v)
        out = Val(kind="bool", dim=D0, deps=r.deps, pdeps=r.pdeps, born=self.time, tags=ret_tags(*vals))
        out.extra = ("boolop", type(n.op).__name__, vals)
        # constant folding: `False and x`, `True or x`, all operands known
        consts = [v.const for v in vals if v.has_const() and isinstance(v.const, bool)]
        static = [v for v in vals if v.has_const() and isinstance(v.const, bool) and ("static" in v.tags or not v.deps)]
        if isinstance(n.op, ast.And):
            if any(v.const is False for v in static):
                out.const, out.tags = False, out.tags | {"static"}
            elif len(consts) == len(vals) and all(consts):
                out.const = True
                if len(static) == len(vals):
                    out.tags = out.tags | {"static"}
        else:
            if any(v.const is True for v in static):
                out.const, out.tags = True, out.tags | {"static"}
            elif len(consts) == len(vals) and not any(consts):
                out.const = False
                if len(static) == len(vals):
                    out.tags = out.tags | {"static"}
        return out

    def e_Compare(self, n, st):
        left = self.ev(n.left, st)
        rights = [self.ev(c, st) for c in n.comparators]
        cur = left
        deps, pdeps = left.deps, left.pdeps
        for op, r in zip(n.ops, rights):
            deps |= r.deps
            pdeps |= r.pdeps
            if isinstance(op, (ast.Lt, ast.LtE, ast.Gt, ast.GtE, ast.Eq, ast.NotEq)):
                self.emit(st, "cmp", n, op=type(op).__name__, left=cur, right=r, form="compare", kw={})
            cur = r
        const = NOCONST
        tags = frozenset()
        if len(rights) == 1 and isinstance(n.ops[0], (ast.In, ast.NotIn)) and left.has_const() \
                and rights[0].kind == "dict" and rights[0].mapping is not None:      # mapping is kept only while the key set is exact
            present = left.const in rights[0].mapping
            const = present if isinstance(n.ops[0], ast.In) else (not present)
            tags = frozenset(["static"])
            self.emit(st, "key-test", n, key=left.const, mapping=rights[0])
        elif len(rights) == 1 and isinstance(n.ops[0], (ast.In, ast.NotIn)) and left.has_const() and isinstance(left.const, (str, int)) \
                and rights[0].kind in ("list", "tuple") and rights[0].items is not None and not rights[0].al \
                and all(i_ is not None and i_.has_const() for i_ in rights[0].items):
            # membership in a sequence whose items are all known constants (a table of names)
            present = left.const in [i_.const for i_ in rights[0].items]
            const = present if isinstance(n.ops[0], ast.In) else (not present)
            tags = frozenset(["static"])
        elif len(rights) == 1 and left.has_const() and rights[0].has_const():
            try:
                a, b = left.const, rights[0].const
                op = n.ops[0]
                if isinstance(op, ast.Eq):
                    const = a == b
                elif isinstance(op, ast.NotEq):
                    const = a != b
                elif isinstance(op, ast.Is):
                    const = a is b
                elif isinstance(op, ast.IsNot):
                    const = a is not b
            except Exception:
                const = NOCONST
        kind = "arr" if "arr" in [left.kind] + [r.kind for r in rights] else "bool"
        out = Val(kind=kind, dim=D0, deps=deps, pdeps=pdeps, const=const,
                  tags=ret_tags(left, *rights) | tags | batch_tag(left, *rights), born=self.time)
        out.extra = ("cmp", n, left, rights)
        if len(rights) == 1 and isinstance(n.ops[0], (ast.Eq, ast.NotEq)):
            # x == roll(x): each row against its successor in the order given - a comparison of *consecutive* rows only
            for a_, b_ in ((left, rights[0]), (rights[0], left)):
                rg = [t for t in a_.tags if isinstance(t, tuple) and t and t[0] == "roll-given"]
                if rg and rg[0][1] == tuple(sorted(b_.pdeps)) and \
                        {d_ for d_ in rg[0][2] if d_[0] != "subset"} == {d_ for d_ in b_.deps if d_[0] != "subset"}:
                    out.tags = out.tags | {("ret", "<neighbour-diff>")}
        return out

    def e_IfExp(self, n, st):
        tv = self.ev(n.test, st)
        if tv.has_const() and isinstance(tv.const, bool) and "static" in tv.tags:
            return self.ev(n.body if tv.const else n.orelse, st)        # a test decided by constants alone
        a = self.ev(n.body, st)
        b = self.ev(n.orelse, st)
        return join_vals(a, b)

    def e_Tuple(self, n, st):
        items = []
        for e in n.elts:
            if isinstance(e, ast.Starred):
                v = self.ev(e.value, st)
                if v.items is not None:
                    items.extend(v.items)
                else:
                    items = None
                    el = self.element_of(v, st, n)
                    break
            else:
                items.append(self.ev(e, st))
        kind = "tuple" if isinstance(n, ast.Tuple) else ("list" if isinstance(n, ast.List) else "set")
        if items is None:
            rest = [self.ev(e.value if isinstance(e, ast.Starred) else e, st) for e in n.elts]
            for x in rest:
                el = join_vals(el, self.element_of(x, st, n) if x.kind in ("list", "tuple", "arr", "gen", "unknown") else x)
            return Val(kind=kind, elem=el, dim=el.dim, deps=el.deps, pdeps=el.pdeps, born=self.time)
        dim = ANY
        deps = frozenset()
        pdeps = frozenset()
        conflict = False
        for i in items:
            dim, c = dim_unify(dim, i.dim)
            conflict = conflict or c
            deps |= i.deps
            pdeps |= i.pdeps
        const = NOCONST
        if all(i.has_const() for i in items):
            const = tuple(i.const for i in items) if kind == "tuple" else [i.const for i in items]
        return Val(kind=kind, items=tuple(items), dim=dim if not conflict else TOP, deps=deps, pdeps=pdeps,
                   const=const, born=self.time)

    e_List = e_Tuple
    e_Set = e_Tuple

    def e_Dict(self, n, st):
        mapping = {}
        el = None
        ok = True
        deps = frozenset()
        for k, v in zip(n.keys, n.values):
            vv = self.ev(v, st)
            if k is None:
                # {**a, **b}
                if vv.mapping is not None:
                    mapping.update(vv.mapping)
                else:
                    ok = False
                el = join_vals(el, vv.elem)
                deps |= vv.deps
                continue
            kv = self.ev(k, st)
            deps |= vv.deps
            el = join_vals(el, vv)
            if kv.has_const() and isinstance(kv.const, (str, int)):
                mapping[kv.const] = vv
            else:
                ok = False
        return Val(kind="dict", mapping=mapping if ok else None, elem=el, dim=D0, deps=deps, born=self.time)

    def _comp(self, n, st, elt_fn):
        # evaluate comprehension generators in a scratch env layered on the current env
        saved = dict(st.env)

        def rec(i):
            if i == len(n.generators):
                return elt_fn()
            g = n.generators[i]
            it = self.ev(g.iter, st)
            el = self.element_of(it, st, g.iter)
            self.assign(g.target, el, st, n)
            for cond in g.ifs:
                self.ev(cond, st)
            return rec(i + 1)

        out = rec(0)
        st.env.clear()
        st.env.update(saved)
        return out

    def e_ListComp(self, n, st):
        # one generator without conditions over a sequence whose items are known (a literal table, a tuple of classes):
        # evaluated item by item, so that the calls of the element expression happen once per item, in order
        if len(n.generators) == 1 and not n.generators[0].ifs and not n.generators[0].is_async:
            it0 = self.ev(n.generators[0].iter, st)
            if it0.kind in ("list", "tuple") and it0.items is not None and len(it0.items) <= 16 and not it0.al \
                    and all(i_ is not None and i_.kind in ("class", "str", "int", "float", "func") or (i_ is not None and i_.has_const()) for i_ in it0.items):
                saved = dict(st.env)
                outs = []
                for i_ in it0.items:
                    self.assign(n.generators[0].target, i_, st, n)
                    outs.append(self.ev(n.elt, st))
                st.env.clear()
                st.env.update(saved)
                el = None
                for o_ in outs:
                    el = join_vals(el, o_)
                if el is None:
                    el = Val()
                kind = "list" if isinstance(n, ast.ListComp) else ("set" if isinstance(n, ast.SetComp) else "gen")
                return Val(kind=kind, elem=el, items=tuple(outs) if kind == "list" else None, dim=el.dim, deps=el.deps, pdeps=el.pdeps,
                           born=self.time, tags=el.tags)
        el = self._comp(n, st, lambda: self.ev(n.elt, st))
        # the order of the produced sequence is the order of the (single) iterable it walks
        if len(n.generators) == 1 and not n.generators[0].ifs:
            it_ = self.ev(n.generators[0].iter, st)
            src_ = order_of(it_)
            if src_ is None:
                for t_ in it_.tags:
                    if isinstance(t_, tuple) and t_[0] == "ret" and isinstance(t_[1], str) and t_[1].startswith("_get_face_intersections"):
                        src_ = "face-intersections"
            if src_ is not None:
                el = el.copy(tags=el.tags | {("order", src_)})
        kind = "list" if isinstance(n, ast.ListComp) else ("set" if isinstance(n, ast.SetComp) else "gen")
        k2 = kind
        if el.kind == "idx" and kind == "list":
            k2 = "list"
        return Val(kind=k2, elem=el, dim=el.dim, deps=el.deps, pdeps=el.pdeps, born=self.time, tags=el.tags)

    e_SetComp = e_ListComp
    e_GeneratorExp = e_ListComp

    def e_DictComp(self, n, st):
        if len(n.generators) == 1 and not n.generators[0].ifs:
            g = n.generators[0]
            it = self.ev(g.iter, st)
            pairs = it.extra[1] if (it.extra and isinstance(it.extra, tuple) and it.extra[0] == "items-of") else None
            if pairs is not None:
                saved = dict(st.env)
                mapping = {}
                ok = True
                el = None
                for k, v in pairs:
                    self.assign(g.target, Val(kind="tuple", items=(vconst(k), v), dim=TOP), st, n)
                    kv = self.ev(n.key, st)
                    vv = self.ev(n.value, st)
                    el = join_vals(el, vv)
                    if kv.has_const() and isinstance(kv.const, (str, int)):
                        mapping[kv.const] = vv
                    else:
                        ok = False
                st.env.clear()
                st.env.update(saved)
                return Val(kind="dict", mapping=mapping if ok else None, elem=el, dim=D0,
                           deps=el.deps if el is not None else frozenset(), born=self.time)

        if len(n.generators) == 1 and not n.generators[0].ifs and not n.generators[0].is_async:
            # {k: f(k) for k in <sequence of known constants>}: entry by entry (the key set is exact)
            it0 = self.ev(n.generators[0].iter, st)
            if it0.kind in ("list", "tuple") and it0.items is not None and len(it0.items) <= 24 and not it0.al \
                    and all(i_ is not None and i_.has_const() for i_ in it0.items):
                saved = dict(st.env)
                mapping, ok, el = {}, True, None
                for i_ in it0.items:
                    self.assign(n.generators[0].target, i_, st, n)
                    kv = self.ev(n.key, st)
                    vv = self.ev(n.value, st)
                    el = join_vals(el, vv)
                    if kv.has_const() and isinstance(kv.const, (str, int)):
                        mapping[kv.const] = vv
                    else:
                        ok = False
                st.env.clear()
                st.env.update(saved)
                return Val(kind="dict", mapping=mapping if ok else None, elem=el, dim=D0,
                           deps=el.deps if el is not None else frozenset(), born=self.time)

        def f():
            self.ev(n.key, st)
            return self.ev(n.value, st)
        el = self._comp(n, st, f)
        return Val(kind="dict", elem=el, dim=D0, deps=el.deps, pdeps=el.pdeps, born=self.time)

    def e_Lambda(self, n, st):
        fr = self.frames[-1]
        fi = FuncInfo("<lambda>", n, fr.module, None, "lambda")
        return Val(kind="closure", fn=fi, extra=("closure", st.env, fr.selfobj), dim=D0)

    def e_JoinedStr(self, n, st):
        deps = frozenset()
        parts = []
        for v in n.values:
            if isinstance(v, ast.FormattedValue):
                x = self.ev(v.value, st)
                deps |= x.deps
                parts.append(x)
        return Val(kind="str", dim=D0, deps=deps, items=None, born=self.time, extra=("fstring", parts))

    def e_FormattedValue(self, n, st):
        return self.ev(n.value, st)

    def e_Starred(self, n, st):
        return self.ev(n.value, st)

    def e_NamedExpr(self, n, st):
        v = self.ev(n.value, st)
        self.assign(n.target, v, st, n)
        return v

    def e_Yield(self, n, st):
        v = self.ev(n.value, st) if n.value is not None else vconst(None)
        self.frames[-1].yields.append(v)
        return vconst(None)

    def e_YieldFrom(self, n, st):
        v = self.ev(n.value, st)
        self.frames[-1].yields.append(self.element_of(v, st, n))
        return vconst(None)

    def e_Slice(self, n, st):
        return self.ev_index(n, st)

    def e_Await(self, n, st):
        return Val()

    # ------------------------------------------------------------------ calls
    def e_Call(self, n, st):
        f = self.ev(n.func, st)
        args = []
        for a in n.args:
            if isinstance(a, ast.Starred):
                v = self.ev(a.value, st)
                if v.items is not None:
                    args.extend(v.items)
                else:
                    el = self.element_of(v, st, n)
                    args.extend([el, el, el])
                    f = f.copy()
                    f.tags = f.tags | {"starargs"}
            else:
                args.append(self.ev(a, st))
        kwargs = {}
        for k in n.keywords:
            if k.arg is None:
                self.ev(k.value, st)
            else:
                kwargs[k.arg] = self.ev(k.value, st)
        n0 = len(self.events)
        out = self.call_val(f, args, kwargs, st, n)
        if self.config.get("axis_symmetry") and f.kind == "ext" and f.ext.rsplit(".", 1)[-1] in (
                "sorted", "min", "max", "sort", "amax", "amin", "maximum", "minimum"):
            # order-free combinations of the two semi-axes: the result cannot tell `a` from `b`
            flat = []
            for a_ in args:
                flat.extend(a_.items if a_.items is not None else [a_])
            A_, B_ = ("self", "_a"), ("self", "_b")
            if any(A_ in x.deps for x in flat) and any(B_ in x.deps for x in flat) and not all((A_ in x.deps and B_ in x.deps) for x in flat):
                def _sym(v_):
                    nv = v_.copy(deps=(v_.deps - {A_, B_}) | {("sym", "a|b")})
                    if nv.items is not None:
                        nv.items = tuple(_sym(i_) for i_ in nv.items)
                    if nv.elem is not None:
                        nv.elem = _sym(nv.elem)
                    return nv
                out = _sym(out)
        # an axis-less reduction of a batch-carrying array collapses the batch into one value: harmless in a control test,
        # wrong if it reaches a result -> pseudo-dependence ('collapsed', site) that travels with the value
        for e in self.events[n0:]:
            if e.type == "reduce" and e.node is n and e.target is not None and "batch" in e.target.tags and e.f.get("axis") is None \
                    and e.fn not in ("norm",):
                out = out.copy(deps=out.deps | {("collapsed", f"{e.fn}@{getattr(n, 'lineno', 0)}")})
            # an unweighted mean over vertex coordinates (vertex average): harmless as an interior reference point, wrong
            # when it stands for an area / volume centroid -> pseudo-dependence that travels with the value
            if e.type == "reduce" and e.node is n and e.fn in ("mean", "average", "nanmean") and e.target is not None \
                    and any(loc[1] == "_vertices" for loc in e.target.deps) and "weights" not in {k.arg for k in getattr(n, "keywords", [])} \
                    and not any(loc[1] == "_simplices" or (loc[0] == "call" and "triangulat" in loc[1]) for loc in e.target.deps):
                # (the mean of the corners of a triangle IS its centroid: triangulations are exempt)
                out = out.copy(deps=out.deps | {("vertex-mean", f"{e.fn}@{getattr(n, 'lineno', 0)}")})
        return out

    def call_val(self, f: Val, args, kwargs, st, node) -> Val:
        if f.kind == "func" and f.fn is None:
            alts = f.extra[1] if (f.extra and isinstance(f.extra, tuple) and f.extra[0] == "fns") else []
            if not alts:
                deps = frozenset()
                for a in list(args) + list(kwargs.values()):
                    deps |= a.deps
                self.unmodelled.add("call of an unknown function value")
                return Val(deps=deps, born=self.time)
            # one of several functions met at a merge: each alternative on its own copy of the state, then join
            outs, states = None, None
            for fn_ in alts:
                sti = self.copy_state(st)
                ri = self.call_val(Val(kind="func", fn=fn_, dim=D0), args, kwargs, sti, node)
                outs = join_vals(outs, ri)
                states = self.join_states(states, sti)
            st.env, st.comp = states.env, states.comp
            return outs
        if f.kind == "func" and f.fn.name in self.config.get("opaque_functions", ()):
            deps, pdeps = frozenset(), frozenset()
            for a in list(args) + list(kwargs.values()):
                deps |= a.deps
                pdeps |= a.pdeps
            self.emit(st, "opaque-call", node, callee=f.fn, args=args, kwargs=kwargs)
            return Val(kind="unknown", dim=TOP, deps=deps, pdeps=pdeps, born=self.time, tags=frozenset(["opaque", ("ret", f.fn.name)]))
        if f.kind == "func" and f.fn.module.name.startswith(OPAQUE_MODULES):
            deps = frozenset()
            for a in list(args) + list(kwargs.values()):
                deps |= a.deps
            self.emit(st, "opaque-call", node, callee=f.fn, args=args)
            return Val(kind="list", dim=TOP, deps=deps, born=self.time, tags=frozenset(["opaque", ("ret", f.fn.name)]))
        if f.kind in ("func", "closure"):
            closure = None
            selfv = None
            if f.kind == "closure":
                closure = [f.extra[1], st.env] if f.extra else [st.env]
            return self.call_function(f.fn, None, args, kwargs, st, node, closure=closure,
                                      closure_self=(f.extra[2] if f.extra else self.frames[-1].selfobj) if f.kind == "closure" else None)
        if f.kind == "bound":
            return self.call_function(f.fn, f.base, args, kwargs, st, node)
        if f.kind == "class":
            return self.construct(f.extra, args, kwargs, st, node)
        if f.kind == "ext":
            if f.ext == "builtins.super":
                fr = self.frames[-1]
                return Val(kind="super", extra=(fr.fn.cls, fr.selfobj), dim=D0)
            self.stats["ext_calls"] += 1
            short = f.ext.rsplit(".", 1)[-1]
            if short not in ("atleast_2d", "asarray", "array", "atleast_1d", "asanyarray", "isinstance", "len"):
                self._rawuse(st, node, *args)
            r = self.np.call_ext(self, f.ext, node, args, kwargs, st)
            if r.tr is None and not r.has_const() and f.ext.startswith(("numpy", "np.")):
                if short in ("lstsq", "solve"):
                    tx = trans.solve_types(short, list(args))
                    self.emit(st, "linsolve", node, fn=short, A=args[0] if args else None, b=args[1] if len(args) > 1 else None, xtype=tx)
                    if short == "solve":
                        r.tr = tx
                    elif r.items:
                        r.items = (r.items[0].copy(tr=tx),) + tuple(r.items[1:])
                    else:
                        r = r.copy(items=(Val(dim=r.dim, kind="arr", deps=r.deps, pdeps=r.pdeps, born=r.born, tr=tx),
                                          Val(kind="arr", deps=r.deps, pdeps=r.pdeps, born=r.born, tr="T0" if trans.tr_of(args[0] if args else None) == "T0" and trans.tr_of(args[1] if len(args) > 1 else None) == "T0" else None),
                                          Val(kind="int", dim=D0), Val(kind="arr", dim=D0)), kind="tuple")
                else:
                    r.tr = trans.call(short, list(args), kwargs, r)
            elif r.tr is None and not r.has_const() and f.ext.startswith("rowan") and args \
                    and trans.combine(list(args)) == "T0" and short in ("kabsch", "from_matrix", "to_matrix", "conjugate", "inverse", "normalize"):
                # rotations computed from translation-invariant data (normals) are translation invariant
                r.tr = "T0"
                if r.items:
                    r.items = tuple(i.copy(tr="T0") for i in r.items)
            if short in ("atleast_2d",) and args:
                r.tags = r.tags | {"batch2d", "batch", ("baxis", 0)}
            elif batch_tag(*args) and short not in self.np.REDUCING and r.kind not in ("str", "int"):
                r.tags = r.tags | {"batch"}
            if not r.has_const():
                extra_t = frozenset([("ret", self.np.canonical(f.ext))]) | (
                    ret_tags(*args) if f.ext.startswith("builtins.") or f.ext.rsplit(".", 1)[-1] in
                    ("all", "any", "abs", "isclose", "allclose", "setdiff1d", "isin", "in1d", "intersect1d", "union1d", "arange",
                     "count_nonzero", "flatnonzero", "size", "shape") else frozenset())
                r.tags = r.tags | extra_t
                if r.items is not None:
                    r.items = tuple(i.copy(tags=i.tags | extra_t) if not i.has_const() else i for i in r.items)
            # `out=<name>`: the named array now holds the result (same storage as before)
            for kw in getattr(node, "keywords", []):
                if kw.arg == "out" and isinstance(kw.value, ast.Name) and kw.value.id in st.env and "out" in kwargs:
                    old = kwargs["out"]
                    st.env[kw.value.id] = r.copy(al=old.al, born=old.born, name=old.name)
                    r = st.env[kw.value.id]
            return r
        if f.kind == "arrmethod":
            self._rawuse(st, node, f.base)
            r = self.np.call_method(self, f.base, f.name, node, args, kwargs, st)
            if r is not None and getattr(r, "tr", None) is None and not r.has_const() and r.obj is None:
                r.tr = trans.method(f.base, f.name, list(args), kwargs)
            has_axis = bool(args) or "axis" in kwargs
            if "batch" in f.base.tags and (f.name not in self.np.REDUCING or has_axis) and not r.has_const():
                r.tags = r.tags | {"batch"}
            return r
        if f.kind == "unknown" and f.fn is not None:
            return self.call_function(f.fn, f.base, args, kwargs, st, node)
        deps = frozenset()
        for a in list(args) + list(kwargs.values()):
            deps |= a.deps
        return Val(deps=deps, born=self.time)

    def construct(self, cls, args, kwargs, st, node) -> Val:
        if not isinstance(cls, ClassInfo):
            return Val()
        self.newobj += 1
        site = f"{self.frames[-1].fn.file.rsplit('/', 1)[-1]}:{getattr(node, 'lineno', 0)}" if self.frames else "?"
        k = self.site_count[site] = self.site_count.get(site, 0) + 1
        oid = f"new#{cls.name}@{site}#{k}"
        objv = Val(kind="obj", obj=ObjRef(cls, oid), dim=TOP, born=self.time)
        init = cls.lookup("__init__")
        self.emit(st, "construct", node, cls=cls, args=args, kwargs=kwargs, obj=objv.obj)
        if isinstance(init, FuncInfo):
            self.call_function(init, objv, args, kwargs, st, node)
        deps = frozenset()
        pdeps = frozenset()
        for a in list(args) + list(kwargs.values()):
            deps |= a.deps
            pdeps |= a.pdeps
        objv.deps = deps
        objv.pdeps = pdeps
        objv.extra = ("ctor", tuple(args), dict(kwargs))
        return objv

    def call_function(self, fn: FuncInfo, selfv: Optional[Val], args, kwargs, st: St, node, role=None,
                      closure=None, closure_self=None) -> Val:
        if len(self.frames) >= MAX_DEPTH or any(fr.fn.node is fn.node for fr in self.frames):
            deps = frozenset()
            for a in list(args) + list(kwargs.values()):
                deps |= a.deps
            return Val(deps=deps, born=self.time)
        self.stats["calls_inlined"] += 1
        a = fn.node.args
        pos = [x.arg for x in list(a.posonlyargs) + list(a.args)]
        env = {}
        defaults = self._defaults(fn)
        argi = 0
        bound_self = None
        if fn.cls is not None and fn.kind not in ("staticmethod", "nested", "lambda") and pos:
            if fn.kind == "classmethod":
                if selfv is not None and selfv.kind == "class":
                    env[pos[0]] = selfv
                elif selfv is not None and selfv.obj is not None:
                    env[pos[0]] = Val(kind="class", extra=selfv.obj.cls, dim=D0)
                else:
                    env[pos[0]] = Val(kind="class", extra=fn.cls, dim=D0)
            else:
                env[pos[0]] = selfv if selfv is not None else self.make_self(fn.cls, "anon")
                bound_self = env[pos[0]]
            pos = pos[1:]
        for p in pos:
            if argi < len(args):
                env[p] = args[argi]
                argi += 1
            elif p in kwargs:
                env[p] = kwargs[p]
            elif p in defaults:
                env[p] = defaults[p]
            else:
                env[p] = Val()
        if a.vararg:
            rest = tuple(args[argi:])
            env[a.vararg.arg] = Val(kind="tuple", items=rest, dim=TOP)
        for k in a.kwonlyargs:
            env[k.arg] = kwargs.get(k.arg, defaults.get(k.arg, Val()))
        if a.kwarg:
            extra = {k: v for k, v in kwargs.items() if k not in pos and k not in [x.arg for x in a.kwonlyargs]}
            env[a.kwarg.arg] = Val(kind="dict", mapping=extra, dim=D0)
        frame = Frame(fn, fn.module, bound_self if bound_self is not None else closure_self, closure_env=closure)
        frame.is_gen = self._is_generator(fn)
        frame.role = role
        caller_env = st.env
        st.env = env
        self.frames.append(frame)
        self.emit(st, "enter", node, callee=fn, entry=False, selfobj=bound_self.obj if bound_self is not None else None,
                  args=dict(env), role=role, argvals=list(args), kwvals=dict(kwargs))
        if isinstance(fn.node, ast.Lambda):
            try:
                v = self.ev(fn.node.body, st)
                frame.returns.append((v, st, fn.node))
            except AbortPath:
                del self.frames[self.frames.index(frame) + 1:]
        else:
            out = self.exec_block(fn.node.body, st)
            if out is not None:
                frame.returns.append((vconst(None), out, fn.node))
        self.frames.pop()
        result = None
        merged = None
        for (v, s, n) in frame.returns:
            result = join_vals(result, v)
            merged = self.join_states(merged, s)
        if merged is None:
            # the callee never returns normally: the caller's path ends here.
            st.env = caller_env
            self.emit(st, "leave", node, callee=fn, role=role, value=None, noreturn=True,
                      selfobj=bound_self.obj if bound_self is not None else None)
            raise AbortPath()
        st.comp = merged.comp
        st.env = caller_env
        if frame.is_gen:
            el = None
            for y in frame.yields:
                el = join_vals(el, y)
            result = Val(kind="gen", elem=el, dim=el.dim if el is not None else TOP,
                         deps=el.deps if el is not None else frozenset(), born=self.time)
        if result is None:
            result = vconst(None)
        if role is not None and role[0] == "getter" and not result.has_const():
            result = result.copy(tags=result.tags | {("getter", role[1])} | (
                {("getter-of", role[1], bound_self.obj.oid)} if bound_self is not None and bound_self.obj is not None else set()))
        if fn.name not in ("<lambda>",) and role is None:
            result = result.copy(tags=result.tags | {("ret", fn.name)})
            if bound_self is not None and not result.has_const() and not frame.is_gen:
                # pseudo-dependence on the helper that produced the value (provenance for "computed by ..." rules)
                result.deps = result.deps | {("call", fn.name)}
            if (bound_self is not None and bound_self.obj is not None and result.sym is None and not result.al
                    and result.kind in ("float", "unknown", "arr") and result.obj is None and result.items is None
                    and result.mapping is None and not frame.is_gen and not fn.name.startswith("__")):
                result.sym = Poly.atom(f"call<{bound_self.obj.oid}.{fn.name}>")
        if any(("lru_cache" in d_ or d_ in ("cache", "functools.cache") or "memoize" in d_) for d_ in fn.decorators) \
                and result.kind in ("arr", "list", "unknown", "dict", "set") and not result.has_const():
            # a memoising decorator hands the *same* object to every caller with equal arguments: the result aliases hidden
            # module-level storage (MEMO-3: it must not reach a caller un-copied)
            result = result.copy(al=result.al | {("memo", fn.name)})
        self.emit(st, "leave", node, callee=fn, role=role, value=result, noreturn=False,
                  selfobj=bound_self.obj if bound_self is not None else None)
        return result
