"""FRAME-2: planar measures of a polygon embedded in 3-D never take fixed coordinate columns of world-frame vectors.

`v[:, :2]`, `v[..., 0]`, `c[:2]` of the vertices / centroid / edge vectors *before* they are rotated into the polygon's
plane is the projection onto a coordinate plane: equal to the in-plane quantity only for polygons lying in that plane.
(The projected-area formula of signed_area selects its two columns by the largest normal component - a variable index -
and divides by that component; it is not touched by this rule.)"""

from __future__ import annotations

from .index import FuncInfo, PropInfo
from .interp import Interp


def check(res, index, cls_name, members, rule="FRAME-2"):
    cls = index.cls(cls_name)
    for member in members:
        m = cls.lookup(member)
        fn = None
        if isinstance(m, PropInfo):
            p = index.effective_prop(cls, member)
            fn = p.getter if p is not None else None
        elif isinstance(m, FuncInfo):
            fn = m
        if fn is None:
            continue
        it = Interp(index)
        r = it.run_entry(fn, cls)
        hits = [e for e in r["events"] if e.type == "world-column"]
        k = f"{cls_name}.{member}"
        if hits:
            e = hits[0]
            res.bad(rule, k + ":world-columns", e.where(), f"{k} takes fixed coordinate columns of world-frame vectors (`{e.src()[:60]}`, path "
                    f"{' -> '.join(e.path)}): that is the projection onto a coordinate plane, equal to the in-plane quantity only for a polygon "
                    "lying in that plane")
        else:
            res.ok(rule, k, nontrivial=False)
