"""E5 - orientation parity and axis support of per-edge sums over a vertex cycle.

A tiny evaluator of straight-line numpy code over *cycle arrays*: an (N, k) array of per-vertex
coordinates is a list of k polynomials in the symbols  c@s  (column c at cyclic shift s).
np.roll(v, -k, axis=0) shifts the symbols, column subscripts select, arithmetic is polynomial.
Reversing the vertex cycle maps shift s to -s (sums over the cycle are translation invariant, so
shifts are renormalised to start at 0); a summand equal to its image is *even*, equal to minus its
image *odd*.  This canonicalises single expressions; it follows no control flow.
"""

from __future__ import annotations

import ast
from fractions import Fraction
from typing import Dict, List, Optional

from .algebra import Poly


class NotInFragment(Exception):
    pass


def sym(col, shift):
    return f"{col}@{shift}"


def parse_sym(a):
    if "@" in a and not a.startswith("F["):
        c, s = a.rsplit("@", 1)
        try:
            return c, int(s)
        except ValueError:
            return None
    return None


class SV:
    """kind: 'cyc' (per-vertex columns), 'vec' (fixed small vector), 'scal', 'tuple'."""

    def __init__(self, kind, comps=None, summed=False, items=None, absd=False):
        self.kind = kind
        self.comps: List[Poly] = comps or []
        self.summed = summed
        self.items = items
        self.absd = absd

    def __repr__(self):
        return f"SV({self.kind},{self.comps},summed={self.summed})"


# ----------------------------------------------------------------------------- reversal
def _map_atoms(p: Poly, fn) -> Poly:
    out = Poly()
    for mono, c in p.terms.items():
        term = Poly.const(c)
        for a, e in mono:
            term = term * fn(a).pow(e)
        out = out + term
    return out


def shifts_of(p: Poly):
    out = set()
    for a in p.atoms():
        ps = parse_sym(a)
        if ps:
            out.add(ps[1])
        elif a.startswith("F["):
            inner = FUNCS.get(a)
            if inner is not None:
                out |= shifts_of(inner[1])
    return out


FUNCS: Dict[str, tuple] = {}   # atom name -> (fname, argument Poly)

EVEN_FUNCS = {"sinc", "cos", "abs", "sq", "nz"}
AREA_ATOMS = {"SAREA", "AREA"}
POINT_ATOMS = {"c.x": "x", "c.y": "y", "c.z": "z"}


def fatom(fname, arg: Poly) -> Poly:
    if fname in EVEN_FUNCS:
        # canonical sign of the argument
        neg = -arg
        if repr(neg) < repr(arg):
            arg = neg
    name = f"F[{fname}:{arg!r}]"
    FUNCS[name] = (fname, arg)
    return Poly.atom(name)


def anchor_poly(p: Poly) -> Poly:
    """mark the shift symbols of p as anchored to fixed list positions (not translation invariant)."""
    def f(a):
        ps = parse_sym(a)
        if ps:
            return Poly.atom("A!" + a)
        if a in FUNCS:
            fn, arg = FUNCS[a]
            return fatom(fn, anchor_poly(arg))
        return Poly.atom(a)
    return _map_atoms(p, f)


def shift_poly(p: Poly, k: int) -> Poly:
    def f(a):
        ps = parse_sym(a)
        if ps:
            return Poly.atom(sym(ps[0], ps[1] + k))
        if a in FUNCS:
            fn, arg = FUNCS[a]
            return fatom(fn, shift_poly(arg, k))
        return Poly.atom(a)
    return _map_atoms(p, f)


def reverse_poly(p: Poly) -> Poly:
    def f(a):
        if a.startswith("A!"):
            ps = parse_sym(a[2:])
            if ps:
                return Poly.atom("A!" + sym(ps[0], -ps[1]))
        ps = parse_sym(a)
        if ps:
            return Poly.atom(sym(ps[0], -ps[1]))
        if a in FUNCS:
            fn, arg = FUNCS[a]
            return fatom(fn, reverse_poly(arg))
        return Poly.atom(a)
    return _map_atoms(p, f)


def normalise(p: Poly) -> Poly:
    """cyclic sums are invariant under a common shift of every term: normalise each term to min shift 0."""
    out = Poly()
    for mono, c in p.terms.items():
        t = Poly({mono: c})
        sh = shifts_of(t)
        if sh:
            t = shift_poly(t, -min(sh))
        out = out + t
    return out


def parity(p: Poly) -> str:
    """parity of the cyclic sum of p under reversal of the vertex order: 'even' | 'odd' | 'mixed' | 'zero'."""
    a = normalise(p)
    b = normalise(reverse_poly(p))
    if a.is_zero():
        return "zero"
    if a == b:
        return "even"
    if (a + b).is_zero():
        return "odd"
    return "mixed"


def axis_signature(p: Poly, axes=("x", "y", "z")):
    """set of exponent tuples over the coordinate axes (shifts ignored), one per term."""
    sigs = set()
    for mono, c in p.terms.items():
        inner = [FUNCS[a][1] for a, ex in mono if a in FUNCS and FUNCS[a][0] == "abs" and ex == 1]
        if len(inner) == 1 and not any(parse_sym(a) for a, _ in mono):
            sigs |= axis_signature(inner[0], axes)
            continue
        e = {a: Fraction(0) for a in axes}
        for atom, ex in mono:
            ps = parse_sym(atom)
            if ps and ps[0] in e:
                e[ps[0]] += ex
            elif atom in POINT_ATOMS and POINT_ATOMS[atom] in e:
                e[POINT_ATOMS[atom]] += ex       # a component of a fixed point (the centroid) carries its axis
            elif atom in AREA_ATOMS:
                # an area carries one power of each in-plane axis
                e[axes[0]] += ex
                e[axes[1]] += ex
        sigs.add(tuple(e[a] for a in axes))
    return sigs


# ----------------------------------------------------------------------------- evaluator
class Evaluator:
    def __init__(self, env: Dict[str, SV], attr: Dict[str, SV], hooks=None):
        self.env = dict(env)
        self.attr = attr            # 'self.x' style attribute values
        self.hooks = hooks or {}
        self.abs_sites = []         # (node, SV before abs)
        self.log = []

    # -- statements
    def run(self, stmts):
        for s in stmts:
            if isinstance(s, ast.Expr) and isinstance(s.value, ast.Constant):
                continue
            if isinstance(s, ast.Assign):
                v = self.ev(s.value)
                for t in s.targets:
                    self.bind(t, v)
            elif isinstance(s, ast.AugAssign) and isinstance(s.target, ast.Name):
                cur = self.env.get(s.target.id)
                v = self.ev(s.value)
                self.env[s.target.id] = self.binop(s.op, cur, v)
            elif isinstance(s, ast.AugAssign) and isinstance(s.target, ast.Subscript):
                raise NotInFragment("augmented subscript store")
            elif isinstance(s, ast.Return):
                return self.ev(s.value)
            else:
                raise NotInFragment(type(s).__name__)
        return None

    def bind(self, t, v: SV):
        if isinstance(t, ast.Name):
            self.env[t.id] = v
        elif isinstance(t, (ast.Tuple, ast.List)):
            if v.kind == "tuple" and v.items is not None and len(v.items) == len(t.elts):
                for e, x in zip(t.elts, v.items):
                    self.bind(e, x)
            elif v.kind in ("vec", "scalvec") and len(v.comps) == len(t.elts):
                for e, c in zip(t.elts, v.comps):
                    self.bind(e, SV("scal", [c], summed=v.summed, absd=v.absd))
            elif v.kind == "cyc" and len(v.comps) == len(t.elts) and getattr(v, "transposed", False):
                # x, y, z = verts.T: the coordinate columns of the cycle
                for e, c in zip(t.elts, v.comps):
                    self.bind(e, SV("cyc", [c], v.summed))
            else:
                raise NotInFragment("unpack")
        elif isinstance(t, ast.Subscript):
            # in_plane_centroid[2] = ...
            base = self.ev(t.value)
            idx = self._const(t.slice)
            val = self.ev_sv(v)
            if base.kind in ("vec", "scalvec") and isinstance(idx, int):
                base.comps[idx] = val.comps[0]
            else:
                raise NotInFragment("subscript store")
        else:
            raise NotInFragment("bind")

    def ev_sv(self, v):
        return v

    @staticmethod
    def _const(node):
        try:
            return ast.literal_eval(node)
        except Exception:
            return None

    # -- expressions
    def ev(self, n) -> SV:
        if isinstance(n, ast.Constant):
            if isinstance(n.value, complex):
                return SV("scal", [Poly.atom("I") * Poly.const(Fraction(repr(n.value.imag)))])
            if isinstance(n.value, (int, float)):
                return SV("scal", [Poly.const(n.value)])
            raise NotInFragment("constant")
        if isinstance(n, ast.Name):
            if n.id in self.env:
                return self.env[n.id]
            raise NotInFragment(f"name {n.id}")
        if isinstance(n, ast.Attribute):
            key = ast.unparse(n)
            if key in self.attr:
                return self.attr[key]
            if key == "np.pi":
                return SV("scal", [Poly.atom("pi")])
            if key == "np.newaxis":
                return SV("newaxis")
            if n.attr == "T":
                v_ = self.ev(n.value)
                if v_.kind == "cyc" and len(v_.comps) > 1:
                    import copy as _cp
                    v_ = _cp.copy(v_)
                    v_.transposed = True            # rows are the coordinate columns now (only unpacking looks at this)
                return v_
            if n.attr == "shape":
                v_ = self.ev(n.value)
                if v_.kind == "cyc":
                    return SV("tuple", items=[SV("scal", [Poly.atom("NV")]), SV("scal", [Poly.const(len(v_.comps))])])
            raise NotInFragment(f"attr {key}")
        if isinstance(n, ast.UnaryOp) and isinstance(n.op, ast.USub):
            v = self.ev(n.operand)
            return SV(v.kind, [-c for c in v.comps], v.summed, absd=False)
        if isinstance(n, ast.UnaryOp) and isinstance(n.op, ast.Invert):
            return self.ev(n.operand)
        if isinstance(n, ast.BinOp):
            if isinstance(n.op, ast.Mod):
                try:
                    l_ = self.ev(n.left)
                except NotInFragment:
                    l_ = None
                if l_ is not None and l_.kind == "cycidx":
                    return l_
            if isinstance(n.op, ast.Mod) and "np.mod" in self.hooks:
                # `a % b` is np.mod(a, b)
                return self.hooks["np.mod"](self, ast.Call(func=ast.Name(id="np.mod", ctx=ast.Load()), args=[n.left, n.right], keywords=[]))
            return self.binop(n.op, self.ev(n.left), self.ev(n.right))
        if isinstance(n, ast.Subscript):
            return self.subscript(n)
        if isinstance(n, ast.Tuple) or isinstance(n, ast.List):
            items = [self.ev(e) for e in n.elts]
            if all(i.kind == "scal" for i in items):
                return SV("scalvec", [i.comps[0] for i in items], summed=all(i.summed for i in items), items=items)
            return SV("tuple", items=items)
        if isinstance(n, ast.Call):
            return self.call(n)
        raise NotInFragment(type(n).__name__)

    def binop(self, op, a: SV, b: SV) -> SV:
        if a is not None and b is not None and "cycidx" in (a.kind, b.kind):
            # (i + k) % N : index arithmetic on the vertex cycle, k an integer constant
            idx, other = (a, b) if a.kind == "cycidx" else (b, a)
            if isinstance(op, ast.Mod) and idx is a:
                return idx
            k = other.comps[0].const_value() if (other.kind == "scal" and len(other.comps) == 1) else None
            if k is not None and k.denominator == 1 and isinstance(op, (ast.Add, ast.Sub)) and (idx is a or isinstance(op, ast.Add)):
                return SV("cycidx", [idx.comps[0] + (Poly.const(k) if isinstance(op, ast.Add) else Poly.const(-k))])
            raise NotInFragment("index arithmetic")
        if isinstance(op, ast.MatMult):
            if a.kind == "rot":
                return b      # R @ v: an orthogonal change of frame
            if b.kind == "rot":
                return a
            if len(a.comps) == len(b.comps) and a.comps:
                tot = Poly()
                for x, y in zip(a.comps, b.comps):
                    tot = tot + x * y
                return SV("cyc" if "cyc" in (a.kind, b.kind) else "scal", [tot], a.summed or b.summed)
            raise NotInFragment("matmul")
        if a.kind == "newaxis" or b.kind == "newaxis":
            raise NotInFragment("newaxis arithmetic")
        summed = a.summed or b.summed
        # broadcasting between column layouts
        na, nb = len(a.comps), len(b.comps)
        if na == nb:
            pairs = list(zip(a.comps, b.comps))
        elif na == 1:
            pairs = [(a.comps[0], y) for y in b.comps]
        elif nb == 1:
            pairs = [(x, b.comps[0]) for x in a.comps]
        else:
            raise NotInFragment("shape mismatch")
        out = []
        for x, y in pairs:
            if isinstance(op, ast.Add):
                out.append(x + y)
            elif isinstance(op, ast.Sub):
                out.append(x - y)
            elif isinstance(op, ast.Mult):
                out.append(x * y)
            elif isinstance(op, ast.Div):
                q = x.div(y)
                if q is None:
                    raise NotInFragment("division")
                out.append(q)
            elif isinstance(op, ast.Pow):
                e = y.const_value()
                if e is None:
                    raise NotInFragment("power")
                p = x.pow(e)
                if p is None:
                    raise NotInFragment("power")
                out.append(p)
            else:
                raise NotInFragment("operator")
        kind = a.kind if na >= nb else b.kind
        if "cyc" in (a.kind, b.kind):
            kind = "cyc"
        elif kind == "scalvec" and len(out) == 1:
            kind = "scal"
        absd = (a.absd and b.absd) if isinstance(op, (ast.Mult, ast.Div)) else False
        if isinstance(op, (ast.Mult, ast.Div)) and (a.absd or b.absd):
            # |odd| times a constant stays "abs'd" when the other factor is orientation-free
            other = b if a.absd else a
            if all(not shifts_of(c) for c in other.comps) and not other.summed:
                absd = True
        return SV(kind, out, summed, absd=absd)

    def subscript(self, n) -> SV:
        base = self.ev(n.value)
        sl = n.slice
        elts = sl.elts if isinstance(sl, ast.Tuple) else [sl]
        if base.kind == "tuple":
            i = self._const(sl)
            return base.items[i]
        if base.kind == "cyc" and isinstance(sl, ast.Tuple) and len(sl.elts) == 2 and not isinstance(sl.elts[0], (ast.Slice, ast.Constant)):
            # v[(i + k) % N, c]: cyclic shift, then a column
            try:
                iv = self.ev(sl.elts[0])
            except NotInFragment:
                iv = None
            if iv is not None and iv.kind == "cycidx":
                shifted = SV("cyc", [shift_poly(c, int(iv.comps[0].const_value())) for c in base.comps], base.summed)
                c = self._const(sl.elts[1])
                if isinstance(c, int):
                    return SV("cyc", [shifted.comps[c]], base.summed)
                if isinstance(sl.elts[1], ast.Name) and sl.elts[1].id in self.env and self.env[sl.elts[1].id].kind == "colsym":
                    return SV("cyc", [self._generic_col(shifted, self.env[sl.elts[1].id].comps[0])], base.summed)
                raise NotInFragment("cyc subscript")
        if base.kind == "cyc" and not isinstance(sl, (ast.Tuple, ast.Slice, ast.Constant)):
            try:
                iv = self.ev(sl)
            except NotInFragment:
                iv = None
            if iv is not None and iv.kind == "cycidx":
                k_ = iv.comps[0].const_value()
                return SV("cyc", [shift_poly(c, int(k_)) for c in base.comps], base.summed)
        if base.kind == "cyc" and isinstance(sl, ast.Tuple) and all(
                (isinstance(e_, ast.Slice) and e_.lower is None and e_.upper is None and e_.step is None)
                or (isinstance(e_, ast.Constant) and (e_.value is None or e_.value is Ellipsis))
                or (isinstance(e_, ast.Attribute) and e_.attr == "newaxis") for e_ in sl.elts):
            return base               # v[:, np.newaxis, :]: axes of length one inserted, the rows are the same
        if base.kind == "cyc":
            # v[k]: a row picked at a fixed position of the vertex list - the value depends on where the list starts
            k0 = self._const(sl)
            if isinstance(k0, int) and not isinstance(sl, ast.Tuple):
                return SV("vec", [anchor_poly(shift_poly(c, k0)) for c in base.comps], base.summed, absd=False, items=None)
            # [:, c]  /  [:, np.newaxis]  /  [:, np.newaxis, :]
            if len(elts) == 2 and isinstance(elts[0], ast.Slice):
                if isinstance(elts[1], ast.Slice) and elts[1].step is None and elts[0].lower is None and elts[0].upper is None and elts[0].step is None:
                    # v[:, a:b]: a block of coordinate columns
                    lo_ = self._const(elts[1].lower) if elts[1].lower is not None else None
                    hi_ = self._const(elts[1].upper) if elts[1].upper is not None else None
                    if (lo_ is None or isinstance(lo_, int)) and (hi_ is None or isinstance(hi_, int)):
                        sel = base.comps[slice(lo_, hi_)]
                        if sel:
                            return SV("cyc", list(sel), base.summed)
                c = self._const(elts[1])
                if isinstance(c, int):
                    return SV("cyc", [base.comps[c]], base.summed)
                if isinstance(elts[1], ast.Attribute) or (isinstance(elts[1], ast.Constant) and elts[1].value is None):
                    return base
                if isinstance(elts[1], ast.Name) and elts[1].id in self.env and self.env[elts[1].id].kind == "colsym":
                    # generic projected coordinate
                    csym = self.env[elts[1].id].comps[0]
                    return SV("cyc", [self._generic_col(base, csym)], base.summed)
            if len(elts) == 3:
                return base
            raise NotInFragment("cyc subscript")
        if base.kind in ("vec", "scalvec"):
            c = self._const(sl)
            if isinstance(c, int):
                return SV("scal", [base.comps[c]], base.summed, absd=base.absd)
            if len(elts) >= 1:
                return base  # newaxis / mask on a fixed vector
        if base.kind == "scal":
            return base     # boolean mask on a q-derived scalar
        raise NotInFragment("subscript")

    def _generic_col(self, base: SV, name_poly: Poly):
        # replace the column letter by a generic one named after the index variable
        (mono, c), = list(name_poly.terms.items())
        letter = mono[0][0]
        # base column 0 holds symbols of form  <col>@<shift>: take shift from column 0
        sh = shifts_of(base.comps[0])
        s = min(sh) if sh else 0
        return Poly.atom(sym(letter, s))

    def call(self, n) -> SV:
        f = ast.unparse(n.func)
        args = n.args
        kw = {k.arg: k.value for k in n.keywords}
        if f in self.hooks:
            return self.hooks[f](self, n)
        if isinstance(n.func, ast.Name) and getattr(self, "functions", None) and n.func.id in self.functions and getattr(self, "_fdepth", 0) < 2:
            # a small pure helper of the module (index arithmetic, a wrapper): its single returned expression, parameters bound
            fdef = self.functions[n.func.id]
            body = [s_ for s_ in fdef.body if not (isinstance(s_, ast.Expr) and isinstance(s_.value, ast.Constant))]
            if len(body) == 1 and isinstance(body[0], ast.Return) and body[0].value is not None and not fdef.args.vararg and not fdef.args.kwarg:
                params = [a.arg for a in fdef.args.args]
                dflt = dict(zip(params[len(params) - len(fdef.args.defaults):], fdef.args.defaults))
                bound = {}
                for p_, a_ in zip(params, args):
                    bound[p_] = self.ev(a_)
                for k_, v_ in kw.items():
                    bound[k_] = self.ev(v_)
                for p_ in params:
                    if p_ not in bound and p_ in dflt:
                        bound[p_] = self.ev(dflt[p_])
                if all(p_ in bound for p_ in params):
                    saved = self.env
                    self.env = dict(bound)
                    self._fdepth = getattr(self, "_fdepth", 0) + 1
                    try:
                        return self.ev(body[0].value)
                    finally:
                        self.env = saved
                        self._fdepth -= 1
        if f in ("np.arange", "range", "numpy.arange") and len(args) == 1:
            return SV("cycidx", [Poly.const(0)])     # the identity index i = 0 .. N-1 of the vertex cycle
        if f in ("np.concatenate", "np.vstack") and len(args) >= 1 and isinstance(args[0], (ast.Tuple, ast.List)) and len(args[0].elts) == 2 \
                and (len(args) == 1 or self._const(args[1]) == 0) and ("axis" not in kw or self._const(kw["axis"]) == 0):
            # np.concatenate((X[k:], X[:k])): the rows of the cycle rotated by k  (= np.roll(X, -k, axis=0))
            a_, b_ = args[0].elts

            def _rows(e):
                if isinstance(e, ast.Subscript):
                    sl_ = e.slice.elts[0] if (isinstance(e.slice, ast.Tuple) and e.slice.elts and all(
                        isinstance(x, ast.Slice) and x.lower is None and x.upper is None and x.step is None for x in e.slice.elts[1:])) else e.slice
                    if isinstance(sl_, ast.Slice) and sl_.step is None:
                        return ast.dump(e.value), (self._const(sl_.lower) if sl_.lower is not None else None), \
                            (self._const(sl_.upper) if sl_.upper is not None else None), e.value
                return None
            ra, rb = _rows(a_), _rows(b_)
            if ra and rb and ra[0] == rb[0] and ra[2] is None and rb[1] is None and isinstance(ra[1], int) and ra[1] == rb[2] and ra[1] != 0:
                v = self.ev(ra[3])
                if v.kind == "cyc":
                    return SV("cyc", [shift_poly(c, ra[1]) for c in v.comps], v.summed)
            raise NotInFragment("concatenate")
        if f == "np.roll":
            v = self.ev(args[0])
            sh = self._const(kw["shift"]) if "shift" in kw else self._const(args[1])
            if v.kind != "cyc" or not isinstance(sh, int):
                raise NotInFragment("roll")
            return SV("cyc", [shift_poly(c, -sh) for c in v.comps], v.summed)
        if f in ("np.sum", "np.mean"):
            v = self.ev(args[0])
            ax = self._const(kw["axis"]) if "axis" in kw else (self._const(args[1]) if len(args) > 1 else None)
            if v.kind == "cyc":
                if ax in (None,) and len(v.comps) == 1 or ax in (0,):
                    k = "scal" if len(v.comps) == 1 else "scalvec"
                    return SV(k, list(v.comps), summed=True)
                if ax in (1, -1):
                    tot = Poly()
                    for c in v.comps:
                        tot = tot + c
                    return SV("cyc", [tot], v.summed)
                raise NotInFragment("sum axis")
            if v.kind in ("vec", "scalvec"):
                tot = Poly()
                for c in v.comps:
                    tot = tot + c
                return SV("scal", [tot], v.summed)
            return v
        if f in ("np.abs", "abs", "np.absolute"):
            v = self.ev(args[0])
            self.abs_sites.append((n, v))
            return SV(v.kind, [fatom("abs", c) for c in v.comps], v.summed, absd=True)
        if f == "np.array" or f == "np.asarray":
            v = self.ev(args[0])
            if v.kind == "scalvec":
                return SV("scalvec", list(v.comps), v.summed)
            return v
        if f in ("np.sinc", "np.exp", "np.cos", "np.sin"):
            v = self.ev(args[0])
            return SV(v.kind, [fatom(f[3:], c) for c in v.comps], v.summed)
        if f == "np.cross":
            a, b = self.ev(args[0]), self.ev(args[1])
            if len(a.comps) == 3 and len(b.comps) == 3:
                x = a.comps
                y = b.comps
                out = [x[1] * y[2] - x[2] * y[1], x[2] * y[0] - x[0] * y[2], x[0] * y[1] - x[1] * y[0]]
                return SV("cyc" if "cyc" in (a.kind, b.kind) else "vec", out, a.summed or b.summed)
            raise NotInFragment("cross")
        if f in ("np.dot", "np.inner", "np.matmul"):
            a, b = self.ev(args[0]), self.ev(args[1])
            if a.kind == "rot":
                return b      # an orthogonal change of frame applied to b
            if b.kind == "rot":
                return a
            if len(a.comps) == len(b.comps):
                tot = Poly()
                for x, y in zip(a.comps, b.comps):
                    tot = tot + x * y
                kind = "cyc" if "cyc" in (a.kind, b.kind) else "scal"
                return SV(kind, [tot], a.summed or b.summed)
            raise NotInFragment("dot")
        if f.endswith(".squeeze") or f.endswith(".copy") or f.endswith(".reshape") or f.endswith(".astype"):
            # x.reshape(n, 1, 3) / x.reshape(-1, 1): only axes of length one are inserted or removed when the row structure is kept
            # (as x[:, None]); the symbolic rows are unchanged
            return self.ev(n.func.value)
        if f.endswith(".dot"):
            a, b = self.ev(n.func.value), self.ev(args[0])
            if a.kind == "rot":
                return b      # an orthogonal change of frame: parity and support of the operand are unchanged
            raise NotInFragment("method dot")
        raise NotInFragment(f"call {f}")


def aligned_points_arg(ev, call):
    """the `points` argument of a call of the alignment helper, whatever the order / spelling of its two arguments: the one
    that is not the normal vector (n.x, n.y, n.z)."""
    cands = list(call.args) + [k.value for k in call.keywords]
    vals = []
    for a in cands:
        try:
            vals.append(ev.ev(a))
        except NotInFragment:
            vals.append(None)
    pts = [v for v in vals if v is not None and not (v.kind == "vec" and v.comps and v.comps[0] == Poly.atom("n.x"))]
    if len(pts) != 1:
        raise NotInFragment("alignment helper: points argument not identified")
    return pts[0]
