"""Flow-sensitive clients of the interpreter (E2): must-written, dirty-cache, guard, temporary-move."""

from __future__ import annotations

import ast
from fractions import Fraction

from .algebra import Poly
from .interp import Component
from .model import ATTR

# ----------------------------------------------------------------------------- must-written


class MustWritten(Component):
    """set of locations rebound (not from themselves) on every path so far."""
    name = "mustw"

    def init(self, interp):
        return frozenset()

    def join(self, a, b):
        return a & b

    def on_event(self, interp, st, ev):
        if ev.type == "write" and ev.mode == "rebind":
            rhs = ev.rhs
            if rhs is None or ev.loc not in rhs.deps:
                st.comp[self.name] = st.comp[self.name] | {ev.loc}


class MustTouched(Component):
    """locations written (rebound or modified in place) on every path so far."""
    name = "musttouch"

    def init(self, interp):
        return frozenset()

    def join(self, a, b):
        return a & b

    def on_event(self, interp, st, ev):
        if ev.type == "write":
            st.comp[self.name] = st.comp[self.name] | {ev.loc}


class ReadBeforeWrite(Component):
    """records attributes read while not yet (must-)written in this entry: such attributes are
    persistent state; attributes never read that way are scratch (derived, not declared)."""
    name = "rbw"

    def __init__(self):
        self.persistent = set()   # attr names read before written
        self.written = set()      # attr names written anywhere

    def init(self, interp):
        return frozenset()

    def join(self, a, b):
        return a & b

    def on_event(self, interp, st, ev):
        if ev.type == "write":
            self.written.add(ev.loc[1])
            if ev.mode == "rebind":
                st.comp[self.name] = st.comp[self.name] | {ev.loc}
        elif ev.type == "read":
            if ev.loc not in st.comp[self.name]:
                self.persistent.add(ev.loc[1])


# ----------------------------------------------------------------------------- dirty cache (C03/C08b)
CACHE_PARTS = {
    "_equations": ("n", "d"),
    "_simplex_equations": ("n", "d"),
    "_volume": ("",),
    "_area": ("",),
    "_centroid": ("",),
    "_neighbors": ("",),
    "edges": ("",),
    "_coplanar_simplices": ("",),
}
# cached_property members discovered at run time that the table below does not know: name -> attributes read
EXTRA_CACHE_READS = {}
_BASE_CACHE_PARTS = dict(CACHE_PARTS)
_TABLES_FOR = [None]     # the Index the derived entries of CACHE_PARTS / EXTRA_CACHE_READS belong to (kept alive)


DERIVED_ATTRS = set()     # entries added to model.ATTR for lazily filled caches of the current tree


def bind_tables(index):
    """CACHE_PARTS / EXTRA_CACHE_READS hold entries derived from one tree (unknown cached_property members): reset them
    when another Index is analysed in the same process, so that results never depend on what was analysed before."""
    if _TABLES_FOR[0] is not index:
        CACHE_PARTS.clear()
        CACHE_PARTS.update(_BASE_CACHE_PARTS)
        EXTRA_CACHE_READS.clear()
        from .model import ATTR as _ATTR
        for a_ in list(DERIVED_ATTRS):
            _ATTR.pop(a_, None)
        DERIVED_ATTRS.clear()
        _TABLES_FOR[0] = index
        try:
            index._lazy_caches_done = False
        except Exception:
            pass
# the degree (power of the scale factor) of each scale-covariant cache
CACHE_POWER = {("_equations", "d"): 1, ("_simplex_equations", "d"): 1, ("_volume", ""): 3, ("_area", ""): 2,
               ("_centroid", ""): 1}


def cache_effect(cache, part, primary, kind):
    """What a write of `kind` to `primary` does to (cache, part):
    'inv' | ('pend', power) | 'flip' | 'dirty'.   One line of reason each."""
    if cache in EXTRA_CACHE_READS:
        # unknown cached_property: stale whenever anything it reads is written
        reads = EXTRA_CACHE_READS[cache]
        return "dirty" if (primary in reads or any(r in CACHE_PARTS and r != cache for r in reads)) else "inv"
    eq = cache in ("_equations", "_simplex_equations")
    if primary == "_vertices":
        if kind == "scale":
            if eq:
                return "inv" if part == "n" else ("pend", 1)   # unit normals keep, offsets scale with s
            if (cache, part) in CACHE_POWER:
                return ("pend", CACHE_POWER[(cache, part)])    # V s^3, A s^2, centroid s
            return "inv"                                       # combinatorial structure
        if kind == "translate":
            if eq:
                return "inv" if part == "n" else "dirty"       # offsets d = -n.v move
            if cache == "_centroid":
                return "dirty"
            return "inv"                                       # V, A, combinatorics are translation invariant
        if kind == "linmap":
            if eq or cache == "_centroid":
                return "dirty"                                 # normals / centroid rotate
            return "inv"                                       # V, A invariant under an orthogonal map
        # replace / reorder of coordinates
        if eq or cache in ("_volume", "_area", "_centroid"):
            return "dirty"
        return "inv"
    if primary == "_faces":
        if cache in ("_volume", "_area", "_centroid", "_simplex_equations"):
            return "inv"                                       # computed from simplices, not faces
        if kind == "reorder-own":
            return "dirty" if cache == "edges" else "inv"      # counter-clockwise about the face's own normal
        if kind == "reorder":
            if cache == "_equations":
                return "dirty"                                 # first three vertices decide the normal's sign
            return "dirty" if cache == "edges" else "inv"
        if kind == "reverse":
            if cache == "_equations":
                return "flip"                                  # covariant with negating the equation
            return "dirty" if cache == "edges" else "inv"
        return "dirty"                                         # faces replaced
    if primary == "_simplices":
        if cache in ("_equations", "_neighbors", "edges"):
            return "inv"
        if kind in ("reorder", "reorder-own", "reverse"):
            if cache == "_simplex_equations" or cache == "_centroid":
                return "dirty"                                 # orientation of the simplex normal may flip
            return "inv"                                       # |V|, A, grouping keep
        return "dirty"
    return "inv"


def _sub_part(sub):
    """which part of an (N,4) equation array a subscript store addresses: 'n' | 'd' | 'all'."""
    if sub is None:
        return "all"
    node, idx = sub
    items = idx.items if idx.kind == "indextuple" else None
    if items and len(items) == 2:
        it = items[1]
        if it.has_const() and it.const == 3:
            return "d"
        if it.kind == "slice" and it.extra is not None:
            try:
                hi = ast.literal_eval(it.extra.upper) if it.extra.upper is not None else None
                lo = ast.literal_eval(it.extra.lower) if it.extra.lower is not None else None
                if hi == 3 and lo in (None, 0):
                    return "n"
                if lo == 3:
                    return "d"
            except Exception:
                pass
    return "all"


class DirtyCache(Component):
    name = "dirty"

    def __init__(self, owner_classes, refresh, ctor=False, tracked_attrs=None):
        """owner_classes: oid -> ClassInfo of tracked objects ('self', 'self._polyhedron', ...)
        refresh: {func node id: set(cache attr)}   tracked_attrs: oid -> set of cache attrs the class stores"""
        self.owner = owner_classes
        self.refresh = refresh
        self.ctor = ctor
        self.tracked = tracked_attrs
        self.violations = []     # (rule, oid, cache, part, ev, what)
        self.provisional = []    # dirty reads awaiting an own-update write of the same statement
        self.facts = []          # discharged covariant updates etc. (for evidence)
        self.detseen = {}
        self.det_stmt = {}
        self.det_tests = {}
        self.rot_sites = []

    # state: dict key=(oid, cache, part) -> status
    def init(self, interp):
        st = {}
        for oid, attrs in self.tracked.items():
            for c in attrs:
                for p in CACHE_PARTS[c]:
                    if self.ctor:
                        st[(oid, c, p)] = "absent" if (c == "edges" or c in EXTRA_CACHE_READS) else "unset"
                    else:
                        st[(oid, c, p)] = "clean"
        st["__det"] = frozenset()
        return st

    def copy(self, v):
        return dict(v)

    def join(self, a, b):
        out = {}
        for k in a:
            if k == "__det":
                out[k] = a[k] & b.get(k, frozenset())
                continue
            x, y = a[k], b.get(k, a[k])
            if x == y:
                out[k] = x
            elif {x, y} <= {"absent", "clean"} if isinstance(x, str) and isinstance(y, str) else False:
                out[k] = "clean" if "clean" in (x, y) and "absent" not in (x, y) else "absent"
            else:
                out[k] = "dirty"
        return out

    def on_branch(self, interp, st, test_node, tv, truth):
        """`"edges" in self.__dict__` : on the false branch the cached_property is absent."""
        # a branch on the determinant of an eigenvector matrix: remember the test (the guard of the normalisation),
        # whether it is written in the `if` itself or bound to a local first
        y = tv.extra
        while y and y[0] == "not":
            y = y[1].extra
        if y and y[0] == "cmp":
            for side in [y[2]] + list(y[3]):
                e_ = side.extra
                if e_ and isinstance(e_, tuple) and e_[0] == "det-of" and e_[1] is not None and e_[1].extra \
                        and isinstance(e_[1].extra, tuple) and e_[1].extra[0] == "eigvecs":
                    self.det_tests[id(e_[1].extra[1])] = test_node
        x = tv.extra
        neg = False
        if x and x[0] == "not":
            x = x[1].extra
            neg = True
        if not x or x[0] != "cmp":
            return
        node, left, rights = x[1], x[2], x[3]
        if len(rights) == 1 and isinstance(node.ops[0], (ast.Is, ast.IsNot)) and rights[0].has_const() and rights[0].const is None:
            # `self._x is None` on a lazily filled cache: on the branch where it is None the cache is absent (nothing to lag behind)
            none_when = isinstance(node.ops[0], ast.Is) != neg
            state = st.comp[self.name]
            for (oid, attr) in left.al:
                if attr in CACHE_PARTS and oid in self.tracked and attr in self.tracked[oid] and truth == none_when:
                    for p_ in CACHE_PARTS[attr]:
                        if (oid, attr, p_) in state:
                            state[(oid, attr, p_)] = "absent"
            return
        if len(rights) != 1 or not isinstance(node.ops[0], (ast.In, ast.NotIn)):
            return
        if not (left.has_const() and isinstance(left.const, str) and rights[0].kind == "objdict"):
            return
        present_when = isinstance(node.ops[0], ast.In) != neg
        key = (rights[0].base.obj.oid, left.const, "")
        state = st.comp[self.name]
        if key in state and truth != present_when:
            state[key] = "absent"

    # helpers
    def _in_refresh(self, interp, oid, cache):
        for fr in interp.frames:
            cs = self.refresh.get(id(fr.fn.node))
            if cs and cache in cs and fr.selfobj is not None and fr.selfobj.obj is not None and fr.selfobj.obj.oid == oid:
                return True
        return False

    def _classify_primary(self, ev):
        attr = ev.loc[1]
        rhs = ev.rhs
        op = ev.op
        tags = rhs.tags if rhs is not None else frozenset()
        if attr == "_vertices":
            if ev.mode == "inplace":
                if op in ("Mult", "Div"):
                    return "scale", (rhs, op)
                if op in ("Add", "Sub"):
                    return "translate", None
                return "replace", None
            for t in tags:
                if isinstance(t, tuple):
                    if t[0] == "linmap-of" and ev.loc in t[1]:
                        return "linmap", t[2]
                    if t[0] == "scale-of" and ev.loc in t[1]:
                        f = rhs.extra[1] if rhs.extra and rhs.extra[0] == "factor" else None
                        return "scale", (f, t[2])
                    if t[0] == "translate-of" and ev.loc in t[1]:
                        return "translate", None
                    if t[0] == "reorder-of" and ev.loc in t[1]:
                        return "reorder", None
            return "replace", None
        if attr in ("_faces", "_simplices"):
            own = (ev.loc[0], "_equations")
            for t in tags:
                if isinstance(t, tuple):
                    if t[0] == "reverse-of" and ev.loc in t[1:]:
                        return "reverse", None
                    if t[0] == "reorder-of" and ev.loc in t[1]:
                        return ("reorder-own" if own in t[2] else "reorder"), None
            # element tags of a rebuilt list (sorted_faces.append(face[perm]))
            if rhs is not None and rhs.elem is not None:
                for t in rhs.elem.tags | rhs.tags:
                    if isinstance(t, tuple) and t[0] == "reorder-of" and ev.loc in t[1]:
                        return ("reorder-own" if own in t[2] else "reorder"), None
            return "replace", None
        return None, None

    def on_event(self, interp, st, ev):
        state = st.comp[self.name]
        t = ev.type
        if t == "det":
            tgt = ev.target
            if tgt.extra and isinstance(tgt.extra, tuple) and tgt.extra[0] == "eigvecs":
                state["__det"] = state["__det"] | {id(tgt.extra[1])}
                self.det_stmt[id(tgt.extra[1])] = ev.f.get("stmt")
            return
        if t == "augassign":
            # an in-place change of the eigenvector matrix outside the branch guarded by its determinant test
            # (e.g. per-column sign conventions applied afterwards) undoes the normalisation
            name = ev.target.split("[")[0]
            cur = st.env.get(name)
            if cur is not None and cur.extra and isinstance(cur.extra, tuple) and cur.extra[0] == "eigvecs":
                eid = id(cur.extra[1])
                guard = self.det_stmt.get(eid)
                inside = guard is not None and any(n is ev.node for n in ast.walk(guard))
                gtest = self.det_tests.get(eid)
                if not inside and gtest is not None and interp.frames:
                    # the `if` statement(s) controlled by the remembered determinant test
                    for n_ in ast.walk(interp.frames[-1].fn.node):
                        if isinstance(n_, ast.If) and n_.test is gtest and any(m is ev.node for m in ast.walk(n_)):
                            inside = True
                if not inside:
                    state["__det"] = state["__det"] - {eid}
            return
        if t == "invalidate":
            oid, attr = ev.loc
            if attr in CACHE_PARTS and (oid, attr, "") in state:
                state[(oid, attr, "")] = "absent"
            return
        if t == "read":
            oid, attr = ev.loc
            if attr not in CACHE_PARTS or oid not in self.tracked or attr not in self.tracked[oid]:
                return
            if self._in_refresh(interp, oid, attr):
                return
            bad = [(p, state.get((oid, attr, p))) for p in CACHE_PARTS[attr]]
            bad = [(p, s) for p, s in bad if s not in ("clean", "absent", None)]
            if attr == "edges" or attr in EXTRA_CACHE_READS:
                # reading a cached_property that is absent computes it now from the current faces
                if state.get((oid, attr, "")) == "absent":
                    state[(oid, attr, "")] = "clean"
                    return
            if bad and _is_none_test_read(ev, attr):
                return          # `if self._x is None:` looks at presence only, not at the value
            if bad:
                self.provisional.append((ev.loc, ev.stmt, ev, bad))
            return
        if t == "leave":
            cs = self.refresh.get(id(ev.callee.node))
            if cs and ev.selfobj is not None and not ev.noreturn:
                oid = ev.selfobj.oid
                for c in cs:
                    for p in CACHE_PARTS.get(c, ()):
                        if (oid, c, p) in state:
                            state[(oid, c, p)] = "clean"
            return
        if t != "write":
            return
        oid, attr = ev.loc
        if oid not in self.tracked and f"{oid}.{attr}" not in self.tracked:
            return
        if oid not in self.tracked:
            self.tracked.setdefault(oid, set())
        # ---- writes to caches
        if attr in CACHE_PARTS and attr in self.tracked[oid]:
            # own-update: forgive dirty reads of the same statement
            self.provisional = [p for p in self.provisional if not (p[0] == ev.loc and p[1] is ev.stmt)]
            if self._in_refresh(interp, oid, attr):
                return
            part = _sub_part(ev.sub) if attr in ("_equations", "_simplex_equations") else ""
            parts = CACHE_PARTS[attr] if part in ("all",) else (part,)
            rhs = ev.rhs
            own = rhs is not None and ev.loc in rhs.deps and ev.mode == "rebind"
            if ev.mode == "rebind" and rhs is not None and rhs.has_const() and rhs.const is None:
                for p in CACHE_PARTS[attr]:
                    if (oid, attr, p) in state:
                        state[(oid, attr, p)] = "absent"          # invalidated: refilled on the next read
                return
            for p in parts:
                key = (oid, attr, p)
                cur = state.get(key)
                if cur is None:
                    continue
                if isinstance(cur, tuple) and cur[0] == "shift":
                    # the vertices were moved by (target - centroid): the new centroid is `target` itself
                    if ev.mode == "rebind" and rhs is not None and interp.val_id(rhs) == cur[1]:
                        state[key] = "clean"
                        self.facts.append(("SHIFT", oid, ev.where()))
                    elif ev.mode == "rebind" and not own:
                        state[key] = "clean"
                    else:
                        state[key] = "dirty"
                    continue
                if ev.mode == "inplace" and ev.op in ("Mult", "Div"):
                    if isinstance(cur, tuple) and cur[0] == "pend":
                        self._check_cov(ev, key, cur, rhs, ev.op, state, scalar_factor=True)
                    elif _is_minus_one(rhs):
                        state[key] = {"clean": "flip", "flip": "clean"}.get(cur, cur)
                    # anything else: leave the status (unknown is not a violation)
                elif ev.mode == "rebind" and own:
                    if isinstance(cur, tuple) and cur[0] == "pend":
                        self._check_cov(ev, key, cur, rhs, "own", state, scalar_factor=False)
                    # own-update of a clean cache: leave
                elif ev.mode == "rebind":
                    state[key] = "clean"
                elif ev.mode == "inplace" and ev.op in ("Add", "Sub") and attr == "_centroid":
                    pass
            return
        # ---- a freshly constructed composite stored into its field: its own constructor (checked for
        #      that class) established its caches
        comp_oid = f"{oid}.{attr}"
        if comp_oid in self.tracked and ev.mode == "rebind" and ev.rhs is not None and ev.rhs.obj is not None:
            for key in list(state):
                if key != "__det" and key[0] == comp_oid:
                    state[key] = "absent" if (key[1] == "edges" or key[1] in EXTRA_CACHE_READS) else "clean"
            return
        # ---- writes to primaries
        kind, info = self._classify_primary(ev)
        if kind is None:
            return
        if kind == "linmap":
            mtags = info or frozenset()
            site = (oid, ev)
            eig = None
            # find the matrix value among the statement's operands: tag 'eigvecs'
            if "eigvecs" in mtags:
                self.rot_sites.append((ev, "eigvecs", None))
                # determinant normalisation must precede (must-pass-through)
                ok = bool(state["__det"])
                if not ok:
                    self.violations.append(("ROT-1", oid, "_vertices", "", ev,
                                            "orthogonal matrix from eigh/eig reaches a linear map of the vertices "
                                            "without a determinant normalisation: a reflection for half of the inputs"))
                else:
                    self.facts.append(("ROT-1", oid, ev.where()))
            elif "orth" in mtags:
                self.rot_sites.append((ev, "kabsch", None))
        shift = None
        if kind == "translate" and ev.mode == "inplace" and ev.op == "Add" and ev.rhs is not None:
            for tg in ev.rhs.tags:
                if isinstance(tg, tuple) and tg[0] == "shift-to" and oid in tg[2]:
                    shift = tg[1]
        for key in list(state):
            if key == "__det" or key[0] != oid:
                continue
            _, c, p = key
            eff = cache_effect(c, p, attr, kind)
            cur = state[key]
            if eff == "inv" or cur in ("unset", "absent"):
                continue
            if c == "_centroid" and shift is not None and cur == "clean":
                state[key] = ("shift", shift)
                continue
            if isinstance(eff, tuple) and eff[0] == "pend":
                if cur == "clean":
                    state[key] = ("pend", eff[1], _factor_sym(info), ev.where())
                else:
                    state[key] = "dirty"
            elif eff == "flip":
                state[key] = {"clean": "flip", "flip": "clean"}.get(cur, cur)
            else:
                state[key] = "dirty"

    def _check_cov(self, ev, key, cur, rhs, op, state, scalar_factor):
        """a covariant update of a cache pending a scale: the power of the factor must equal the cache's degree."""
        power = cur[1]
        fsym = cur[2]
        oid, attr, part = key
        if scalar_factor:
            g = rhs.sym if rhs is not None else None
            if g is not None and op == "Div":
                g = g.inv()
            if fsym is None or g is None:
                state[key] = "clean"
                self.facts.append(("COH-3-unknown", key, ev.where()))
                return
            want = fsym.pow(power)
            if want is not None and g == want:
                state[key] = "clean"
                self.facts.append(("COH-3", key, ev.where(), str(g)))
            else:
                state[key] = "dirty"
                self.violations.append(("COH-3", oid, attr, part, ev,
                                        f"covariant update multiplies by {g} but {attr}{'.' + part if part else ''} scales as factor^{power} (= {want})"))
        else:
            g = rhs.sym if rhs is not None else None
            atom = Poly.atom(f"{oid}.{attr}")
            if fsym is None or g is None:
                state[key] = "clean"
                self.facts.append(("COH-3-unknown", key, ev.where()))
                return
            want = atom * fsym.pow(power) if fsym.pow(power) is not None else None
            if want is not None and g == want:
                state[key] = "clean"
                self.facts.append(("COH-3", key, ev.where(), str(g)))
            else:
                state[key] = "dirty"
                self.violations.append(("COH-3", oid, attr, part, ev,
                                        f"covariant update stores {g} but {attr} scales as factor^{power} (expected {want})"))

    def finish_entry(self, interp, returns):
        """called after run_entry: exit-state obligations."""
        out = []
        for (v, s, n) in returns:
            state = s.comp[self.name]
            for key, cur in state.items():
                if key == "__det":
                    continue
                if cur in ("clean", "absent"):
                    continue
                out.append((key, cur, n))
        return out


def _lazy_fill(interp, ev, attr):
    """the store `self.<attr> = ...` sits in the body of `if self.<attr> is None:` (or the else of `is not None`)."""
    fn = interp.frames[-1].fn.node if interp.frames else None
    if fn is None:
        return False
    for n in ast.walk(fn):
        if not isinstance(n, ast.If):
            continue
        t = n.test
        neg = False
        if isinstance(t, ast.UnaryOp) and isinstance(t.op, ast.Not):
            t, neg = t.operand, True
        if isinstance(t, ast.Compare) and len(t.ops) == 1 and isinstance(t.ops[0], (ast.Is, ast.IsNot)) \
                and isinstance(t.comparators[0], ast.Constant) and t.comparators[0].value is None \
                and isinstance(t.left, ast.Attribute) and t.left.attr == attr and isinstance(t.left.value, ast.Name) and t.left.value.id == "self":
            none_branch = n.body if (isinstance(t.ops[0], ast.Is) != neg) else n.orelse
            if any(ev.node is m for b in none_branch for m in ast.walk(b)):
                return True
    return False


def _is_none_test_read(ev, attr):
    """the read of self.<attr> is the operand of an `is None` / `is not None` comparison (possibly under `not`)."""
    n = ev.node
    stmt = ev.f.get("stmt")
    if stmt is None:
        return False
    roots = [stmt.test] if isinstance(stmt, (ast.If, ast.While)) and hasattr(stmt, "test") else [stmt]
    for root in roots:
        for c in ast.walk(root):
            if isinstance(c, ast.Compare) and len(c.ops) == 1 and isinstance(c.ops[0], (ast.Is, ast.IsNot)) \
                    and isinstance(c.comparators[0], ast.Constant) and c.comparators[0].value is None \
                    and (c.left is n or (isinstance(c.left, ast.Attribute) and c.left.attr == attr and getattr(n, "attr", None) == attr
                                         and getattr(n, "lineno", -1) == c.left.lineno and getattr(n, "col_offset", -1) == c.left.col_offset)):
                return True
    return False


def _is_minus_one(v):
    return v is not None and v.is_number_const() and v.const == -1


def _factor_sym(info):
    if info is None:
        return None
    f, op = info
    if f is None or f.sym is None:
        return None
    if op == "Div":
        return f.sym.inv()
    return f.sym


# ----------------------------------------------------------------------------- guards (C08 / C15)
class Guard(Component):
    """`value` must pass a positivity test (false branch raising ValueError) before the first state write."""
    name = "guard"

    def __init__(self, param="value", tracked_oids=("self",)):
        self.param = param
        self.unguarded_writes = []   # ev
        self.silent_rejects = []     # node
        self.wrong_exc = []          # (ev, exc)
        self.guard_sites = []        # (node, op, strict)
        self.nan_writes = []         # writes reached under a test that NaN passes (`not value <= 0` form)
        self.scratch = set()

    def init(self, interp):
        return {"pos": frozenset(), "neg": frozenset(), "nansafe": frozenset()}

    def copy(self, v):
        return dict(v)

    def join(self, a, b):
        return {"pos": a["pos"] & b["pos"], "neg": a["neg"] | b["neg"], "nansafe": a.get("nansafe", frozenset()) & b.get("nansafe", frozenset())}

    def _classify(self, tv):
        """-> (positive_truth: bool, strict: bool, node) if the test is a positivity test on the parameter."""
        x = tv.extra
        if not x:
            return None
        if x[0] == "not":
            r = self._classify(x[1])
            if r is None:
                return None
            return (not r[0], r[1], r[2], r[3])
        if x[0] == "cmp":
            node, left, rights = x[1], x[2], x[3]
            if len(rights) != 1:
                return None
            op = node.ops[0]
            right = rights[0]
            lz = left.is_number_const() and left.const == 0
            rz = right.is_number_const() and right.const == 0
            if rz and self.param in left.guardp:
                # 4th item: the accepting side is the one where the primitive comparison is *true* (a NaN target makes every
                # comparison false: it is refused by `value > 0` but slips through `not value <= 0`)
                if isinstance(op, ast.Gt):
                    return (True, True, node, True)
                if isinstance(op, ast.GtE):
                    return (True, False, node, True)
                if isinstance(op, ast.LtE):
                    return (False, True, node, False)
                if isinstance(op, ast.Lt):
                    return (False, False, node, False)
            if lz and self.param in right.guardp:
                if isinstance(op, ast.Lt):
                    return (True, True, node, True)
                if isinstance(op, ast.LtE):
                    return (True, False, node, True)
                if isinstance(op, ast.GtE):
                    return (False, True, node, False)
                if isinstance(op, ast.Gt):
                    return (False, False, node, False)
        return None

    def on_branch(self, interp, st, test_node, tv, truth):
        r = self._classify(tv)
        if r is None:
            if self.param in tv.pdeps and any(isinstance(t, tuple) and t[0] == "ret" and t[1].rsplit(".", 1)[-1] in ("isfinite", "isnan") for t in tv.tags):
                cur = st.comp[self.name]
                st.comp[self.name] = dict(cur, nansafe=cur.get("nansafe", frozenset()) | {"isfinite"})
            return
        pos_truth, strict, node, accept_true = r
        cur = st.comp[self.name]
        ns = cur.get("nansafe", frozenset())
        if truth == pos_truth:
            st.comp[self.name] = {"pos": cur["pos"] | {("strict" if strict else "nonneg")}, "neg": cur["neg"],
                                  "nansafe": ns | ({"cmp"} if accept_true else frozenset())}
            self.guard_sites.append((node, strict, interp.frames[-1].fn.qualname))
        else:
            st.comp[self.name] = {"pos": cur["pos"], "neg": cur["neg"] | {"neg"}, "nansafe": ns}

    def on_event(self, interp, st, ev):
        cur = st.comp[self.name]
        if ev.type == "write":
            oid, attr = ev.loc
            if not oid.startswith("self"):
                return
            if attr in self.scratch:
                return
            if not cur["pos"]:
                self.unguarded_writes.append(ev)
            elif not cur.get("nansafe"):
                self.nan_writes.append(ev)
        elif ev.type == "raise":
            if cur["neg"] and not cur["pos"] and ev.exc != "ValueError":
                self.wrong_exc.append((ev, ev.exc))
        elif ev.type == "exit" and ev.entry:
            if cur["neg"] and not cur["pos"]:
                self.silent_rejects.append(ev.node)


# ----------------------------------------------------------------------------- temporary move (C16 / C19)
class Moved(Component):
    """Queries may move the shape and move it back: a centroid/center setter call whose argument was read
    from the paired getter before the move restores it.  Everything else that writes non-scratch state in a
    query is an effect; rebinding a by-reference attribute while moved orphans arrays handed out earlier."""
    name = "moved"

    PROTOCOL = ("centroid", "center")

    def __init__(self, scratch, byref_attrs):
        self.scratch = scratch
        self.byref = byref_attrs
        self.effects = []        # (ev, what)
        self.orphans = []        # (ev, attr)
        self.protocol_calls = [] # (node, kind)
        self.unbalanced = []
        self.lone_restore = []
        self.collected = []      # (node, moved?) at every to_json call
        self.move_args = []

    def init(self, interp):
        # moved: frozenset of oids currently displaced; saved: frozenset of (oid, epoch) getter reads
        return {"moved": frozenset(), "depth": 0, "epoch": 0, "inplace": frozenset()}

    def copy(self, v):
        return dict(v)

    def join(self, a, b):
        return {"moved": a["moved"] | b["moved"], "depth": max(a["depth"], b["depth"]),
                "epoch": max(a["epoch"], b["epoch"]), "inplace": a["inplace"] | b["inplace"]}

    def _protocol_frame(self, interp):
        """innermost-outermost: are we inside a centroid/center setter called from the entry?"""
        for fr in interp.frames[1:]:
            if fr.role and fr.role[0] == "setter" and fr.role[1] in self.PROTOCOL:
                return fr
        return None

    def on_event(self, interp, st, ev):
        cur = st.comp[self.name]
        if ev.type == "enter" and not ev.entry and ev.callee.name == "to_json":
            self.collected.append((ev.node, bool(cur["moved"])))
        if ev.type == "enter" and not ev.entry and ev.role and ev.role[0] == "setter" and ev.role[1] in self.PROTOCOL:
            # only the outermost protocol call counts
            inner = [fr for fr in interp.frames[1:-1] if fr.role and fr.role[0] == "setter" and fr.role[1] in self.PROTOCOL]
            if inner:
                return
            oid = ev.selfobj.oid if ev.selfobj is not None else "?"
            if not oid.startswith("self"):
                return
            arg = ev.argvals[0] if ev.argvals else None
            is_saved = arg is not None and any(isinstance(t, tuple) and t[0] == "saved-centroid" and t[1] == oid
                                               for t in arg.tags)
            new = dict(cur)
            if oid in cur["moved"]:
                if is_saved:
                    new["moved"] = cur["moved"] - {oid}
                    self.protocol_calls.append((ev.node, "restore", oid))
                else:
                    self.protocol_calls.append((ev.node, "move-again", oid))
            else:
                if is_saved:
                    # setter called with the value just read from the getter: identity restore
                    self.lone_restore.append((ev.node, oid))
                    self.protocol_calls.append((ev.node, "identity", oid))
                else:
                    new["moved"] = cur["moved"] | {oid}
                    self.protocol_calls.append((ev.node, "move", oid))
                    self.move_args.append((ev.node, arg))
            st.comp[self.name] = new
            return
        if ev.type == "leave" and ev.role and ev.role[0] == "getter" and ev.role[1] in self.PROTOCOL:
            # tag the value read from the getter while not moved
            if ev.value is not None and ev.selfobj is not None and ev.selfobj.oid.startswith("self"):
                oid = ev.selfobj.oid
                # `center` is an alias of centroid of the same object
                if oid not in cur["moved"]:
                    ev.value.tags = ev.value.tags | {("saved-centroid", oid)}
            return
        if ev.type == "write":
            oid, attr = ev.loc
            if not oid.startswith("self") or attr in self.scratch:
                return
            if self._protocol_frame(interp) is not None:
                return
            if ev.mode == "rebind" and attr in CACHE_PARTS and _lazy_fill(interp, ev, attr):
                return      # `if self._x is None: self._x = compute()`: filling a derived cache is not an observable effect
                            # (that the cache never lags behind the geometry is C03's obligation: COH-1/2)
            self.effects.append((ev, f"writes {oid}.{attr} ({ev.mode})"))
            root = oid
            if ev.mode == "rebind" and attr in self.byref and any(m == oid or oid.startswith(m) or m.startswith(oid) for m in cur["moved"]):
                self.orphans.append((ev, attr))
        elif ev.type == "exit" and ev.entry:
            if cur["moved"]:
                self.unbalanced.append((ev.node, sorted(cur["moved"])))


class InplaceLog(Component):
    """time stamps of in-place writes to by-reference state (escape-then-mutate, HOOMD-2)."""
    name = "iplog"

    def init(self, interp):
        return frozenset()

    def join(self, a, b):
        return a | b

    def on_event(self, interp, st, ev):
        if ev.type == "write" and ev.mode == "inplace" and ev.loc[0].startswith("self"):
            st.comp[self.name] = st.comp[self.name] | {(ev.loc, ev.time, ev.where())}


# ----------------------------------------------------------------------------- constructor validation (C15)
REORDERED_SIG = ("<vertices-reordered>", frozenset(), frozenset(), frozenset(), "", 0)


class TestsPassed(Component):
    """which decision tests (by provenance signature) have been evaluated on the path; raises are attributed
    to the tests evaluated before them."""
    name = "tests"

    def __init__(self):
        self.raises = []   # (exc, frozenset(signatures), ev)
        self.sigs = {}     # node id -> signature

    def init(self, interp):
        return frozenset()

    def join(self, a, b):
        return a & b

    def on_branch(self, interp, st, test_node, tv, truth):
        tags = frozenset(t for t in tv.tags if isinstance(t, tuple) and t and t[0] in ("ret", "len-of"))
        sig = (id(test_node), tags, tv.pdeps, frozenset(a for (_o, a) in tv.deps if _o != "param"),
               interp.frames[-1].fn.qualname, getattr(test_node, "lineno", 0))
        self.sigs[id(test_node)] = sig
        st.comp[self.name] = st.comp[self.name] | {sig}

    def on_event(self, interp, st, ev):
        if ev.type == "raise":
            self.raises.append((ev.exc, st.comp[self.name], ev))
        elif ev.type == "write" and ev.loc[1] == "_vertices" and ev.f.get("rhs") is not None and any(
                isinstance(t_, tuple) and t_ and t_[0] in ("copy-of", "reorder-of", "reverse-of") and any(
                    isinstance(l_, tuple) and l_[-1] == "_vertices" for l_ in (t_[1] if isinstance(t_[1], tuple) else ())) for t_ in ev.rhs.tags):
            # a row selection of the vertex array stored back into it: on this path the vertices have been (re)ordered
            st.comp[self.name] = st.comp[self.name] | {REORDERED_SIG}


class PathConds(Component):
    """the branch outcomes that hold on every way to the current point: frozenset of (test node id, truth); the tested
    values are kept in `tests` (node id -> Val).  Joins intersect."""
    name = "pathconds"

    def __init__(self):
        self.tests = {}

    def init(self, interp):
        return frozenset()

    def join(self, a, b):
        return a & b

    def on_branch(self, interp, st, test_node, tv, truth):
        self.tests[id(test_node)] = (tv, test_node)
        st.comp[self.name] = st.comp[self.name] | {(id(test_node), truth)}


class CopyCache(Component):
    """COH-6: a copy of a shape (copy.copy / copy.deepcopy) carries the lazily filled caches of the original.  Writing state
    such a cache is computed from on the copy, without resetting the cache, and then reading the cache (through any getter
    of the copy) uses the value of the *original* geometry."""
    name = "copycache"

    def __init__(self):
        self.violations = []      # (ev read, cache, written attr, ev write)

    def init(self, interp):
        return {}

    def copy(self, v):
        return dict(v)

    def join(self, a, b):
        out = {}
        for k in set(a) | set(b):
            x, y = a.get(k), b.get(k)
            if x == y:
                out[k] = x
            elif x is None or y is None:
                out[k] = x or y
            else:
                sx = x[0] if isinstance(x, tuple) else x
                sy = y[0] if isinstance(y, tuple) else y
                out[k] = x if sx == "stale" else (y if sy == "stale" else "inherited")
        return out

    def on_branch(self, interp, st, test_node, tv, truth):
        x = tv.extra
        neg = False
        if x and x[0] == "not":
            x, neg = x[1].extra, True
        if not x or x[0] != "cmp":
            return
        node, left, rights = x[1], x[2], x[3]
        if len(rights) == 1 and isinstance(node.ops[0], (ast.Is, ast.IsNot)) and rights[0].has_const() and rights[0].const is None:
            none_when = isinstance(node.ops[0], ast.Is) != neg
            state = st.comp[self.name]
            for loc in left.al:
                if loc in state and truth == none_when:
                    state[loc] = "absent"

    def on_event(self, interp, st, ev):
        state = st.comp[self.name]
        if ev.type == "copyobj":
            for x in EXTRA_CACHE_READS:
                state[(ev.new, x)] = "inherited"
            return
        if ev.type == "write":
            oid, attr = ev.loc
            if (oid, attr) in state:
                rhs = ev.rhs
                state[(oid, attr)] = "absent" if (ev.mode == "rebind" and rhs is not None and rhs.has_const() and rhs.const is None) else "fresh"
                return
            for (o, x), cur in list(state.items()):
                if o == oid and attr in EXTRA_CACHE_READS.get(x, ()) and cur == "inherited":
                    state[(o, x)] = ("stale", attr, ev)
            return
        if ev.type == "read":
            cur = state.get(ev.loc)
            if isinstance(cur, tuple) and cur[0] == "stale" and not _is_none_test_read(ev, ev.loc[1]):
                self.violations.append((ev, ev.loc[1], cur[1], cur[2]))


class HullProvenance(Component):
    """CMB-1: `_combine_simplices` groups the hull's triangles into facets by comparing their plane equations with a tolerance
    of a few ulps.  That is sound only for the equations qhull itself returned (it reports bit-identical equations for the
    simplices of one merged facet).  Equations recomputed from the vertices (`_find_simplex_equations`, after a rotation, a
    translation or a re-sort) agree only to rounding, so regrouping them splits facets.  Typestate of
    `_simplex_equations`: 'hull' (last rebound from ConvexHull.equations) / 'recomputed' (last rebound from anything else)."""
    name = "hullprov"

    def __init__(self):
        self.violations = []

    def init(self, interp):
        return "unknown"

    def join(self, a, b):
        if a == b:
            return a
        return "recomputed" if "recomputed" in (a, b) else "unknown"

    def on_event(self, interp, st, ev):
        if ev.type == "write" and ev.loc[1] == "_simplex_equations" and ev.loc[0] == "self" and ev.mode == "rebind":
            rhs = ev.rhs
            st.comp[self.name] = "hull" if (rhs is not None and "hull" in rhs.tags) else "recomputed"
        elif ev.type == "enter" and not ev.entry and ev.callee.name == "_combine_simplices":
            if st.comp[self.name] == "recomputed":
                self.violations.append(ev)
