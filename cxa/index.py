"""E0 - program index: modules, classes, MRO, members, imports, module constants."""

from __future__ import annotations

import ast
import glob
import os
from dataclasses import dataclass, field
from typing import Dict, List, Optional


class AnalysisError(Exception):
    """The checker cannot stand behind a verdict (exit 2)."""


@dataclass
class FuncInfo:
    name: str
    node: ast.AST  # FunctionDef or Lambda
    module: "ModuleInfo"
    cls: Optional["ClassInfo"] = None
    kind: str = "function"  # function|method|getter|setter|cached|classmethod|staticmethod|nested|lambda
    decorators: tuple = ()

    @property
    def qualname(self):
        return f"{self.cls.name}.{self.name}" if self.cls else f"{self.module.name}.{self.name}"

    @property
    def params(self):
        a = self.node.args
        return [x.arg for x in list(a.posonlyargs) + list(a.args)]

    @property
    def file(self):
        return self.module.relpath

    @property
    def lineno(self):
        return self.node.lineno

    def docstring(self):
        try:
            return ast.get_docstring(self.node) or ""
        except Exception:
            return ""


@dataclass
class PropInfo:
    name: str
    getter: Optional[FuncInfo]
    setter: Optional[FuncInfo]
    cls: "ClassInfo"
    cached: bool = False


@dataclass
class ClassInfo:
    name: str
    node: ast.ClassDef
    module: "ModuleInfo"
    base_names: List[str]
    bases: List["ClassInfo"] = field(default_factory=list)
    mro: List["ClassInfo"] = field(default_factory=list)
    methods: Dict[str, FuncInfo] = field(default_factory=dict)
    props: Dict[str, PropInfo] = field(default_factory=dict)
    class_attrs: Dict[str, ast.AST] = field(default_factory=dict)

    def __hash__(self):
        return hash((self.module.name, self.name))

    def __eq__(self, o):
        return self is o

    def lookup(self, name):
        """Resolve a member through the MRO -> FuncInfo | PropInfo | ('classattr', node) | None."""
        for c in self.mro:
            if name in c.props:
                return c.props[name]
            if name in c.methods:
                return c.methods[name]
            if name in c.class_attrs:
                return ("classattr", c.class_attrs[name], c)
        return None

    def is_subclass_of(self, name):
        return any(c.name == name for c in self.mro)

    def docstring(self):
        return ast.get_docstring(self.node) or ""

    def public_members(self):
        """All non-underscore member names reachable through the MRO (+ __repr__, __init__)."""
        names = {}
        for c in reversed(self.mro):
            for n in list(c.props) + list(c.methods):
                names[n] = c
        out = {}
        for n in names:
            if not n.startswith("_") or n in ("__repr__", "__init__"):
                out[n] = self.lookup(n)
        return out


@dataclass
class ModuleInfo:
    name: str  # dotted, e.g. coxeter.shapes.polygon
    path: str
    relpath: str
    tree: ast.Module
    source: str
    imports: Dict[str, tuple] = field(default_factory=dict)  # local -> (module dotted, name|None)
    functions: Dict[str, FuncInfo] = field(default_factory=dict)
    classes: Dict[str, ClassInfo] = field(default_factory=dict)
    constants: Dict[str, ast.AST] = field(default_factory=dict)

    @property
    def package(self):
        if self.path.endswith("__init__.py"):
            return self.name
        return self.name.rsplit(".", 1)[0]


class Index:
    def __init__(self, repo):
        self.repo = repo
        self.modules: Dict[str, ModuleInfo] = {}
        self.classes: Dict[str, ClassInfo] = {}  # by simple name (unique in coxeter)
        self._load()
        # tables derived from a tree (unknown cached properties) never outlive the Index they were derived for
        from .components import bind_tables
        bind_tables(self)

    # ------------------------------------------------------------------ loading
    def _load(self):
        pkg = os.path.join(self.repo, "coxeter")
        if not os.path.isdir(pkg):
            raise AnalysisError(f"no coxeter package under {self.repo}")
        files = sorted(glob.glob(os.path.join(pkg, "**", "*.py"), recursive=True))
        for path in files:
            rel = os.path.relpath(path, self.repo)
            dotted = rel[:-3].replace(os.sep, ".")
            if dotted.endswith(".__init__"):
                dotted = dotted[: -len(".__init__")]
            try:
                src = open(path, encoding="utf-8").read()
                tree = ast.parse(src, filename=rel)
            except SyntaxError as e:  # repository no longer parses
                raise AnalysisError(f"cannot parse {rel}: {e}")
            m = ModuleInfo(dotted, path, rel, tree, src)
            self.modules[dotted] = m
        # private helpers renamed since the confirmed tree get their reference names back (in the parsed trees only)
        from . import canon
        self.renamed_back = {}
        if not os.environ.get("CXA_NO_CANON"):
            trees = {k: m.tree for k, m in self.modules.items()}
            self.renamed_back = canon.detect(trees)
            canon.apply(trees, self.renamed_back)
        for m in self.modules.values():
            self._index_module(m)
        for m in self.modules.values():
            for c in m.classes.values():
                self._link_bases(c)
        for c in list(self.classes.values()):
            c.mro = self._c3(c)

    def _index_module(self, m: ModuleInfo):
        def handle_import(node):
            if isinstance(node, ast.Import):
                for a in node.names:
                    local = a.asname or a.name.split(".")[0]
                    target = a.name if a.asname else a.name.split(".")[0]
                    m.imports[local] = (target, None)
            elif isinstance(node, ast.ImportFrom):
                base = node.module or ""
                if node.level:
                    parts = m.package.split(".")
                    if node.level > 1:
                        parts = parts[: -(node.level - 1)]
                    base = ".".join(parts + ([node.module] if node.module else []))
                for a in node.names:
                    m.imports[a.asname or a.name] = (base, a.name)

        for node in ast.walk(m.tree):
            if isinstance(node, (ast.Import, ast.ImportFrom)):
                handle_import(node)
        for node in m.tree.body:
            if isinstance(node, ast.FunctionDef):
                m.functions[node.name] = FuncInfo(node.name, node, m, None, "function", tuple(ast.unparse(d) for d in node.decorator_list))
            elif isinstance(node, ast.ClassDef):
                self._index_class(m, node)
            elif isinstance(node, ast.Assign) and len(node.targets) == 1:
                t = node.targets[0]
                if isinstance(t, ast.Name):
                    m.constants[t.id] = node.value
            elif isinstance(node, ast.Try):
                for sub in node.body + [s for h in node.handlers for s in h.body]:
                    if isinstance(sub, ast.Assign) and isinstance(sub.targets[0], ast.Name):
                        m.constants.setdefault(sub.targets[0].id, sub.value)

    def _index_class(self, m: ModuleInfo, node: ast.ClassDef):
        bases = []
        for b in node.bases:
            if isinstance(b, ast.Name):
                bases.append(b.id)
            elif isinstance(b, ast.Attribute):
                bases.append(b.attr)
        c = ClassInfo(node.name, node, m, bases)
        m.classes[node.name] = c
        self.classes[node.name] = c
        for item in node.body:
            if isinstance(item, ast.FunctionDef):
                decos = tuple(ast.unparse(d) for d in item.decorator_list)
                if "property" in decos:
                    fi = FuncInfo(item.name, item, m, c, "getter", decos)
                    c.props[item.name] = PropInfo(item.name, fi, None, c)
                elif any(d.endswith("cached_property") or d.split("(")[0].endswith("cached_property") for d in decos):
                    fi = FuncInfo(item.name, item, m, c, "cached", decos)
                    c.props[item.name] = PropInfo(item.name, fi, None, c, cached=True)
                elif any(d.endswith(".setter") for d in decos):
                    pname = [d for d in decos if d.endswith(".setter")][0][: -len(".setter")]
                    fi = FuncInfo(item.name, item, m, c, "setter", decos)
                    if pname in c.props:
                        c.props[pname].setter = fi
                    else:
                        # setter for a property inherited from a base class: python builds
                        # a new property from the base getter (resolved after linking).
                        c.props[pname] = PropInfo(pname, None, fi, c)
                elif "classmethod" in decos:
                    c.methods[item.name] = FuncInfo(item.name, item, m, c, "classmethod", decos)
                elif "staticmethod" in decos:
                    c.methods[item.name] = FuncInfo(item.name, item, m, c, "staticmethod", decos)
                else:
                    c.methods[item.name] = FuncInfo(item.name, item, m, c, "method", decos)
            elif isinstance(item, ast.Assign) and len(item.targets) == 1 and isinstance(item.targets[0], ast.Name):
                c.class_attrs[item.targets[0].id] = item.value

    def _link_bases(self, c: ClassInfo):
        for b in c.base_names:
            target = self.resolve_name(c.module, b)
            if isinstance(target, ClassInfo):
                c.bases.append(target)

    def _c3(self, c):
        def merge(seqs):
            res = []
            seqs = [list(s) for s in seqs if s]
            while seqs:
                for s in seqs:
                    cand = s[0]
                    if not any(cand in t[1:] for t in seqs):
                        break
                else:
                    raise AnalysisError(f"inconsistent MRO for {c.name}")
                res.append(cand)
                seqs = [[x for x in s if x is not cand] for s in seqs]
                seqs = [s for s in seqs if s]
            return res

        return [c] + merge([self._c3(b) for b in c.bases] + [list(c.bases)])

    # ------------------------------------------------------------------ resolution
    def resolve_name(self, module: ModuleInfo, name: str, _depth=0):
        """Resolve a global name in a module -> ClassInfo | FuncInfo | ModuleInfo | ('const', node, module) | ('ext', dotted)."""
        if _depth > 8:
            return None
        if name in module.classes:
            return module.classes[name]
        if name in module.functions:
            return module.functions[name]
        if name in module.imports:
            mod, attr = module.imports[name]
            if attr is None:
                if mod in self.modules:
                    return self.modules[mod]
                return ("ext", mod)
            full = f"{mod}.{attr}"
            if full in self.modules:
                return self.modules[full]
            if mod in self.modules:
                r = self.resolve_name(self.modules[mod], attr, _depth + 1)
                if r is not None:
                    return r
                return None
            return ("ext", full)
        if name in module.constants:
            return ("const", module.constants[name], module)
        return None

    # ------------------------------------------------------------------ helpers
    def shape_classes(self):
        """Concrete shape classes (subclasses of Shape without abstract role)."""
        out = []
        for c in self.classes.values():
            if c.is_subclass_of("Shape") and c.name not in ("Shape", "Shape2D", "Shape3D"):
                out.append(c)
        return sorted(out, key=lambda c: c.name)

    def cls(self, name) -> ClassInfo:
        if name not in self.classes:
            raise AnalysisError(f"anchor vanished: class {name}")
        return self.classes[name]

    def func(self, cls_name, member, which="method") -> FuncInfo:
        c = self.cls(cls_name)
        m = c.lookup(member)
        if m is None:
            raise AnalysisError(f"anchor vanished: {cls_name}.{member}")
        if isinstance(m, PropInfo):
            f = m.setter if which == "setter" else m.getter
            if f is None:
                raise AnalysisError(f"anchor vanished: {cls_name}.{member} {which}")
            return f
        if isinstance(m, FuncInfo):
            return m
        raise AnalysisError(f"anchor vanished: {cls_name}.{member}")

    def module(self, dotted) -> ModuleInfo:
        if dotted not in self.modules:
            raise AnalysisError(f"anchor vanished: module {dotted}")
        return self.modules[dotted]

    def effective_prop(self, cls: ClassInfo, name):
        """Python semantics of property inheritance: the first class in the MRO defining
        `name` as a property supplies getter+setter; a class defining only a `.setter`
        inherits the getter of the property object it was built from."""
        for c in cls.mro:
            if name in c.props:
                p = c.props[name]
                if p.getter is None:
                    # built from base property
                    for b in c.mro[1:]:
                        if name in b.props and b.props[name].getter is not None:
                            return PropInfo(name, b.props[name].getter, p.setter, c, b.props[name].cached)
                return p
            if name in c.methods:
                return None
        return None


_INDEX_CACHE = {}


def get_index(repo) -> Index:
    key = os.path.abspath(repo)
    if key not in _INDEX_CACHE:
        _INDEX_CACHE[key] = Index(key)
    return _INDEX_CACHE[key]
