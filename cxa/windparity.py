"""IN-8: the winding number computed by Polygon.is_inside is odd under reversal of the vertex order.

The winding number of a closed polygon about a point changes sign when the vertices are listed the other way round,
and the answer `winding_number != 0` is therefore orientation-free.  For a sum over edges  sum_i h(v_i, v_{i+1}, p)  this
holds iff the per-edge term is antisymmetric in its two end points:  h(v_{i+1}, v_i, p) = -h(v_i, v_{i+1}, p).  The two
end points must in particular be classified by the *same* function (sign of the x offset with the same y tie-break): an
implementation that treats the end point differently from the start point (a tie-break applied to one of them only, an
end-point quantity derived from a stale copy of the start-point one) yields a term of mixed parity and a wrong winding
number for query points that share a coordinate with a vertex.

The function body is evaluated with the cycle evaluator of cxa/cyc.py (vertex arrays are polynomials in x@s, y@s; roll
shifts s) extended by the constructs of this algorithm:

    a[a == 0] = b[a == 0]       ->  tb(a, b)         (two-argument function atom, 'first non-zero')
    a[a != 0] = 1               ->  nz(a)            (even)
    np.sign(u)                  ->  sign(u)          (odd, argument canonicalised)
    x // 2                      ->  x / 2            (the sum of the half turns of a closed polygon is even)

Statements that only normalise the query points (atleast_2d, zero padding, the alignment rotation) are identities in this
domain.  Anything else leaves the fragment: no verdict.
"""

from __future__ import annotations

import ast
import copy as _copy

from . import cyc
from .algebra import Poly
from .cyc import SV, Evaluator, NotInFragment, fatom

FUNCS2 = {}        # atom -> (fname, [arg polys])


def fatom2(fname, args):
    name = f"F2[{fname}:{'|'.join(repr(a) for a in args)}]"
    FUNCS2[name] = (fname, list(args))
    return Poly.atom(name)


def _odd_atom(fname, arg: Poly) -> Poly:
    """odd function: f(-u) = -f(u); canonical sign of the argument, the sign is pulled out."""
    neg = -arg
    if repr(neg) < repr(arg):
        return -fatom(fname, neg)
    return fatom(fname, arg)


def _map(p: Poly, fn_atom) -> Poly:
    out = Poly()
    for mono, c in p.terms.items():
        term = Poly.const(c)
        for a, e in mono:
            term = term * fn_atom(a).pow(e)
        out = out + term
    return out


def swap_ends(p: Poly) -> Poly:
    """exchange the two end points of every edge: shift 0 <-> shift 1 (the per-edge term uses shifts 0 and 1 only)."""
    def f(a):
        ps = cyc.parse_sym(a)
        if ps:
            if ps[1] not in (0, 1):
                raise NotInFragment("shift outside {0, 1}")
            return Poly.atom(cyc.sym(ps[0], 1 - ps[1]))
        if a in cyc.FUNCS:
            fn, arg = cyc.FUNCS[a]
            inner = swap_ends(arg)
            if fn == "sign":
                return _odd_atom("sign", inner)
            return fatom(fn, inner)
        if a in FUNCS2:
            fn, args = FUNCS2[a]
            return fatom2(fn, [swap_ends(x) for x in args])
        return Poly.atom(a)
    return _map(p, f)


class WindEval(Evaluator):
    def __init__(self, points_name):
        verts = SV("cyc", [Poly.atom(cyc.sym(c, 0)) for c in "xyz"])
        pts = SV("vec", [Poly.atom(f"p.{c}") for c in "xyz"])
        hooks = {
            "_align_points_by_normal": lambda ev, n: SV("tuple", items=[cyc.aligned_points_arg(ev, n), SV("rot")]),
            "np.atleast_2d": lambda ev, n: ev.ev(n.args[0]),
            "len": lambda ev, n: SV("scal", [Poly.atom("LEN")]),
            "np.asarray": lambda ev, n: ev.ev(n.args[0]),
            "np.hstack": self._first_of_display, "np.column_stack": self._first_of_display, "np.concatenate": self._first_of_display,
            "np.sign": self._sign, "np.multiply": lambda ev, n: ev.binop(ast.Mult(), ev.ev(n.args[0]), ev.ev(n.args[1])),
            "np.where": self._where,
        }
        super().__init__({points_name: pts}, {"self.vertices": verts, "self._vertices": verts,
                                              "self.normal": SV("vec", [Poly.atom(f"n.{c}") for c in "xyz"]),
                                              "self._normal": SV("vec", [Poly.atom(f"n.{c}") for c in "xyz"])}, hooks)
        self.points_name = points_name
        self.masks = {}

    @staticmethod
    def _first_of_display(ev, n):
        a0 = n.args[0]
        if isinstance(a0, (ast.Tuple, ast.List)) and a0.elts:
            return ev.ev(a0.elts[0])
        raise NotInFragment("stack")

    @staticmethod
    def _where(ev, n):
        """np.where(X == 0, B, X) / np.where(X != 0, X, B) -> tb(X, B);  np.where(X != 0, 1, X | 0) / np.where(X == 0, 0, 1) -> nz(X)."""
        if len(n.args) != 3:
            raise NotInFragment("where")
        cond, a, b = n.args
        if not (isinstance(cond, ast.Compare) and len(cond.ops) == 1 and isinstance(cond.ops[0], (ast.Eq, ast.NotEq))
                and isinstance(cond.comparators[0], ast.Constant) and cond.comparators[0].value == 0):
            raise NotInFragment("where condition")
        x = ev.ev(cond.left)
        va, vb = ev.ev(a), ev.ev(b)
        if isinstance(cond.ops[0], ast.Eq):
            va, vb = vb, va                      # now: va where X != 0, vb where X == 0

        def same(u, v):
            return [repr(c) for c in u.comps] == [repr(c) for c in v.comps]

        def const(u, val):
            return len(u.comps) == 1 and u.comps[0].const_value() is not None and u.comps[0].const_value() == val
        if same(va, x):
            if len(vb.comps) != len(x.comps):
                raise NotInFragment("where shapes")
            return SV(x.kind, [fatom2("tb", [p, q]) for p, q in zip(x.comps, vb.comps)], x.summed)
        if const(va, 1) and (same(vb, x) or const(vb, 0)):
            return SV(x.kind, [fatom("nz", c) for c in x.comps], x.summed)
        raise NotInFragment("where form")

    @staticmethod
    def _sign(ev, n):
        v = ev.ev(n.args[0])
        return SV(v.kind, [_odd_atom("sign", c) for c in v.comps], v.summed)

    # ---- statements
    def run(self, stmts):
        for s in stmts:
            if isinstance(s, ast.Expr) and isinstance(s.value, ast.Constant):
                continue
            if isinstance(s, ast.If) and not s.orelse:
                # a normalisation of the query points: the body must leave every name it assigns unchanged in this domain
                sub = _copy.copy(self)
                sub.env = dict(self.env)
                sub.run(s.body)
                for k, v in sub.env.items():
                    old = self.env.get(k)
                    if old is None or [repr(c) for c in old.comps] != [repr(c) for c in v.comps]:
                        raise NotInFragment("conditional that changes a value")
                continue
            if isinstance(s, ast.Assign) and len(s.targets) == 1 and isinstance(s.targets[0], ast.Subscript) \
                    and isinstance(s.targets[0].value, ast.Name):
                self.masked_store(s)
                continue
            if isinstance(s, ast.Return):
                return self.ev(s.value)
            r = super().run([s])
            if r is not None:
                return r
        return None

    align_like = None      # callable(method name) -> bool: the method returns (rotated points, rotation)

    def call(self, n):
        f = n.func
        if isinstance(f, ast.Attribute) and isinstance(f.value, ast.Name) and f.value.id == "self" and len(n.args) == 1 and not n.keywords \
                and self.align_like is not None and self.align_like(f.attr):
            return SV("tuple", items=[self.ev(n.args[0]), SV("rot")])
        return super().call(n)

    def _mask(self, node):
        """(kind, array name, value of that array when the mask was taken) for `name == 0` / `name != 0`, inline or a local."""
        if isinstance(node, ast.Name) and node.id in self.masks:
            return self.masks[node.id]
        if isinstance(node, ast.Compare) and len(node.ops) == 1 and isinstance(node.left, ast.Name) \
                and isinstance(node.comparators[0], ast.Constant) and node.comparators[0].value == 0 and node.left.id in self.env:
            if isinstance(node.ops[0], ast.Eq):
                return ("eq0", node.left.id, self.env[node.left.id])
            if isinstance(node.ops[0], ast.NotEq):
                return ("ne0", node.left.id, self.env[node.left.id])
        return None

    def masked_store(self, s):
        tgt = s.targets[0]
        name = tgt.value.id
        m = self._mask(tgt.slice)
        if m is None or name not in self.env:
            raise NotInFragment("subscript store")
        kind, mname, snap = m
        cur = self.env[name]
        if snap is None or [repr(c) for c in snap.comps] != [repr(c) for c in cur.comps]:
            raise NotInFragment("mask of another array / of an older value")
        if kind == "eq0":
            # a[a == 0] = b[a == 0]
            rhs = s.value
            if isinstance(rhs, ast.Subscript):
                rm = self._mask(rhs.slice)
                if rm is None or rm[0] != kind or [repr(c) for c in rm[2].comps] != [repr(c) for c in snap.comps]:
                    raise NotInFragment("store under a different mask")
                b = self.ev(rhs.value)
            else:
                b = self.ev(rhs)
            if len(b.comps) != len(cur.comps):
                raise NotInFragment("shape")
            self.env[name] = SV(cur.kind, [fatom2("tb", [x, y]) for x, y in zip(cur.comps, b.comps)], cur.summed)
        else:
            v = self.ev(s.value)
            if not (len(v.comps) == 1 and v.comps[0] == Poly.const(1)):
                raise NotInFragment("indicator store")
            self.env[name] = SV(cur.kind, [fatom("nz", c) for c in cur.comps], cur.summed)

    def ev(self, n):
        if isinstance(n, ast.Compare) and len(n.ops) == 1 and isinstance(n.ops[0], (ast.Eq, ast.NotEq)) \
                and isinstance(n.comparators[0], ast.Constant) and n.comparators[0].value == 0 and isinstance(n.left, ast.Name):
            return SV("mask", [], items=[("eq0" if isinstance(n.ops[0], ast.Eq) else "ne0", n.left.id, self.env.get(n.left.id))])
        if isinstance(n, ast.BinOp) and isinstance(n.op, ast.FloorDiv):
            return self.binop(ast.Div(), self.ev(n.left), self.ev(n.right))
        return super().ev(n)

    def subscript(self, n):
        sl = n.slice
        elts = sl.elts if isinstance(sl, ast.Tuple) else [sl]
        # [..., c] / [None, :, :] / [:, None]
        if elts and isinstance(elts[0], ast.Constant) and elts[0].value is Ellipsis and len(elts) == 2:
            base = self.ev(n.value)
            c = self._const(elts[1])
            if isinstance(c, int) and base.kind in ("cyc", "vec") and c < len(base.comps):
                return SV("cyc" if base.kind == "cyc" else "scal", [base.comps[c]], base.summed)
            raise NotInFragment("ellipsis subscript")
        if all((isinstance(e, ast.Constant) and e.value is None) or (isinstance(e, ast.Slice) and e.lower is None and e.upper is None) for e in elts):
            return self.ev(n.value)
        return super().subscript(n)


class _W(WindEval):
    """mask locals: `zeros_p1 = vertex_sign_p1 == 0` binds a mask of the *current* value of the array."""

    def bind(self, t, v):
        if isinstance(t, ast.Name) and v.kind == "mask":
            self.masks[t.id] = v.items[0]
            return
        super().bind(t, v)


def winding_parity(fn_node, points_name="points", index=None, cls=None):
    """-> ('odd' | 'even' | 'mixed' | 'zero', description) of the per-edge term of the returned winding test."""
    ev = _W(points_name)
    if index is not None and cls is not None:
        def _align_like(name, _cache={}):
            if name not in _cache:
                from .index import FuncInfo
                from .interp import Interp
                m = cls.lookup(name)
                ok = False
                if isinstance(m, FuncInfo):
                    try:
                        v = Interp(index).run_entry(m, cls)["result"]
                        ok = v is not None and v.items is not None and len(v.items) == 2 and "orth" in v.items[1].tags
                    except Exception:
                        ok = False
                _cache[name] = ok
            return _cache[name]
        ev.align_like = _align_like
        fn_info = cls.lookup("is_inside")
        if fn_info is not None and hasattr(fn_info, "module"):
            ev.functions = {k_: v_.node for k_, v_ in fn_info.module.functions.items() if k_ not in ("_align_points_by_normal",)}
    body = [s for s in fn_node.body if not (isinstance(s, ast.Expr) and isinstance(s.value, ast.Constant))]
    # the returned expression `w != 0` / `w > 0` ...: judge the summed quantity w
    ret_node = None
    for s in body:
        if isinstance(s, ast.Return):
            ret_node = s
    if ret_node is None:
        raise NotInFragment("no return")
    rv = ret_node.value
    if isinstance(rv, ast.Name):
        # t = w != 0; return t
        for s in body:
            if isinstance(s, ast.Assign) and len(s.targets) == 1 and isinstance(s.targets[0], ast.Name) and s.targets[0].id == rv.id \
                    and isinstance(s.value, ast.Compare):
                rv = s.value
    if not (isinstance(rv, ast.Compare) and len(rv.ops) == 1):
        raise NotInFragment("returned value is not a comparison")
    stmts = [s for s in body if s is not ret_node and not (isinstance(s, ast.Assign) and s.value is rv)]
    ev.run(stmts)
    w = ev.ev(rv.left)
    if not w.summed or len(w.comps) != 1:
        raise NotInFragment("the compared quantity is not a sum over the edges")
    p = w.comps[0]
    q = swap_ends(p)
    if p.is_zero():
        return "zero", repr(p)
    if (p + q).is_zero():
        return "odd", repr(p)
    if p == q:
        return "even", repr(p)
    return "mixed", repr(p)
