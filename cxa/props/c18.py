"""C18 - every tabulated family entry is the solid its name says (static data audit + loader dataflow)."""

from __future__ import annotations

import ast
import json
import os
import re

import numpy as np
from scipy.spatial import ConvexHull

from ..index import AnalysisError
from ..report import Result

EXPLANATION = (
    "Static audit of the source artefacts coxeter/families/data/*.json (never runs coxeter; geometry of each vertex "
    "table is computed by the checker's own scipy.spatial.ConvexHull): family sizes 5/13/13/92/16/6/145; each entry has "
    "type ConvexPolyhedron, finite distinct Nx3 vertices in convex position, Euler's relation; Platonic / Archimedean / "
    "Catalan V, E, F equal an embedded textbook table; unit volume for the six named families; equal edge lengths and "
    "regular faces for Platonic, Archimedean, Johnson, prism/antiprism, pyramid/dipyramid; equal origin-to-face-plane "
    "distances (insphere) for Catalan; Johnson codes J1..J92 each once with the textbook vertex count; every repository "
    "entry that cites a source file equals that file's entry of the same name vertex for vertex; documented option "
    "names equal the keys; LOAD-1 loader dataflow (names = key list in file order, __iter__ yields (key, "
    "get_shape(key)) with the same variable, get_shape indexes data[name] and passes the record unmodified to "
    "from_gsd_type_shapes, _from_json_file loads the given file). That ConvexPolyhedron(...) succeeds on each table at "
    "run time is replaced by the convex-position check on the data."
)

DATA = "coxeter/families/data"
SIZES = {"platonic": 5, "archimedean": 13, "catalan": 13, "johnson": 92, "prism_antiprism": 16, "pyramid_dipyramid": 6,
         "science1220869": 145}
VEF = {
    "Tetrahedron": (4, 6, 4), "Cube": (8, 12, 6), "Octahedron": (6, 12, 8), "Dodecahedron": (20, 30, 12), "Icosahedron": (12, 30, 20),
    "Truncated Tetrahedron": (12, 18, 8), "Cuboctahedron": (12, 24, 14), "Truncated Cube": (24, 36, 14),
    "Truncated Octahedron": (24, 36, 14), "Rhombicuboctahedron": (24, 48, 26), "Truncated Cuboctahedron": (48, 72, 26),
    "Snub Cuboctahedron": (24, 60, 38), "Icosidodecahedron": (30, 60, 32), "Truncated Dodecahedron": (60, 90, 32),
    "Truncated Icosahedron": (60, 90, 32), "Rhombicosidodecahedron": (60, 120, 62), "Truncated Icosidodecahedron": (120, 180, 62),
    "Snub Icosidodecahedron": (60, 150, 92),
    "Triakis Tetrahedron": (8, 18, 12), "Rhombic Dodecahedron": (14, 24, 12), "Triakis Octahedron": (14, 36, 24),
    "Tetrakis Hexahedron": (14, 36, 24), "Deltoidal Icositetrahedron": (26, 48, 24), "Disdyakis Dodecahedron": (26, 72, 48),
    "Pentagonal Icositetrahedron": (38, 60, 24), "Rhombic Triacontahedron": (32, 60, 30), "Triakis Icosahedron": (32, 90, 60),
    "Pentakis Dodecahedron": (32, 90, 60), "Deltoidal Hexecontahedron": (62, 120, 60), "Disdyakis Triacontahedron": (62, 180, 120),
    "Pentagonal Hexecontahedron": (92, 150, 60),
}
JOHNSON_V = [5, 6, 9, 12, 15, 20, 7, 9, 11, 9, 11, 5, 7, 8, 10, 12, 10, 15, 20, 25, 30, 15, 20, 25, 30, 8, 12, 16, 16, 20, 20, 25,
             25, 30, 18, 18, 24, 30, 30, 35, 35, 40, 40, 18, 24, 30, 35, 40, 7, 8, 9, 11, 12, 13, 14, 14, 15, 21, 22, 22, 23, 10,
             9, 10, 15, 28, 32, 65, 70, 70, 75, 60, 60, 60, 60, 55, 55, 55, 55, 50, 50, 50, 45, 8, 16, 10, 11, 12, 14, 16, 14, 18]
EQUAL_EDGES = {"platonic", "archimedean", "johnson", "prism_antiprism", "pyramid_dipyramid"}
UNIT_VOLUME = {"platonic", "archimedean", "catalan", "johnson", "prism_antiprism", "pyramid_dipyramid"}
TOL = 1e-9


def geometry(verts):
    """-> dict(V, E, F, volume, convex, faces(list of ordered index lists), offsets, edge_lengths, regular)"""
    pts = np.asarray(verts, dtype=float)
    hull = ConvexHull(pts)
    convex = len(hull.vertices) == len(pts)
    eq = hull.equations
    # group coplanar simplices
    groups = []
    reps = np.empty((0, eq.shape[1]))
    for i, e in enumerate(eq):
        if len(reps):
            dist = np.abs(reps - e).max(axis=1)
            j = int(np.argmin(dist))
            if dist[j] < 1e-7:
                groups[j].append(i)
                continue
        groups.append([i])
        reps = np.vstack([reps, e])
    faces = []
    edges = set()
    regular = True
    lens = []
    for g in groups:
        idx = sorted(set(hull.simplices[g].ravel()))
        n = eq[g[0]][:3]
        c = pts[idx].mean(axis=0)
        u = pts[idx[0]] - c
        u /= np.linalg.norm(u)
        w = np.cross(n, u)
        ang = [np.arctan2(np.dot(pts[i] - c, w), np.dot(pts[i] - c, u)) for i in idx]
        order = [i for _, i in sorted(zip(ang, idx))]
        faces.append(order)
        r = [np.linalg.norm(pts[i] - c) for i in order]
        el = []
        for a, b in zip(order, order[1:] + order[:1]):
            edges.add((min(a, b), max(a, b)))
            el.append(np.linalg.norm(pts[a] - pts[b]))
        if max(r) - min(r) > 1e-7 * max(r) or max(el) - min(el) > 1e-7 * max(el):
            regular = False
    for a, b in edges:
        lens.append(np.linalg.norm(pts[a] - pts[b]))
    offsets = np.array([-eq[g[0]][3] for g in groups])
    return {"V": len(pts), "E": len(edges), "F": len(faces), "volume": hull.volume, "convex": convex, "faces": faces,
            "offsets": offsets, "edge_lengths": np.array(lens), "regular": regular}


def run(index, tier="quick", seed=0) -> Result:
    res = Result("C18", EXPLANATION)
    res.trusted_base.append("scipy.spatial.ConvexHull (qhull) of the tooling venv, applied to the JSON vertex tables")
    root = os.path.join(index.repo, DATA)
    data = {}
    for stem, size in SIZES.items():
        path = os.path.join(root, stem + ".json")
        if not os.path.exists(path):
            raise AnalysisError(f"anchor vanished: {DATA}/{stem}.json")
        with open(path) as f:
            try:
                data[stem] = json.load(f)
            except Exception as e:
                raise AnalysisError(f"{stem}.json does not parse: {e}")
        k = f"{stem}:size"
        if len(data[stem]) == size:
            res.ok("SIZE", k, sample={"file": stem, "entries": size})
        else:
            res.bad("SIZE", k, f"{DATA}/{stem}.json", f"{stem}.json has {len(data[stem])} entries, expected {size}")
    nent = 0
    for stem, d in data.items():
        where = f"{DATA}/{stem}.json"
        for name, rec in d.items():
            nent += 1
            k = f"{stem}:{name}"
            res.evaluations += 1
            v = rec.get("vertices")
            if rec.get("type") != "ConvexPolyhedron":
                res.bad("ENTRY", k + ":type", where, f"{k}: type is {rec.get('type')!r}, not 'ConvexPolyhedron'")
                continue
            try:
                arr = np.asarray(v, dtype=float)
                okshape = arr.ndim == 2 and arr.shape[1] == 3 and arr.shape[0] >= 4 and np.isfinite(arr).all()
            except Exception:
                okshape = False
            if not okshape:
                res.bad("ENTRY", k + ":vertices", where, f"{k}: vertices are not a finite Nx3 table with N >= 4")
                continue
            from scipy.spatial.distance import pdist
            dmin = pdist(arr).min()
            if dmin < 1e-9:
                res.bad("ENTRY", k + ":duplicate", where, f"{k}: two vertices coincide")
                continue
            try:
                g = geometry(arr)
            except Exception as e:
                res.bad("ENTRY", k + ":hull", where, f"{k}: convex hull of the table fails ({type(e).__name__})")
                continue
            probs = []
            if not g["convex"]:
                probs.append("a listed vertex is not a vertex of the convex hull")
            if g["V"] - g["E"] + g["F"] != 2:
                probs.append(f"V-E+F = {g['V'] - g['E'] + g['F']}")
            if stem in UNIT_VOLUME and abs(g["volume"] - 1) > TOL:
                probs.append(f"volume {g['volume']:.12g} != 1")
            if stem in ("platonic", "archimedean", "catalan"):
                if name not in VEF:
                    probs.append("name not in the textbook table")
                elif (g["V"], g["E"], g["F"]) != VEF[name]:
                    probs.append(f"(V,E,F) = {(g['V'], g['E'], g['F'])}, textbook {VEF[name]}")
            if stem in EQUAL_EDGES:
                el = g["edge_lengths"]
                if el.max() - el.min() > 1e-7 * el.max():
                    probs.append(f"edge lengths differ ({el.min():.9g} .. {el.max():.9g})")
                if not g["regular"]:
                    probs.append("a face is not a regular polygon")
            if stem == "catalan":
                off = g["offsets"]
                if off.max() - off.min() > 1e-7 * abs(off).max():
                    probs.append(f"face planes are not equidistant from the origin ({off.min():.9g} .. {off.max():.9g}): no insphere")
            if probs:
                res.bad("ENTRY", k, where, f"{k}: " + "; ".join(probs))
            else:
                res.ok("ENTRY", k, nontrivial=True, sample={"entry": k, "VEF": [g["V"], g["E"], g["F"]], "volume": round(g["volume"], 12)} if nent % 40 == 1 else None)
    # Johnson codes
    codes = {}
    for name, rec in data["johnson"].items():
        codes.setdefault(rec.get("short_name"), []).append((name, len(rec.get("vertices", []))))
    for i in range(1, 93):
        c = f"J{i:02d}" if f"J{i:02d}" in codes else f"J{i}"
        k = f"johnson:{c}"
        if c not in codes:
            res.bad("JOHNSON", k, f"{DATA}/johnson.json", f"no entry carries the code {c}")
        elif len(codes[c]) > 1:
            res.bad("JOHNSON", k, f"{DATA}/johnson.json", f"code {c} is used by {[n for n, _ in codes[c]]}")
        elif codes[c][0][1] != JOHNSON_V[i - 1]:
            res.bad("JOHNSON", k, f"{DATA}/johnson.json", f"{c} ({codes[c][0][0]}) has {codes[c][0][1]} vertices, textbook {JOHNSON_V[i - 1]}")
        else:
            res.ok("JOHNSON", k)
    # cross-file references
    nsrc = 0
    for key, rec in data["science1220869"].items():
        src = rec.get("source")
        if not src:
            continue
        nsrc += 1
        k = f"science1220869:{key}:source"
        stem = src[:-5] if src.endswith(".json") else src
        if stem not in data:
            res.bad("XREF", k, f"{DATA}/science1220869.json", f"{key} cites unknown source {src}")
            continue
        nm = rec.get("name")
        cand = data[stem].get(nm)
        if cand is None:
            # some files use an alternative name
            alt = [r for r in data[stem].values() if r.get("alternative_name") == nm or r.get("short_name") == rec.get("short_name")]
            cand = alt[0] if alt else None
        if cand is None:
            res.bad("XREF", k, f"{DATA}/science1220869.json", f"{key} cites {src} but that file has no entry named {nm!r}")
        elif not (np.asarray(cand["vertices"]).shape == np.asarray(rec["vertices"]).shape
                  and np.array_equal(np.asarray(cand["vertices"], float), np.asarray(rec["vertices"], float))):
            res.bad("XREF", k, f"{DATA}/science1220869.json", f"{key} ({nm}) differs from its cited source entry in {src}")
        else:
            res.ok("XREF", k)
    # ISOMER-1: of two Johnson isomers that differ in where the two modified caps sit, the one named Parabi... has them on
    # opposite sides (a centre of inversion), the one named Metabi... has not: decided on the vertex table itself (for every
    # vertex v the point 2 c - v is a vertex, c the vertex mean), so a table filed under its isomer's name is found
    niso = 0
    for stem, d in data.items():
        for key, rec in d.items():
            for nm in {key, rec.get("name")} - {None}:
                if not isinstance(nm, str) or not nm.startswith(("Parabi", "Metabi")):
                    continue
                try:
                    arr = np.asarray(rec.get("vertices"), dtype=float)
                    c = arr.mean(axis=0)
                    refl = 2 * c - arr
                    dist = np.linalg.norm(refl[:, None, :] - arr[None, :, :], axis=-1).min(axis=1)
                    scale = np.linalg.norm(arr - c, axis=1).max()
                    centro = bool((dist < 1e-6 * scale).all())
                except Exception:
                    continue
                niso += 1
                k = f"{stem}:{nm}:inversion"
                want = nm.startswith("Parabi")
                if centro == want:
                    res.ok("ISOMER-1", k, sample={"entry": f"{stem}:{nm}", "centre_of_inversion": centro})
                else:
                    res.bad("ISOMER-1", k, f"{DATA}/{stem}.json", f"{stem}.json: the table filed as {nm!r} has {'a' if centro else 'no'} centre of inversion; a "
                            f"{'para' if want else 'meta'} isomer has {'one' if want else 'none'} (the vertex tables of the para / meta isomers are exchanged)")
    if niso < 11:
        raise AnalysisError(f"ISOMER-1: only {niso} Parabi/Metabi entries found (11 in johnson.json confirmed)")
    # ISOMER-2: the two golden rhombohedra (rhombic faces with diagonals in the golden ratio, cos(theta) = 1/sqrt(5)): the acute
    # (prolate) one has volume a^3 sqrt(1 - 3 c^2 + 2 c^3) = 0.76085 a^3, the obtuse (oblate) one a^3 sqrt(1 - 3 c^2 - 2 c^3) = 0.47023 a^3
    c5 = 1 / np.sqrt(5.0)
    want_ratio = {"Acute": float(np.sqrt(1 - 3 * c5 ** 2 + 2 * c5 ** 3)), "Obtuse": float(np.sqrt(1 - 3 * c5 ** 2 - 2 * c5 ** 3))}
    ngr = 0
    for stem, d in data.items():
        for key, rec in d.items():
            for nm in {key, rec.get("name")} - {None}:
                if not isinstance(nm, str) or "Golden Rhombohedron" not in nm or nm.split()[0] not in want_ratio:
                    continue
                try:
                    g = geometry(np.asarray(rec.get("vertices"), dtype=float))
                    ratio = g["volume"] / float(np.min(g["edge_lengths"])) ** 3
                except Exception:
                    continue
                ngr += 1
                k = f"{stem}:{nm}:volume"
                if abs(ratio - want_ratio[nm.split()[0]]) < 1e-3:          # (tables are rounded: the two forms differ by 0.29)
                    res.ok("ISOMER-2", k, sample={"entry": f"{stem}:{nm}", "volume_over_edge_cubed": round(ratio, 9)})
                else:
                    res.bad("ISOMER-2", k, f"{DATA}/{stem}.json", f"{stem}.json: the table filed as {nm!r} has volume / edge^3 = {ratio:.6f}; the "
                            f"{nm.split()[0].lower()} golden rhombohedron has {want_ratio[nm.split()[0]]:.6f} (the acute and the obtuse table are exchanged)")
    if ngr < 2:
        raise AnalysisError(f"ISOMER-2: only {ngr} golden rhombohedron entries found (2 confirmed)")
    res.extra["sourced_entries"] = nsrc
    if nent < 290:
        raise AnalysisError(f"only {nent} entries audited (290 confirmed)")
    if nsrc < 120:
        raise AnalysisError(f"only {nsrc} sourced repository entries (133 confirmed)")
    _documented_names(res, index, data)
    _loader(res, index)
    _doi_loader(res, index)
    return res


def _documented_names(res, index, data):
    mod = index.module("coxeter.families.common")
    fam_of = {"PlatonicFamily": "platonic", "ArchimedeanFamily": "archimedean", "CatalanFamily": "catalan",
              "PyramidDipyramidFamily": "pyramid_dipyramid", "PrismAntiprismFamily": "prism_antiprism"}
    for node in mod.tree.body:
        if isinstance(node, ast.Assign) and isinstance(node.targets[0], ast.Name) and node.targets[0].id in fam_of \
                and isinstance(node.value, ast.Call):
            fam = node.targets[0].id
            kw = {k.arg: k.value for k in node.value.keywords}
            args = node.value.args
            fname = None
            for a in ast.walk(node.value):
                if isinstance(a, ast.Constant) and isinstance(a.value, str) and a.value.endswith(".json"):
                    fname = a.value
            k = f"{fam}:file"
            if fname != fam_of[fam] + ".json":
                res.bad("NAMES", k, f"{mod.relpath}:{node.lineno}", f"{fam} loads {fname}, expected {fam_of[fam]}.json")
            else:
                res.ok("NAMES", k)
            doc = kw.get("docstring")
            if doc is not None and isinstance(doc, ast.Constant):
                listed = set(re.sub(r"\s+", " ", x) for x in re.findall(r'"([^"]+)"', doc.value))
                keys = set(data[fam_of[fam]])
                k = f"{fam}:options"
                if listed == keys:
                    res.ok("NAMES", k, sample={"family": fam, "options": len(keys)})
                else:
                    res.bad("NAMES", k, f"{mod.relpath}:{node.lineno}", f"{fam} documents options {sorted(listed - keys)} that are not keys / "
                            f"omits keys {sorted(keys - listed)}")


def _keys_in_order(node, param, env):
    """is `node` the keys of the mapping `param` in iteration (file) order?   finite idiom grammar
       K ::= param | param.keys() | list(K) | tuple(K) | [*K] | (*K,) | [v for v in K] | <local bound to K>"""
    if isinstance(node, ast.Name):
        if node.id == param:
            return True
        if node.id in env:
            return _keys_in_order(env[node.id], param, env)
        return False
    if isinstance(node, ast.Call):
        f = node.func
        if isinstance(f, ast.Attribute) and f.attr == "keys" and not node.args:
            return isinstance(f.value, ast.Name) and (f.value.id == param or _keys_in_order(f.value, param, env))
        if isinstance(f, ast.Name) and f.id in ("list", "tuple") and len(node.args) == 1 and not node.keywords:
            return _keys_in_order(node.args[0], param, env)
        return False
    if isinstance(node, (ast.List, ast.Tuple)) and len(node.elts) == 1 and isinstance(node.elts[0], ast.Starred):
        return _keys_in_order(node.elts[0].value, param, env)
    if isinstance(node, ast.ListComp) and len(node.generators) == 1:
        g = node.generators[0]
        if not g.ifs and isinstance(g.target, ast.Name) and isinstance(node.elt, ast.Name) and node.elt.id == g.target.id:
            return _keys_in_order(g.iter, param, env)
    return False


def _loader(res, index):
    """LOAD-1..3, decided on the inlined abstract run of the loader methods (from_gsd_type_shapes opaque)."""
    from ..index import FuncInfo
    from ..interp import Interp
    mod = index.module("coxeter.families.tabulated_shape_family")
    cls = mod.classes.get("TabulatedGSDShapeFamily")
    if cls is None:
        raise AnalysisError("anchor vanished: TabulatedGSDShapeFamily")
    where = f"{mod.relpath}"
    cfg = {"opaque_functions": ("from_gsd_type_shapes",)}
    init = cls.methods.get("__init__")
    gs = cls.methods.get("get_shape")
    itf = cls.methods.get("__iter__")
    fj = cls.methods.get("_from_json_file") or mod.functions.get("_from_json_file")        # classmethod, or a function of the module
    pn, pd = cls.props.get("names"), cls.props.get("data")
    for nm, x in (("__init__", init), ("get_shape", gs), ("__iter__", itf), ("_from_json_file", fj), ("names", pn), ("data", pd)):
        if x is None:
            raise AnalysisError(f"anchor vanished: TabulatedGSDShapeFamily.{nm}")
    dparam = init.params[1] if len(init.params) > 1 else None

    def attr_of(prop):
        r_ = Interp(index).run_entry(prop.getter, cls)
        v_ = r_["result"]
        locs = {a for (o, a) in (v_.al if v_ is not None else ()) if o == "self"}
        return locs.pop() if len(locs) == 1 else None

    names_attr, data_attr = attr_of(pn), attr_of(pd)
    r0 = Interp(index).run_entry(init, cls)
    w0 = {e.loc[1]: e for e in r0["events"] if e.type == "write" and e.loc[0] == "self"}
    # ---- data is the loaded mapping
    e = w0.get(data_attr)
    data_ok = e is not None and e.rhs is not None and (("param", dparam) in e.rhs.al or (e.rhs.pdeps == {dparam} and ("ret", "builtins.dict") in e.rhs.tags))
    _v(res, data_ok, "LOAD-1", "data is the loaded mapping itself", where)
    # ---- names = keys in file order
    env = {}
    names_ok = False
    for n in init.node.body:
        if isinstance(n, ast.Assign) and len(n.targets) == 1:
            t = n.targets[0]
            if isinstance(t, ast.Name):
                env[t.id] = n.value
            elif isinstance(t, ast.Attribute) and isinstance(t.value, ast.Name) and t.value.id == "self" and t.attr == names_attr:
                names_ok = _keys_in_order(n.value, dparam, env)
    _v(res, names_ok and names_attr is not None, "LOAD-1", "names = key list of the loaded mapping in file order", where)

    def shared_writes(r_):
        out = []
        for e_ in r_["events"]:
            if e_.type == "write" and (e_.loc[0].startswith("class:")):
                out.append((e_, f"class attribute {e_.loc[1]}"))
            elif e_.type == "global-write":
                out.append((e_, f"module-level `{e_.name}`"))
        return out

    # ---- get_shape
    it1 = Interp(index, config=cfg)
    r1 = it1.run_entry(gs, cls)
    what = "get_shape(name) = from_gsd_type_shapes(self.data[name]) (KeyError for unknown names)"
    sw = shared_writes(r1)
    if sw:
        res.bad("LOAD-2", "get_shape:shared-state", sw[0][0].where(), f"get_shape writes {sw[0][1]}, one object shared by every tabulated family: "
                "a name looked up in one family is then answered by all others instead of raising KeyError")
    else:
        res.ok("LOAD-2", "get_shape writes no state shared between families")
    calls = [e_ for e_ in r1["events"] if e_.type == "opaque-call" and e_.callee.name == "from_gsd_type_shapes"]
    rets = [v_ for (v_, _s, _n) in r1["returns"]]
    name_p = gs.params[1] if len(gs.params) > 1 else None
    if not rets:
        raise AnalysisError("get_shape has no normal return")
    direct = all(("ret", "from_gsd_type_shapes") in v_.tags for v_ in rets)
    if not direct or not calls:
        if any(v_.is_none() if hasattr(v_, "is_none") else (v_.has_const() and v_.const is None) for v_ in rets):
            _v(res, False, "LOAD-1", what, where)
        elif sw:
            res.not_in_fragment.append("LOAD-1 get_shape: value returned through the shared cache reported under LOAD-2")
        else:
            raise AnalysisError("get_shape: the returned value is not directly the result of from_gsd_type_shapes (outside the decided fragment)")
    else:
        ok = True
        for c_ in calls:
            a_ = c_.args[0] if c_.args else (c_.kwargs.get("params") if c_.kwargs else None)
            if a_ is None:
                ok = False
                continue
            item = [t for t in a_.tags if isinstance(t, tuple) and t[0] == "item-of"]
            ok = ok and bool(item) and all(("self", data_attr) in t[1] for t in item) and a_.pdeps == {name_p} \
                and {d for d in a_.deps if d[0] != "call"} <= {("self", data_attr), ("param", name_p)}
        _v(res, ok, "LOAD-1", what, where)
    # ---- __iter__
    it2 = Interp(index, config=cfg)
    r2 = it2.run_entry(itf, cls)
    what = "__iter__ yields (key, get_shape(key)) for key in names"
    own = [e_ for e_ in r2["events"] if e_.type == "write" and e_.loc[0] == "self" and not any("get_shape" in p_ for p_ in e_.path)]
    sw = [x for x in shared_writes(r2) if not any("get_shape" in p_ for p_ in x[0].path)]
    v2 = r2["result"]
    if own or sw or (v2 is not None and v2.obj is not None and v2.obj.oid == "self"):
        ev_ = (own or [x[0] for x in sw] or [None])[0]
        res.bad("LOAD-3", "__iter__:state", ev_.where() if ev_ is not None else where, "__iter__ keeps the iteration position on the family object "
                "(or returns the family itself): two overlapping passes over one family share it and each sees only part of the names")
    else:
        res.ok("LOAD-3", "__iter__ keeps no iteration state on the family")
    ok = False
    if v2 is not None and v2.kind == "gen" and v2.elem is not None and v2.elem.items and len(v2.elem.items) == 2:
        k_, s_ = v2.elem.items
        gcalls = [e_ for e_ in r2["events"] if e_.type == "enter" and not e_.entry and e_.callee.name == "get_shape"]
        same = bool(gcalls) and all(e_.argvals and it2.val_id(e_.argvals[0]) == it2.val_id(k_) for e_ in gcalls)
        ok = ("self", names_attr) in k_.deps and not k_.pdeps and ("ret", "get_shape") in s_.tags and same
    _v(res, ok, "LOAD-1", what, where)
    # ---- _from_json_file
    it3 = Interp(index, config=cfg)
    is_method = fj.cls is not None
    dflt_ = {k_: v_ for k_, v_ in it3._defaults(fj).items() if v_ is not None and v_.kind == "class"}     # e.g. family_type=TabulatedGSDShapeFamily
    r3 = it3.run_entry(fj, cls if is_method else None, args=dflt_ or None)
    fparam = (fj.params[1] if len(fj.params) > 1 else None) if is_method else (fj.params[0] if fj.params else None)
    ok = False
    for e_ in r3["events"]:
        if e_.type == "construct" and e_.cls is cls:
            a_ = e_.kwargs.get(dparam) if e_.kwargs and dparam in e_.kwargs else (e_.args[0] if e_.args else None)
            if a_ is not None and ("ret", "json.load") in a_.tags and a_.pdeps == {fparam}:
                ok = True
    v3 = r3["result"]
    ok = ok and v3 is not None and v3.obj is not None and v3.obj.cls is cls
    _v(res, ok, "LOAD-1", "_from_json_file builds the family from json.load of the given file", where)


def _doi_loader(res, index):
    """LOAD-4: every tabulated family handed out (by the DOI factory and by the module-level families of common.py) is
    built from the whole json.load of its file: the mapping that reaches TabulatedGSDShapeFamily(data=...) carries the
    provenance of json.load and is not a filtered / rebuilt mapping (entries would silently disappear)."""
    from ..interp import Interp
    from ..values import vconst
    mod = index.module("coxeter.families.doi_data_repositories")
    fac = mod.functions.get("_doi_shape_collection_factory")
    fam = index.module("coxeter.families.tabulated_shape_family").classes.get("TabulatedGSDShapeFamily")
    if fac is None or fam is None:
        raise AnalysisError("anchor vanished: _doi_shape_collection_factory / TabulatedGSDShapeFamily")
    # the DOIs of the module's literal tables (whatever their layout); those for which the factory builds a tabulated family
    import re as _re
    dois = sorted({k.value for node in mod.constants.values() if isinstance(node, ast.Dict) for k in node.keys
                   if isinstance(k, ast.Constant) and isinstance(k.value, str) and _re.match(r"^10\.\d{4,}/\S+$", k.value)})
    if not dois:
        raise AnalysisError("anchor vanished: no module-level table keyed by DOI in doi_data_repositories")
    ntab = 0
    for doi in dois:
        it = Interp(index, config={"fold_branches": True})
        r = it.run_entry(fac, None, args={fac.params[0]: vconst(doi)})
        cons = [e for e in r["events"] if e.type == "construct" and e.cls is fam]
        k = f"doi:{doi}"
        if not cons:
            continue
        ntab += 1
        bad = None
        for e in cons:
            a_ = (e.kwargs or {}).get("data") or (e.args[0] if e.args else None)
            if a_ is None or ("ret", "json.load") not in a_.tags:
                bad = (e, a_)
        if bad is None:
            res.ok("LOAD-4", k)
            continue
        e, a_ = bad
        # positively wrong: the mapping is rebuilt by a comprehension with a condition / a filter
        fnode = e.func.node if e.func is not None else fac.node
        filtered = any((isinstance(n_, ast.DictComp) and any(g.ifs for g in n_.generators)) or
                       (isinstance(n_, ast.Call) and getattr(n_.func, "id", "") == "filter") for n_ in ast.walk(fnode))
        if filtered and a_ is not None and any(("ret", "json.load") in x.tags for x in [a_]) is False:
            res.bad("LOAD-4", k + ":filtered", e.where(), f"the family for {doi} is built from a filtered copy of the file's mapping "
                    f"(`{e.src()[:60]}`): entries that fail the condition silently disappear from names, iteration and get_shape")
        else:
            raise AnalysisError(f"LOAD-4: the mapping passed to TabulatedGSDShapeFamily for {doi} does not come from json.load in a recognised way")
    if not ntab:
        raise AnalysisError("LOAD-4: the factory builds a tabulated family for none of the DOIs in a recognised way")


def _v(res, ok, rule, what, where):
    if ok:
        res.ok(rule, what)
    else:
        res.bad(rule, what, where, f"loader dataflow broken: expected {what}")
