"""C02 - general (non-convex) polyhedron measures are exact (structural part)."""

from __future__ import annotations

import ast

from ..algebra import Poly
from ..degrees import check_degree, declared_degree
from ..dimscan import scan
from ..index import AnalysisError
from ..inertia3d import NAMES, abs_of_det, one_sided_filter_of_det, component_map, expected_integrand, lambda_poly
from ..report import Result

EXPLANATION = (
    "Necessary conditions of exactness visible in the code of Polyhedron: DEG volume 3, surface_area / get_face_area 2, "
    "centroid 1, inertia tensor 5, all formulas homogeneous including the inlined polytri triangulation (E3); AXI each "
    "of the six Kallay integrands is the polynomial of its definition (I_xx <-> y^2 + z^2, I_xy <-> -x y, ...) and the "
    "returned matrix is symmetric with each name in its slot; TET the tetrahedron rule V/20 (f(a)+f(b)+f(c)+f(a+b+c)) is "
    "exact for every quadratic monomial (symbolic identity); DET-SIGN the tetrahedron weights stay signed until they are "
    "summed - with abs() before the sum the result is right only for solids star-shaped about the centroid; SIGN-1 the "
    "plane-offset sign convention d = -n.v of the writers (_find_equations x2) agrees with every reader of column 3 "
    "(volume, _point_plane_distances, form factor, maximal_centered_bounded_sphere). Correctness of polytri's ear "
    "clipping and exactness for arbitrary meshes are not decided."
)


def run(index, tier="quick", seed=0) -> Result:
    res = Result("C02", EXPLANATION)
    sc = scan(index)
    cls = index.cls("Polyhedron")
    n = 0
    for member in ("volume", "surface_area", "get_face_area", "centroid", "inertia_tensor", "center", "edge_lengths"):
        for kind in ("getter", "method"):
            key = ("Polyhedron", member, kind)
            if key not in sc.results:
                continue
            want = declared_degree(cls, member)
            st, txt = check_degree(sc.results[key], want)
            n += 1
            if st == "ok":
                res.ok("DEG", f"Polyhedron.{member}", sample={"observable": member, "degree": str(want)})
            elif st == "bad":
                res.bad("DEG", f"Polyhedron.{member}", "coxeter/shapes/polyhedron.py", f"Polyhedron.{member} has length degree {txt}, declared {want}")
            else:
                res.not_in_fragment.append(f"DEG Polyhedron.{member}: {txt}")
    if n < 6:
        raise AnalysisError(f"only {n} degree obligations (7 confirmed)")
    for k, (where, what, func) in sc.conflicts.items():
        if func.startswith("Polyhedron.") or "polytri" in func:
            res.bad("DEG", k, where, what)
    # ---------------------------------------------------------------- AXI lambdas
    fn = cls.methods.get("_compute_inertia_tensor")
    if fn is None:
        raise AnalysisError("anchor vanished: Polyhedron._compute_inertia_tensor")
    where = f"{fn.file}:{fn.lineno}"
    found = 0
    # (normal form: loops over a constant range are unrolled, small vectors filled element by element become scalar locals)
    from ..astutil import inline_constant_helpers, unroll_constant_loops
    fnode, _nl = unroll_constant_loops(fn.node)
    fnode = inline_constant_helpers(fnode)
    comp_of, disp_probs = component_map(fnode)
    for node in ast.walk(fnode):
        if isinstance(node, ast.Assign) and isinstance(node.targets[0], ast.Name) and node.targets[0].id in comp_of \
                and isinstance(node.value, ast.Call) and node.value.args and isinstance(node.value.args[0], ast.Lambda):
            name = comp_of[node.targets[0].id]
            found += 1
            got = lambda_poly(node.value.args[0])
            want = expected_integrand(name)
            k = f"Polyhedron._compute_inertia_tensor:{name}"
            if got is None:
                res.not_in_fragment.append(f"AXI {k}")
            elif got == want:
                res.ok("AXI", k, sample={"component": name, "integrand": str(got)})
            else:
                res.bad("AXI", k, f"{fn.file}:{node.lineno}", f"{name} integrates {got}; its definition is {want}")
    if found < 6:
        raise AnalysisError(f"only {found} Kallay integrands found (6 confirmed)")
    probs = disp_probs
    if probs:
        res.bad("AXI", "Polyhedron._compute_inertia_tensor:display", where, "returned matrix: " + "; ".join(probs))
    else:
        res.ok("AXI", "Polyhedron._compute_inertia_tensor:display")
    # ---------------------------------------------------------------- TET rule
    _tet_rule(res, fn)
    # ---------------------------------------------------------------- DET-SIGN
    hits = abs_of_det(fn.node)
    has_det = any(isinstance(x, ast.Call) and ast.unparse(x.func).endswith("linalg.det") for x in ast.walk(fn.node))
    if not has_det:
        res.not_in_fragment.append("DET-SIGN: no determinant in Polyhedron._compute_inertia_tensor")
    elif hits:
        res.bad("DET-SIGN", "Polyhedron._compute_inertia_tensor", f"{fn.file}:{hits[0].lineno}",
                f"`{ast.unparse(hits[0])[:60]}`: the tetrahedron volumes lose their sign before they are summed - "
                f"right only for solids star-shaped about the centroid (U-shapes, frames are wrong)")
    elif one_sided_filter_of_det(fn.node):
        m = one_sided_filter_of_det(fn.node)[0]
        res.bad("DET-SIGN", "Polyhedron._compute_inertia_tensor:one-sided-filter", f"{fn.file}:{m.lineno}",
                f"`{ast.unparse(m)[:70]}` selects the tetrahedra to keep by an ordering test on their *signed* volumes: every negatively "
                f"oriented tetrahedron is dropped, so the regions that a solid which is not star-shaped about the reference point sweeps twice "
                f"no longer cancel (a filter on the magnitude keeps both signs)")
    else:
        res.ok("DET-SIGN", "Polyhedron._compute_inertia_tensor")
    # ---------------------------------------------------------------- AREA-1 every face area is a polygon area of the whole face
    from ..interp import Interp
    gfa = cls.methods.get("get_face_area")
    if gfa is None:
        raise AnalysisError("anchor vanished: Polyhedron.get_face_area")
    it = Interp(index)
    r = it.run_entry(gfa, cls)
    rets = {n_.value.id for n_ in ast.walk(gfa.node) if isinstance(n_, ast.Return) and isinstance(n_.value, ast.Name)}
    stores = [e for e in r["events"] if e.type == "local-store" and e.name in rets and e.func is gfa]
    cyc_pad = sorted({d for (v_, _s, _n) in r["returns"] for d in v_.deps if d[0] == "cyclic-pad"})
    if cyc_pad:
        res.bad("AREA-1", "Polyhedron.get_face_area:cyclic-padding", f"{gfa.file}:{cyc_pad[0][1].split('@')[-1]}", "Polyhedron.get_face_area computes the areas from "
                "faces brought to a common length with np.resize, which repeats the vertex cycle from its start: a face that is shorter than the longest one by "
                "three or more vertices walks its first corners again and their triangles are counted twice")
    elif not stores:
        res.not_in_fragment.append("AREA-1: stores into the returned array not found")
    else:
        bad_st = [e for e in stores if not any(isinstance(t, tuple) and t == ("getter", "area") for t in e.value.tags)]
        if bad_st:
            res.bad("AREA-1", "Polyhedron.get_face_area:shortcut", bad_st[0].where(), f"Polyhedron.get_face_area stores `{bad_st[0].src()[:60]}`, which is not the "
                    f"area of the polygon spanned by all vertices of the face (a shortcut formula is right only for special face shapes)")
        else:
            res.ok("AREA-1", "Polyhedron.get_face_area")
    # ---------------------------------------------------------------- SIGN-1
    _sign_convention(res, index)
    from ..parallel import report as _copy1
    _copy1(res, index, lambda f: (f['cls'] == 'Polyhedron' and f['top'] in ('_compute_inertia_tensor', 'centroid', 'volume', 'get_face_area', 'inertia_tensor', '_find_equations')) or 'polytri' in f['module'])
    from ..refpoint import check_reference_point
    check_reference_point(res, index, 'Polyhedron')
    # MEAN-1: no exact measure is computed from an unweighted average of vertex coordinates (the vertex mean of a face /
    # of the solid is its centroid only for triangles, parallelograms, regular polygons and centrally symmetric solids)
    from ..interp import Interp as _Interp
    for member in ("centroid", "center", "inertia_tensor", "face_centroids", "volume", "surface_area"):
        p_ = index.effective_prop(cls, member)
        if p_ is None or p_.getter is None:
            continue
        it_ = _Interp(index)
        r_ = it_.run_entry(p_.getter, cls)
        vm = sorted({d for (v_, _s, _n) in r_["returns"] for d in v_.deps if d[0] == "vertex-mean"})
        k_ = f"{cls.name}.{member}"
        if vm:
            site = [e for e in r_["events"] if e.type == "reduce" and f"{e.fn}@{getattr(e.node, 'lineno', 0)}" == vm[0][1]]
            res.bad("MEAN-1", k_ + ":vertex-mean", site[0].where() if site else f"{p_.getter.file}:{p_.getter.lineno}",
                    f"{k_} depends on an unweighted average of vertex coordinates (`{site[0].src()[:60] if site else vm[0][1]}`): the vertex mean "
                    "is the centroid only for triangles, parallelograms, regular polygons and centrally symmetric solids")
        else:
            res.ok("MEAN-1", k_, nontrivial=False)
    check_ori1(res, index, cls)
    # SYM-1: per-simplex integrands are (anti)symmetric in the corners of the simplex
    from ..cornersym import report as _sym1
    _sym1(res, index, [("Polyhedron", "centroid")])
    return res


def check_ori1(res, index, cls):
    from ..interp import Interp as _Interp
    # ORI-1: after the breadth-first pass every face agrees with face 0; whether that common orientation is outward is a
    # property of the whole surface (the sign of the signed volume).  A test on one face's plane (an element picked by a
    # constant index) is right only for solids that are star-shaped about the reference point.
    sf = cls.methods.get("sort_faces")
    if sf is None:
        raise AnalysisError("anchor vanished: Polyhedron.sort_faces")
    r_sf = _Interp(index).run_entry(sf, cls)
    flips = [e for e in r_sf["events"] if e.type == "cmp" and e.form == "compare" and e.func is sf and e.op in ("Lt", "Gt", "LtE", "GtE")
             and ((e.right.is_number_const() and e.right.const == 0) or (e.left.is_number_const() and e.left.const == 0))]
    verdict = None
    for e in flips:
        side = e.left if e.right.is_number_const() else e.right
        if any(isinstance(t_, tuple) and t_[0] in ("getter", "getter-of") and t_[1] == "volume" for t_ in side.tags):
            verdict = verdict or "volume"
        else:
            node_ = e.node.left if e.right.is_number_const() else e.node.comparators[0]
            anchored = isinstance(node_, ast.Subscript) and all(isinstance(x, ast.Constant) and isinstance(x.value, int) for x in
                                                                 (node_.slice.elts if isinstance(node_.slice, ast.Tuple) else [node_.slice]))
            if anchored and ({("self", "_equations"), ("self", "_faces")} & side.deps):
                verdict = ("anchored", e)
            elif any(isinstance(t_, tuple) and t_[0] == "reduced" and t_[1] in ("sum", "mean", "nansum") for t_ in side.tags):
                # a plain (unweighted) reduction of the plane offsets d_i = -n_i . v: under a translation t it changes by
                # -(sum n_i) . t, and the unit normals of a polyhedron do not add up to zero (only the area-weighted ones do)
                red = [x for x in r_sf["events"] if x.type == "reduce" and x.func is sf and x.target is not None
                       and ("self", "_equations") in x.target.al and getattr(x.target, "tr", None) == "TA"]
                if red:
                    verdict = ("offset-sum", e)
                else:
                    # sum of determinants of vertex triples taken from fixed positions of every face (face[:3]): the signed volume of
                    # the fan from the origin only if every face is a triangle
                    dets = [x for x in r_sf["events"] if x.type == "det" and x.func is sf]
                    fixed = [n_ for n_ in ast.walk(sf.node) if isinstance(n_, ast.Subscript) and isinstance(n_.slice, ast.Slice)
                             and n_.slice.upper is not None and isinstance(n_.slice.upper, ast.Constant) and isinstance(n_.slice.upper.value, int)
                             and isinstance(n_.value, ast.Name)
                             and any(isinstance(c_, ast.comprehension) and isinstance(c_.target, ast.Name) and c_.target.id == n_.value.id
                                     and "faces" in ast.unparse(c_.iter) for c_ in ast.walk(sf.node))]
                    if dets and fixed:
                        verdict = ("first-k", e, ast.unparse(fixed[0]))
    if verdict == "volume":
        res.ok("ORI-1", "Polyhedron.sort_faces:global-orientation")
    elif isinstance(verdict, tuple) and verdict[0] == "first-k":
        e = verdict[1]
        res.bad("ORI-1", "Polyhedron.sort_faces:first-k-vertices", e.where(), f"Polyhedron.sort_faces decides the common orientation from determinants of the "
                f"vertices `{verdict[2]}` of every face: that is the signed volume only when every face is a triangle; for quadrilateral and larger faces "
                "the omitted part of each face changes the sign for off-origin solids (all faces come out inward)")
    elif isinstance(verdict, tuple) and verdict[0] == "offset-sum":
        e = verdict[1]
        res.bad("ORI-1", "Polyhedron.sort_faces:offset-sum", e.where(), f"Polyhedron.sort_faces decides the common orientation of all faces from the plain sum of "
                f"the plane offsets (`{e.src()[:60]}`): that sum moves with the origin by -(sum of unit normals) . t, so an off-origin solid whose "
                "normals are not balanced (a frustum, a pyramid) gets all faces turned inward; the signed volume is the translation-invariant test")
    elif isinstance(verdict, tuple):
        e = verdict[1]
        res.bad("ORI-1", "Polyhedron.sort_faces:single-face", e.where(), f"Polyhedron.sort_faces decides the common orientation of all faces from one face "
                f"(`{e.src()[:70]}`): right only for solids that are star-shaped about the reference point; for a U-shaped solid every face can be turned inward")
    else:
        raise AnalysisError("ORI-1: the global orientation test of Polyhedron.sort_faces is not recognised")


def _tet_rule(res, fn):
    # the integrator: the nested function that calls its own first parameter (the integrand); names carry no meaning
    ti = [x for x in ast.walk(fn.node) if isinstance(x, ast.FunctionDef) and x is not fn.node and x.args.args
          and any(isinstance(c, ast.Call) and isinstance(c.func, ast.Name) and c.func.id == x.args.args[0].arg for c in ast.walk(x))]
    k = "Polyhedron._compute_inertia_tensor:triangle_integrate"
    if not ti:
        res.not_in_fragment.append(f"TET {k}: helper not found")
        return
    ti = ti[0]
    farg = ti.args.args[0].arg
    local_ti = {t.id for n_ in ast.walk(ti) if isinstance(n_, ast.Assign) for t in n_.targets if isinstance(t, ast.Name)} | {farg}
    simp_names = {n_.value.id for n_ in ast.walk(ti) if isinstance(n_, ast.Subscript) and isinstance(n_.value, ast.Name)
                  and n_.value.id not in local_ti and isinstance(n_.slice, ast.Tuple) and len(n_.slice.elts) == 3}
    outer_assigns = {n_.targets[0].id: n_.value for n_ in ast.walk(fn.node) if isinstance(n_, ast.Assign)
                     and len(n_.targets) == 1 and isinstance(n_.targets[0], ast.Name)}
    vol_names = {nm for nm, v_ in outer_assigns.items() if nm not in local_ti and "linalg.det" in ast.unparse(v_)}
    if not simp_names:
        # corner slices hoisted out of the integrator: the 3-index subscripts of the outer function
        simp_names = {n_.value.id for n_ in ast.walk(fn.node) if isinstance(n_, ast.Subscript) and isinstance(n_.value, ast.Name)
                      and isinstance(n_.slice, ast.Tuple) and len(n_.slice.elts) == 3 and n_.value.id not in local_ti}
    # symbolic vertices a, b, c with coordinates (u, v): f = u * v  (covers squares by u = v)
    P = {k_: (Poly.atom(f"{k_}u"), Poly.atom(f"{k_}v")) for k_ in "abc"}
    env = {}

    def vec(n, depth=0):
        if isinstance(n, ast.Name) and n.id in outer_assigns and n.id not in local_ti and depth < 4:
            return vec(outer_assigns[n.id], depth + 1)       # a corner slice hoisted out of the integrator
        if isinstance(n, ast.Subscript) and isinstance(n.value, ast.Name) and n.value.id in simp_names:
            elts = n.slice.elts if isinstance(n.slice, ast.Tuple) else [n.slice]
            try:
                i = ast.literal_eval(elts[1])
                return P["abc"[i]]
            except Exception:
                return None
        if isinstance(n, ast.BinOp) and isinstance(n.op, ast.Add):
            l, r = vec(n.left), vec(n.right)
            if l and r:
                return (l[0] + r[0], l[1] + r[1])
        return None

    def ev(n):
        if isinstance(n, ast.Name):
            if n.id in env:
                return env[n.id]
            if n.id in vol_names:
                v_ = ev(outer_assigns[n.id])              # det / 6, a bare determinant (6 V), ...: the factor is read, not assumed
                return v_ if v_ is not None else Poly.atom("V")
            if n.id in outer_assigns and n.id not in local_ti:
                return ev(outer_assigns[n.id])                # e.g. weights = volumes / 20 hoisted out of the integrator
            return None
        if isinstance(n, ast.Constant) and isinstance(n.value, (int, float)):
            return Poly.const(n.value)
        if isinstance(n, ast.Call) and isinstance(n.func, ast.Name) and n.func.id == farg:
            p = vec(n.args[0])
            return p[0] * p[1] if p else None
        if isinstance(n, ast.Call) and ast.unparse(n.func) == "np.sum":
            return ev(n.args[0])
        if isinstance(n, ast.Call) and ast.unparse(n.func).endswith("linalg.det"):
            return Poly.atom("V") * Poly.const(6)         # the determinant of the three corners is six times the signed volume
        if isinstance(n, ast.Call) and ast.unparse(n.func) in ("np.abs", "abs", "np.absolute") and n.args:
            return ev(n.args[0])                          # (losing the sign is DET-SIGN's finding, not this rule's)
        if isinstance(n, ast.BinOp):
            l, r = ev(n.left), ev(n.right)
            if l is None or r is None:
                return None
            if isinstance(n.op, ast.Add):
                return l + r
            if isinstance(n.op, ast.Sub):
                return l - r
            if isinstance(n.op, ast.Mult):
                return l * r
            if isinstance(n.op, ast.Div):
                return l.div(r)
        return None

    out = None
    for s in ti.body:
        if isinstance(s, ast.Assign) and isinstance(s.targets[0], ast.Name):
            env[s.targets[0].id] = ev(s.value)
        elif isinstance(s, ast.Return):
            out = ev(s.value)
    if out is None:
        res.not_in_fragment.append(f"TET {k}")
        return
    su = P["a"][0] + P["b"][0] + P["c"][0]
    sv = P["a"][1] + P["b"][1] + P["c"][1]
    exact = Poly.atom("V") * Poly.const(1) * (P["a"][0] * P["a"][1] + P["b"][0] * P["b"][1] + P["c"][0] * P["c"][1] + su * sv)
    exact = exact * Poly.const(__import__("fractions").Fraction(1, 20))
    if out == exact:
        res.ok("TET", k, sample={"rule": "V/20 (f(a)+f(b)+f(c)+f(a+b+c))"})
    else:
        res.bad("TET", k, f"{fn.file}:{ti.lineno}", f"tetrahedron rule evaluates to {out}; exact integral of a quadratic monomial over (0,a,b,c) is {exact}")


def _expanded(expr, fn_node, depth=0):
    """source text of `expr` with local names replaced by the expressions assigned to them (names carry no meaning)."""
    assigns = {}
    for n in ast.walk(fn_node):
        if isinstance(n, ast.Assign) and len(n.targets) == 1 and isinstance(n.targets[0], ast.Name):
            assigns.setdefault(n.targets[0].id, n.value)

    def go(e, d, seen):
        out = ast.unparse(e)
        if d > 5:
            return out
        for x in ast.walk(e):
            if isinstance(x, ast.Name) and x.id in assigns and x.id not in seen:
                out += " <- " + go(assigns[x.id], d + 1, seen | {x.id})
        return out
    return go(expr, 0, frozenset())


def _sign_convention(res, index):
    """writers store d = -n.v in column 3; readers must use it with the matching polarity."""
    sites = 0
    # writers
    for cname in ("Polyhedron", "ConvexPolyhedron"):
        for mname in ("_find_equations", "_find_simplex_equations"):
            f = index.cls(cname).methods.get(mname)
            if f is None:
                continue
            wvals = []
            for node in ast.walk(f.node):
                if isinstance(node, ast.Assign) and isinstance(node.targets[0], ast.Subscript):
                    t = ast.unparse(node.targets[0]).replace(" ", "")
                    if t.endswith(",3]"):
                        wvals.append((node, node.value))
            if not wvals:
                # the offsets kept in an array of their own and joined to the normals when the table is stored:
                # self._equations = np.column_stack((normals, offsets))  with  offsets[i] = ... / offsets = ...
                for node in ast.walk(f.node):
                    if isinstance(node, ast.Assign) and isinstance(node.targets[0], ast.Attribute) and node.targets[0].attr in ("_equations", "_simplex_equations") \
                            and isinstance(node.value, ast.Call) and ast.unparse(node.value.func).split(".")[-1] in ("column_stack", "hstack") and node.value.args \
                            and isinstance(node.value.args[0], (ast.Tuple, ast.List)) and len(node.value.args[0].elts) >= 2:
                        last = node.value.args[0].elts[-1]
                        while isinstance(last, ast.Subscript) and isinstance(last.value, ast.Name):       # offsets[:, None]
                            last = last.value
                        if isinstance(last, ast.Name):
                            for d_ in ast.walk(f.node):
                                if isinstance(d_, ast.Assign) and len(d_.targets) == 1:
                                    t_ = d_.targets[0]
                                    if (isinstance(t_, ast.Subscript) and isinstance(t_.value, ast.Name) and t_.value.id == last.id) or \
                                            (isinstance(t_, ast.Name) and t_.id == last.id and not (isinstance(d_.value, ast.Call) and ast.unparse(d_.value.func).split(".")[-1]
                                                                                                    in ("empty", "zeros", "empty_like", "zeros_like"))):
                                        wvals.append((d_, d_.value))
                        else:
                            wvals.append((node, last))
            for node, v_ in wvals:
                if True:
                    if True:
                        sites += 1
                        k = f"{cname}.{mname}:writer"
                        v = v_
                        neg = isinstance(v, ast.UnaryOp) and isinstance(v.op, ast.USub)
                        is_dot = any(isinstance(c, ast.Call) and (ast.unparse(c.func) in ("np.einsum", "np.dot") or ast.unparse(c.func).endswith(".dot")) for c in ast.walk(v))
                        if neg and is_dot:
                            res.ok("SIGN-1", k)
                        else:
                            res.bad("SIGN-1", k, f"{f.file}:{node.lineno}", f"{cname}.{mname} must store d = -n.v (ax+by+cz+d=0, as scipy's ConvexHull); found `{ast.unparse(v)[:50]}`")
    # readers
    readers = [("Polyhedron", "volume", "getter", "neg"), ("Polyhedron", "_point_plane_distances", "method", "add"),
               ("Polyhedron", "compute_form_factor_amplitude", "method", "neg"),
               ("ConvexPolyhedron", "maximal_centered_bounded_sphere", "getter", "negmax")]
    for cname, mname, kind, pol in readers:
        cls = index.cls(cname)
        f = index.effective_prop(cls, mname).getter if kind == "getter" else cls.methods.get(mname)
        if f is None and kind == "method":
            # (a private helper may have become a function of some module of the package)
            cands_ = [m_.functions[mname] for m_ in index.modules.values() if mname in m_.functions]
            f = cands_[0] if len(cands_) == 1 else None
        if f is None:
            raise AnalysisError(f"anchor vanished: {cname}.{mname}")
        k = f"{cname}.{mname}:reader"
        sites += 1
        ok = False
        detail = ""
        for node in ast.walk(f.node):
            if pol == "neg" and isinstance(node, ast.UnaryOp) and isinstance(node.op, ast.USub):
                chain = _expanded(node.operand, f.node).replace(" ", "").split("<-")
                if any(c_.endswith("[:,3]") or c_.endswith("[3]") for c_ in chain):
                    ok = True
            if pol == "add" and isinstance(node, ast.BinOp) and isinstance(node.op, ast.Add):
                # (projection of the points on the normals) + offsets, in either order, neither side negated;
                # operands are looked through local temporaries
                def _is_offsets(e_):
                    if isinstance(e_, ast.UnaryOp) and isinstance(e_.op, ast.USub):
                        return False
                    chain = _expanded(e_, f.node).replace(" ", "").split("<-")
                    return any(c_.endswith("[:,3]") and not c_.startswith("-") for c_ in chain) and not any(c_.startswith("-") for c_ in chain)
                if _is_offsets(node.left) != _is_offsets(node.right):
                    ok = True
            if pol == "negmax" and isinstance(node, ast.UnaryOp) and isinstance(node.op, ast.USub):
                op_ = node.operand
                is_max = isinstance(op_, ast.Call) and (ast.unparse(op_.func) in ("np.max", "np.amax", "max") or
                                                         (isinstance(op_.func, ast.Attribute) and op_.func.attr == "max"))
                if is_max and "_point_plane_distances" in _expanded(op_, f.node):
                    ok = True
            if pol == "negmax" and isinstance(node, ast.Call):
                # min(-distances): the same number as -max(distances)
                fname_ = ast.unparse(node.func)
                is_min = fname_ in ("np.min", "np.amin", "min") or (isinstance(node.func, ast.Attribute) and node.func.attr == "min")
                arg_ = node.args[0] if node.args else (node.func.value if isinstance(node.func, ast.Attribute) and node.func.attr == "min" else None)
                if is_min and arg_ is not None:
                    from ..astutil import resolve as _resolve
                    a_ = _resolve(arg_, f.node, depth=6)
                    if isinstance(a_, ast.UnaryOp) and isinstance(a_.op, ast.USub) and "_point_plane_distances" in _expanded(a_.operand, f.node):
                        ok = True
        if pol == "neg" and not ok:
            # the sign factored out of a product / sum: -np.sum(eq[:, 3] * areas) - the polarity with which column 3 enters the
            # returned expression (through local temporaries, products, quotients, sums, unary minus, subtraction)
            from ..astutil import single_assignments as _sa
            env_ = _sa(f.node)

            def polarity(e_, sign=1, depth=0):
                if depth > 8:
                    return set()
                if isinstance(e_, ast.Name) and e_.id in env_:
                    return polarity(env_[e_.id], sign, depth + 1)
                if isinstance(e_, ast.Subscript):
                    txt_ = ast.unparse(e_).replace(" ", "")
                    if txt_.endswith(("[:,3]", "[3]", "[...,3]", ",3]", "[:,-1]")) and "_equations" in txt_:
                        return {sign}
                    return polarity(e_.value, sign, depth + 1) if not isinstance(e_.value, ast.Attribute) else set()
                if isinstance(e_, ast.UnaryOp) and isinstance(e_.op, ast.USub):
                    return polarity(e_.operand, -sign, depth + 1)
                if isinstance(e_, ast.BinOp):
                    if isinstance(e_.op, (ast.Mult, ast.Div, ast.MatMult)):
                        flip = -1 if any(isinstance(x, ast.Constant) and isinstance(x.value, (int, float)) and x.value < 0 for x in (e_.left, e_.right)) else 1
                        return polarity(e_.left, sign * flip, depth + 1) | (polarity(e_.right, sign * flip, depth + 1) if not isinstance(e_.op, ast.Div) else set())
                    if isinstance(e_.op, ast.Add):
                        return polarity(e_.left, sign, depth + 1) | polarity(e_.right, sign, depth + 1)
                    if isinstance(e_.op, ast.Sub):
                        return polarity(e_.left, sign, depth + 1) | polarity(e_.right, -sign, depth + 1)
                    return set()
                if isinstance(e_, ast.Call) and ast.unparse(e_.func).split(".")[-1] in ("sum", "dot", "multiply", "inner", "einsum", "array", "asarray", "nansum") :
                    out_ = set()
                    for a_ in list(e_.args) + ([e_.func.value] if isinstance(e_.func, ast.Attribute) and not isinstance(e_.func.value, ast.Name) else []):
                        out_ |= polarity(a_, sign, depth + 1)
                    return out_
                return set()
            rets_ = [n_.value for n_ in ast.walk(f.node) if isinstance(n_, ast.Return) and n_.value is not None]
            pols_ = set()
            for rv_ in rets_:
                pols_ |= polarity(rv_)
            if pols_ == {-1}:
                ok = True
        reads_col3 = any(isinstance(n_, ast.Subscript) and ast.unparse(n_).replace(" ", "").endswith(("[:,3]", "[3]", "[...,3]", ",3]"))
                         for n_ in ast.walk(f.node)) or "_point_plane_distances" in ast.unparse(f.node)
        if ok:
            res.ok("SIGN-1", k)
        elif not reads_col3:
            raise AnalysisError(f"SIGN-1: {cname}.{mname} no longer reads the plane offsets in a recognised way")
        else:
            want = {"neg": "-equations[..., 3] (distance of the plane from the origin along the normal)",
                    "add": "dots + equations[:, 3] (signed distance, <= 0 inside)",
                    "negmax": "-max(signed distances) (distances are <= 0 inside)"}[pol]
            res.bad("SIGN-1", k, f"{f.file}:{f.lineno}", f"{cname}.{mname} must use the plane offsets as {want}")
    if sites < 7:
        raise AnalysisError(f"only {sites} sign-convention sites (7 confirmed)")
