"""C08 - size setters hit their target by pure similarity; bad targets are refused."""

from __future__ import annotations

from fractions import Fraction

from ..algebra import Poly
from ..components import Guard, MustTouched
from ..entries import derive_scratch, setters, stored_attrs
from ..index import AnalysisError, FuncInfo
from ..interp import Interp
from ..report import Result
from ..values import TOP, dim_collapse, dim_known

EXPLANATION = (
    "Per (concrete class x property setter), calls inlined through the MRO: "
    "SET-1 a setter that funnels into _rescale(e) passes e == (value / G)^(1/d) with G the getter of the *same* property "
    "and d the length degree E3 infers for that getter (closed-form normal form, E4); SET-2 for closed-form getters the "
    "composition getter(setter(value)) normalises to value (substitution of the symbolic final store); RESC-1 every "
    "_rescale scales every length-bearing state attribute of the class (and of its composite core) by exactly the "
    "factor; TRANS-1 centroid/center setters only translate (in-place += on the vertices, or rebind of _centroid) plus "
    "cache refreshes; GUARD-1 on every path from the setter's entry to its first state write a positivity test on "
    "`value` (or a positive multiple of it) has been passed, strict except for rounding radii; GUARD-2 no state write "
    "precedes the test (same rule: the write is unguarded); GUARD-3 the refusing branch raises ValueError and never "
    "falls through silently. Cache completeness of _rescale is decided under C03 (COH-1/COH-3) for the same setters."
)

SIZE_EXEMPT = ("centroid", "center")
LENGTH_ATTRS = ("_vertices", "_radius", "_a", "_b", "_c")


def run(index, tier="quick", seed=0) -> Result:
    res = Result("C08", EXPLANATION)
    scratch, _, _ = derive_scratch(index)
    npairs = 0
    nresc = 0
    ntrans = 0
    for cls in index.shape_classes():
        for name, fn in setters(index, cls):
            npairs += 1
            _check_validation_first(res, cls, name, fn)
            if name in SIZE_EXEMPT:
                ntrans += 1
                _check_translation(res, index, cls, name, fn, scratch)
            else:
                _check_size_setter(res, index, cls, name, fn, scratch)
        rs = cls.lookup("_rescale")
        if isinstance(rs, FuncInfo):
            nresc += 1
            _check_rescale(res, index, cls, rs)
    res.extra["setter_pairs"] = npairs
    if npairs < 90:
        raise AnalysisError(f"only {npairs} (class, setter) pairs enumerated; 99 confirmed on the pinned tree")
    if nresc < 10 or ntrans < 14:
        raise AnalysisError(f"_rescale bodies {nresc} (<10) or centroid/center setters {ntrans} (<14)")
    return res


def _check_validation_first(res, cls, name, fn):
    """GUARD-5: a test of the setter's argument alone (an `assert` / `if ...: raise` that does not read self) is made before
    the first write to the object's state: placed after it, a refused argument leaves the shape half updated (vertices
    moved, planes and stored centroid not)."""
    import ast
    if len(fn.params) < 2:
        return
    vparam = fn.params[1]

    def writes_state(s_):
        for n_ in ast.walk(s_):
            if isinstance(n_, (ast.Assign, ast.AugAssign)):
                for t_ in (n_.targets if isinstance(n_, ast.Assign) else [n_.target]):
                    b_ = t_
                    while isinstance(b_, ast.Subscript):
                        b_ = b_.value
                    if isinstance(b_, ast.Attribute) and isinstance(b_.value, ast.Name) and b_.value.id == "self":
                        return True
        return False

    def arg_only_test(s_):
        t_ = None
        if isinstance(s_, ast.Assert):
            t_ = s_.test
        elif isinstance(s_, ast.If) and s_.body and isinstance(s_.body[0], ast.Raise) and not s_.orelse:
            t_ = s_.test
        if t_ is None:
            return False
        names = {x.id for x in ast.walk(t_) if isinstance(x, ast.Name)}
        return vparam in names and "self" not in names
    body = [s_ for s_ in fn.node.body if not (isinstance(s_, ast.Expr) and isinstance(s_.value, ast.Constant))]
    first_write = next((i_ for i_, s_ in enumerate(body) if writes_state(s_) and not arg_only_test(s_)), None)
    late = [s_ for i_, s_ in enumerate(body) if first_write is not None and i_ > first_write and arg_only_test(s_)]
    k = f"{cls.name}.{name}.setter"
    if late:
        res.bad("GUARD-5", k + ":validation-after-write", f"{fn.file}:{late[0].lineno}", f"{k} tests its argument (`{ast.unparse(late[0])[:60]}`) after it has already "
                f"written to the shape (`{ast.unparse(body[first_write])[:50]}`): a refused value leaves the state half updated")
    elif any(arg_only_test(s_) for s_ in body):
        res.ok("GUARD-5", k)


def _getter_info(index, cls, name):
    p = index.effective_prop(cls, name)
    if p is None or p.getter is None:
        return None, None
    it = Interp(index)
    r = it.run_entry(p.getter, cls)
    v = r["result"]
    if v is None or v.kind == "noreturn" or not r["returns"]:
        return None, None
    sym = v.sym
    if sym is None:
        sym = Poly.atom(f"getter<self.{name}>")
    return sym, dim_collapse(v.dim)


def _check_size_setter(res, index, cls, name, fn, scratch):
    g = Guard("value")
    g.scratch = scratch
    mt = MustTouched()
    it = Interp(index, [g, mt])
    gsym, gdim = _getter_info(index, cls, name)
    pname = fn.params[1] if len(fn.params) > 1 else "value"
    g.param = pname
    r = it.run_entry(fn, cls, param_dims={pname: (gdim if gdim is not None else TOP, "float")})
    res.evaluations += it.stats["stmts"]
    res.unmodelled |= it.unmodelled
    label = f"{cls.name}.{name}"
    writes = [e for e in r["events"] if e.type == "write" and e.loc[0].startswith("self") and e.loc[1] not in scratch]
    where = f"{fn.file}:{fn.lineno}"
    # ------------------------------------------------------------ guards
    is_rounding = name == "radius" and any(c.name.startswith("ConvexSphero") for c in cls.mro)
    if not writes:
        # the setter can never reach a write (NotImplementedError stub upstream): discharged
        res.ok("GUARD-1", label, nontrivial=False)
    else:
        if g.unguarded_writes:
            ev = g.unguarded_writes[0]
            res.bad("GUARD-1", label, ev.where(),
                    f"{label}.setter reaches the state write `{ev.src()[:70]}` without a positivity test on the target "
                    f"(path {' -> '.join(ev.path)})", cls=cls.name, setter=name)
        else:
            strict_ok = True
            if not is_rounding:
                # every state write must sit under a strict test
                for n, strict, q in g.guard_sites:
                    pass
                strict_sites = [s for s in g.guard_sites if s[1]]
                if not strict_sites:
                    strict_ok = False
            if strict_ok:
                res.ok("GUARD-1", label, sample={"setter": label, "guards": sorted({f"{q}:{'>' if s else '>='}" for _, s, q in g.guard_sites})[:4],
                                                 "writes": len(writes)})
            else:
                res.bad("GUARD-1", label + ":nonstrict", where,
                        f"{label}.setter accepts 0: its only positivity test is non-strict (>=) but the property is not a rounding radius",
                        cls=cls.name, setter=name)
        if g.nan_writes and not g.unguarded_writes:
            ev = g.nan_writes[0]
            res.bad("GUARD-4", label + ":nan", ev.where(), f"{label}.setter reaches the state write `{ev.src()[:60]}` for a NaN target: its positivity test is "
                    "written as a refusal (`if value <= 0: raise`), which NaN passes because every comparison with NaN is false; the shape is left "
                    f"with non-finite geometry and no ValueError is raised (path {' -> '.join(ev.path)})")
        elif not g.unguarded_writes:
            res.ok("GUARD-4", label, nontrivial=False)
        if g.silent_rejects:
            res.bad("GUARD-3", label, where, f"{label}.setter falls through silently on a non-positive target instead of raising ValueError")
        elif g.wrong_exc:
            ev, exc = g.wrong_exc[0]
            res.bad("GUARD-3", label + ":" + exc, ev.where(), f"{label}.setter refuses a non-positive target with {exc}, not ValueError")
        elif g.guard_sites:
            res.ok("GUARD-3", label)
    # ------------------------------------------------------------ every accepted assignment changes the size state
    if writes:
        exp_all = _length_attrs(it, cls)
        accepted = [(s_, n_) for (v, s_, n_) in r["returns"] if s_.comp[g.name]["pos"]]
        # what an accepted assignment changes on *some* path it must change on every path
        changed_somewhere = {e.loc for e in writes} & exp_all
        for (s_, n_) in accepted:
            touched = s_.comp[mt.name]
            missing = changed_somewhere - touched
            if missing:
                res.bad("SET-3", f"{label}:path:{','.join(sorted(a for _o, a in missing))}", f"{fn.file}:{getattr(n_, 'lineno', fn.lineno)}",
                        f"{label}.setter can accept a positive target and return without changing {sorted(a for _o, a in missing)}: "
                        f"the property does not read back as assigned")
                break
        else:
            res.ok("SET-3", label, nontrivial=False)
    # ------------------------------------------------------------ setter o getter
    if not writes:
        return
    if gsym is None:
        res.not_in_fragment.append(f"SET {label}: getter has no normal return")
        return
    value = Poly.atom(f"param.{pname}")
    rescales = [e for e in r["events"] if e.type == "enter" and not e.entry and e.callee.name == "_rescale"
                and len(e.path) >= 2 and e.selfobj is not None and e.selfobj.oid == "self"]
    # candidates for G inside this run (atoms of fresh objects are run-specific)
    cands = [gsym]
    for e in r["events"]:
        if e.type == "leave" and e.role and e.role[0] == "getter" and e.role[1] == name and e.selfobj is not None \
                and e.selfobj.oid == "self" and e.value is not None:
            s = e.value.sym if e.value.sym is not None else Poly.atom(f"getter<self.{name}>")
            cands.append(s)
    closed = gsym.atoms() <= {a for a in gsym.atoms() if a.startswith("self._") or a in ("pi", "phi") or a.startswith("#")}
    if closed and not any(a.startswith("getter<") for a in gsym.atoms()):
        # SET-2: substitute the symbolic final store (entry-time atoms) into the getter
        store = {}
        ok_store = True
        finals = [st_.comp.get("__symstore", {}) for (_v, st_, _n) in r["returns"]]
        for atom in sorted(gsym.atoms()):
            if not atom.startswith("self."):
                continue
            oid, attr = atom.rsplit(".", 1)
            vals = [f.get((oid, attr), "entry") for f in finals]
            if all(isinstance(v, str) for v in vals):
                continue  # never written
            if any(v is None or isinstance(v, str) for v in vals) or any(v != vals[0] for v in vals):
                ok_store = False
                break
            store[atom] = vals[0]
        if ok_store and store:
            comp = gsym.subs(store)
            if comp is not None and comp == value:
                res.ok("SET-2", label, sample={"setter": label, "getter": str(gsym), "store": {k: str(v) for k, v in store.items()}})
            elif comp is None:
                res.not_in_fragment.append(f"SET-2 {label}: composition outside the normal form")
            else:
                res.bad("SET-2", label, where, f"{label}: getter(setter(value)) normalises to {comp}, not value "
                        f"(getter {gsym}; store {', '.join(f'{k}:={v}' for k, v in store.items())})")
            return
    if rescales:
        if not dim_known(gdim) or gdim[1] == 0:
            res.not_in_fragment.append(f"SET-1 {label}: getter degree unknown ({gdim})")
            return
        d = gdim[1]
        arg = rescales[0].argvals[0].sym if rescales[0].argvals else None
        if arg is None:
            res.not_in_fragment.append(f"SET-1 {label}: scale factor outside the normal form")
            return
        good = False
        wants = []
        for G in cands:
            q = value.div(G)
            want = q.pow(Fraction(1) / d) if q is not None else None
            wants.append(want)
            if want is not None and want == arg:
                good = True
                break
        if good:
            res.ok("SET-1", label, sample={"setter": label, "factor": str(arg), "degree": str(d)})
        else:
            res.bad("SET-1", label, f"{rescales[0].where()}",
                    f"{label}.setter rescales by {arg}; expected (value / {name})^(1/{d}) = {wants[0]}",
                    cls=cls.name, setter=name)
    else:
        res.not_in_fragment.append(f"SET {label}: neither closed-form nor a _rescale funnel")


def _check_translation(res, index, cls, name, fn, scratch):
    it = Interp(index)
    r = it.run_entry(fn, cls)
    res.evaluations += it.stats["stmts"]
    label = f"{cls.name}.{name}"
    writes = [e for e in r["events"] if e.type == "write" and e.loc[0].startswith("self") and e.loc[1] not in scratch]
    if not writes:
        res.ok("TRANS-1", label, nontrivial=False)
        return
    from ..components import CACHE_PARTS
    bad = None
    moved = False
    for e in writes:
        oid, attr = e.loc
        if attr == "_vertices":
            if e.mode == "inplace" and e.op in ("Add", "Sub"):
                moved = True
                continue
            bad = (e, f"writes {attr} by `{e.src()[:60]}` which is not a translation")
        elif attr == "_centroid":
            moved = True
            continue
        elif attr in CACHE_PARTS:
            continue
        else:
            bad = (e, f"writes {attr}: not part of a translation")
    # TRANS-2 the stored position is the shape's own array, never the caller's
    shared = [e for e in writes if e.rhs is not None and any(loc[0] == "param" for loc in e.rhs.all_aliases())]
    if shared:
        e = shared[0]
        res.bad("TRANS-2", f"{label}:{e.loc[1]}:shared", e.where(), f"{label}.setter stores (an alias of) the caller's array in {e.loc[0]}.{e.loc[1]} "
                f"via `{e.src()[:60]}`: a later in-place update of either object moves the other one's {e.loc[1].lstrip('_')} without its geometry")
    else:
        res.ok("TRANS-2", label, nontrivial=False)
    if bad:
        res.bad("TRANS-1", label, bad[0].where(), f"{label}.setter {bad[1]}")
    elif not moved:
        res.bad("TRANS-1", label + ":nomove", f"{fn.file}:{fn.lineno}", f"{label}.setter never moves the shape")
    else:
        res.ok("TRANS-1", label, sample={"setter": label, "writes": sorted({f'{e.loc[1]}:{e.mode}:{e.op}' for e in writes})})


def _length_attrs(it, cls):
    expected = set()
    objs = {"self": cls}
    for c in cls.mro:
        for (cn, attr), comp in it.composites.items():
            if cn == c.name:
                objs[f"self.{attr}"] = comp
    for oid, c in objs.items():
        for a in stored_attrs(c):
            if a in LENGTH_ATTRS:
                expected.add((oid, a))
    return expected


def _check_rescale(res, index, cls, fn):
    mt = MustTouched()
    it = Interp(index, [mt])
    r = it.run_entry(fn, cls)
    exp_all = _length_attrs(it, cls)
    for (v, s_, n_) in r["returns"]:
        missing = exp_all - s_.comp[mt.name]
        if missing:
            res.bad("RESC-1", f"{cls.name}._rescale:path:{','.join(sorted(a for _o, a in missing))}", f"{fn.file}:{getattr(n_, 'lineno', fn.lineno)}",
                    f"{cls.name}._rescale can return without scaling {sorted(o + '.' + a for o, a in missing)} (an early exit): the setter then "
                    f"silently keeps the old size instead of the assigned one")
    res.evaluations += it.stats["stmts"]
    params = fn.params[1:]
    if not params:
        return
    f = Poly.atom(f"param.{params[0]}")
    # expected attributes
    expected = set()
    objs = {"self": cls}
    for c in cls.mro:
        for (cn, attr), comp in it.composites.items():
            if cn == c.name:
                objs[f"self.{attr}"] = comp
    for oid, c in objs.items():
        for a in stored_attrs(c):
            if a in LENGTH_ATTRS:
                expected.add((oid, a))
    label = f"{cls.name}._rescale"
    got = {}
    for e in r["events"]:
        if e.type != "write" or e.loc not in expected:
            continue
        oid, attr = e.loc
        if e.mode == "inplace" and e.op == "Mult":
            got[e.loc] = (e.rhs.sym, e)
        elif e.mode == "inplace" and e.op == "Div":
            got[e.loc] = (e.rhs.sym.inv() if e.rhs.sym is not None else None, e)
        elif e.mode == "rebind":
            new = e.result.sym if e.result is not None else None
            atom = Poly.atom(f"{oid}.{attr}")
            got[e.loc] = (new.div(atom) if new is not None else None, e)
    for loc in sorted(expected):
        k = f"{label}:{loc[0]}.{loc[1]}"
        if loc not in got:
            res.bad("RESC-1", k, f"{fn.file}:{fn.lineno}", f"{label} does not scale {loc[0]}.{loc[1]}: a setter would rescale only part of the state")
        else:
            s, e = got[loc]
            if s is None:
                res.not_in_fragment.append(f"RESC-1 {k}: factor outside the normal form")
            elif s == f:
                res.ok("RESC-1", k, sample={"rescale": label, "attr": f"{loc[0]}.{loc[1]}", "factor": str(s)})
            else:
                res.bad("RESC-1", k, e.where(), f"{label} scales {loc[0]}.{loc[1]} by {s}, not by the factor {f}")
