"""C05 - 3-D point containment (structural part)."""

from __future__ import annotations

from ..containment import check_class
from ..index import AnalysisError
from ..interp import Interp
from ..report import Result

EXPLANATION = (
    "Per is_inside implementation of the five 3-D classes (calls inlined): IN-1 np.atleast_2d(points) is applied before "
    "the first subscript / arithmetic / library use of `points` (shape (3,) accepted); IN-2 the batch axis survives to "
    "the returned array: every reduction of a batch-carrying value names an axis, an axis-less reduction may only feed "
    "a control-flow test, no reordering call touches the batch (element by element, in input order); IN-3 the answer "
    "depends on the class's own size and position state and no membership comparison uses an in-band absolute "
    "constant; IN-4 curved solids decide by a norm of centred, axis-scaled coordinates, never component-wise; IN-5 "
    "the spheropolyhedron compares face-extrusion, edge-cylinder and vertex-cap distances with its rounding radius. "
    "Correctness of the winding-number / half-space computations on arbitrary input is numerical and not decided."
)
from ..algebra import Poly
RAD = Poly.atom("self._radius")
CLASSES_3D = ("ConvexPolyhedron", "Polyhedron", "Sphere", "Ellipsoid", "ConvexSpheropolyhedron")


def run(index, tier="quick", seed=0) -> Result:
    res = Result("C05", EXPLANATION)
    n = 0
    for cname in CLASSES_3D:
        if check_class(res, index, index.cls(cname)):
            n += 1
    if n < 5:
        raise AnalysisError(f"only {n} 3-D is_inside implementations analysed (5 confirmed)")
    # IN-5
    cls = index.cls("ConvexSpheropolyhedron")
    fn = cls.lookup("is_inside")
    it = Interp(index)
    r = it.run_entry(fn, cls)
    sites = {}
    for e in r["events"]:
        if e.type == "cmp" and e.form == "compare":
            for a, b in ((e.left, e.right), (e.right, e.left)):
                if b.sym is not None and b.sym == RAD and a.deps and not (a.sym is not None and a.sym == RAD):
                    kind = "norm" if "norm" in a.tags else ("plane" if any(x[1] == "_equations" for x in a.deps) else "other")
                    sites[(id(e.node))] = kind
    kinds = sorted(sites.values())
    if kinds.count("norm") >= 2 and kinds.count("plane") >= 1:
        res.ok("IN-5", "ConvexSpheropolyhedron.is_inside", sample={"radius_comparisons": kinds})
    else:
        res.bad("IN-5", "ConvexSpheropolyhedron.is_inside", f"{fn.file}:{fn.lineno}",
                f"rounded region not covered: comparisons with the rounding radius found for {kinds} "
                f"(need face extrusion [plane distance], edge cylinders and vertex caps [norms])")
    from ..parallel import report as _copy1
    _copy1(res, index, lambda f: f['top'] in ('is_inside', '_point_plane_distances') and f['cls'] in ('Polyhedron', 'ConvexPolyhedron', 'Sphere', 'Ellipsoid', 'ConvexSpheropolyhedron'))
    return res
