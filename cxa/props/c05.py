"""C05 - 3-D point containment (structural part)."""

from __future__ import annotations

from ..containment import check_class
from ..index import AnalysisError
from ..interp import Interp
from ..report import Result

EXPLANATION = (
    "Per is_inside implementation of the five 3-D classes (calls inlined): IN-1 np.atleast_2d(points) is applied before "
    "the first subscript / arithmetic / library use of `points` (shape (3,) accepted); IN-2 the batch axis survives to "
    "the returned array: every reduction of a batch-carrying value names an axis, an axis-less reduction may only feed "
    "a control-flow test, no reordering call touches the batch (element by element, in input order); IN-3 the answer "
    "depends on the class's own size and position state and no membership comparison uses an in-band absolute "
    "constant; IN-4 curved solids decide by a norm of centred, axis-scaled coordinates, never component-wise; IN-5 "
    "the spheropolyhedron compares face-extrusion, edge-cylinder and vertex-cap distances with its rounding radius. "
    "Correctness of the winding-number / half-space computations on arbitrary input is numerical and not decided."
)
from ..algebra import Poly
RAD = Poly.atom("self._radius")
CLASSES_3D = ("ConvexPolyhedron", "Polyhedron", "Sphere", "Ellipsoid", "ConvexSpheropolyhedron")


def _axis_of(expr, fn_node):
    """coordinate axis ('x'|'y'|'z') an expression is a function of: the constant last index of every coordinate
    subscript (`v[..., 0]`, `p[:, 1]`) reachable through local assignments; None unless they all agree."""
    import ast as _ast
    assigns = {}
    for n in _ast.walk(fn_node):
        if isinstance(n, _ast.Assign) and len(n.targets) == 1 and isinstance(n.targets[0], _ast.Name):
            assigns.setdefault(n.targets[0].id, n.value)
    seen = set()
    consts = set()

    def walk(e, depth=0):
        if depth > 6:
            return
        direct = False
        for n in _ast.walk(e):
            if isinstance(n, _ast.Subscript):
                sl = n.slice
                last = sl.elts[-1] if isinstance(sl, _ast.Tuple) and sl.elts else sl
                if isinstance(last, _ast.Constant) and isinstance(last.value, int) and not isinstance(last.value, bool) \
                        and isinstance(sl, _ast.Tuple):
                    direct = True
        for n in _ast.walk(e):
            if direct and isinstance(n, _ast.Name):
                continue
            if isinstance(n, _ast.Subscript):
                sl = n.slice
                last = sl.elts[-1] if isinstance(sl, _ast.Tuple) and sl.elts else sl
                if isinstance(last, _ast.Constant) and isinstance(last.value, int) and not isinstance(last.value, bool) \
                        and isinstance(sl, _ast.Tuple):
                    consts.add(last.value)
            elif isinstance(n, _ast.Name) and n.id in assigns and n.id not in seen:
                seen.add(n.id)
                v = assigns[n.id]
                # only follow names defined by coordinate slices / arithmetic on them
                if any(isinstance(x, _ast.Subscript) for x in _ast.walk(v)) and not any(isinstance(x, _ast.Call) for x in _ast.walk(v)):
                    walk(v, depth + 1)
    walk(expr)
    if len(consts) == 1 and next(iter(consts)) in (0, 1, 2):
        return "xyz"[next(iter(consts))]
    return None


def run(index, tier="quick", seed=0) -> Result:
    res = Result("C05", EXPLANATION)
    n = 0
    for cname in CLASSES_3D:
        if check_class(res, index, index.cls(cname)):
            n += 1
    if n < 5:
        raise AnalysisError(f"only {n} 3-D is_inside implementations analysed (5 confirmed)")
    # IN-5
    cls = index.cls("ConvexSpheropolyhedron")
    fn = cls.lookup("is_inside")
    it = Interp(index)
    r = it.run_entry(fn, cls)
    sites = {}
    for e in r["events"]:
        if e.type == "cmp" and e.form == "compare":
            for a, b in ((e.left, e.right), (e.right, e.left)):
                if b.sym is not None and b.sym == RAD and a.deps and not (a.sym is not None and a.sym == RAD):
                    kind = "norm" if "norm" in a.tags else ("plane" if any(x[1] == "_equations" for x in a.deps) else "other")
                    sites[(id(e.node))] = kind
    kinds = sorted(sites.values())
    if kinds.count("norm") >= 2 and kinds.count("plane") >= 1:
        res.ok("IN-5", "ConvexSpheropolyhedron.is_inside", sample={"radius_comparisons": kinds})
    else:
        res.bad("IN-5", "ConvexSpheropolyhedron.is_inside", f"{fn.file}:{fn.lineno}",
                f"rounded region not covered: comparisons with the rounding radius found for {kinds} "
                f"(need face extrusion [plane distance], edge cylinders and vertex caps [norms])")
    # IN-5b every (point, face) candidate pair of the slab mask reaches the rounded-region test
    cf = [e for e in r["events"] if e.type == "enter" and not e.entry and e.callee.name == "check_face"]
    if not cf:
        res.not_in_fragment.append("IN-5b: rounded-region helper check_face not found")
    else:
        okpairs = all(len(e.argvals) >= 2 and all("where-index" in a.tags for a in e.argvals[:2]) for e in cf)
        if okpairs:
            res.ok("IN-5b", "ConvexSpheropolyhedron.is_inside:candidates")
        else:
            src = sorted({str(t) for e in cf for a in e.argvals[:2] for t in a.tags if isinstance(t, tuple) and t[0] == "index-from"})
            res.bad("IN-5b", "ConvexSpheropolyhedron.is_inside:candidates", cf[0].where(), "the rounded region is not tested for every (point, face) pair of the slab mask "
                    f"(np.where of the 2-D mask); candidates come from {src or 'another selection'}: the face with the largest plane distance "
                    "need not contain the nearest edge or vertex")
    # IN-10 lexicographic tie-breaking uses one coordinate order (x, then y, then z) everywhere
    import ast as _ast, re as _re
    pfn = index.cls("Polyhedron").lookup("is_inside")
    bad_order = None
    ncalls = 0
    # the lexicographic tie-break helper, by structure: a nested 3-parameter function returning
    # where(a != 0, a, where(b != 0, b, c)) - its name carries no meaning
    tiebreak = set()
    for d_ in _ast.walk(pfn.node):
        if isinstance(d_, _ast.FunctionDef) and d_ is not pfn.node:
            # abstract evaluation of the helper on three symbolic sign arrays in the domain "first non-zero of an ordered list"
            chain = _first_nonzero_chain(d_, 3)
            if chain is None:
                continue
            if chain == [0, 1, 2]:
                tiebreak.add(d_.name)
            elif set(chain) < {0, 1, 2} and chain == sorted(chain):
                missing = "xyz"[({0, 1, 2} - set(chain)).pop()]
                res.bad("IN-10", f"Polyhedron.is_inside:tiebreak-drops-{missing}", f"{pfn.file}:{d_.lineno}",
                        f"the lexicographic tie-break helper `{d_.name}` returns the first non-zero of its arguments {[('a', 'b', 'c')[i] for i in chain]} only: "
                        f"its {('first', 'second', 'third')[({0, 1, 2} - set(chain)).pop()]} argument is never consulted, so a query point that shares the leading "
                        "coordinates with a vertex gets sign 0 and a wrong winding number")
                tiebreak.add(d_.name)
    if not tiebreak:
        raise AnalysisError("Polyhedron.is_inside: the lexicographic tie-break helper where(a != 0, a, where(b != 0, b, c)) is not recognised")
    def _star_letters(call):
        """sign_or(*[f(c) for c in triple]) where `triple = helper(...)` and the nested helper returns the three coordinate
        differences as a display: the axes in the order of that display"""
        if not (len(call.args) == 1 and isinstance(call.args[0], _ast.Starred)):
            return None
        v = call.args[0].value
        if not (isinstance(v, (_ast.ListComp, _ast.GeneratorExp)) and len(v.generators) == 1 and not v.generators[0].ifs):
            return None
        src = v.generators[0].iter
        local = {}
        for x_ in _ast.walk(pfn.node):
            if isinstance(x_, _ast.Assign) and len(x_.targets) == 1 and isinstance(x_.targets[0], _ast.Name):
                local.setdefault(x_.targets[0].id, x_.value)
        depth = 0
        while isinstance(src, _ast.Name) and src.id in local and depth < 4:
            src, depth = local[src.id], depth + 1
        if isinstance(src, _ast.Call) and isinstance(src.func, _ast.Name):
            helpers = [d for d in _ast.walk(pfn.node) if isinstance(d, _ast.FunctionDef) and d.name == src.func.id]
            rets = [r.value for h in helpers for r in _ast.walk(h) if isinstance(r, _ast.Return) and r.value is not None]
            if len(rets) == 1 and isinstance(rets[0], (_ast.Tuple, _ast.List)):
                src = rets[0]
                scope = helpers[0]
            elif len(rets) == 1 and isinstance(rets[0], _ast.Call) and isinstance(rets[0].func, _ast.Name) and rets[0].func.id in ("tuple", "list") \
                    and len(rets[0].args) == 1 and isinstance(rets[0].args[0], (_ast.GeneratorExp, _ast.ListComp)) and len(rets[0].args[0].generators) == 1:
                # tuple(v[..., k] - p[..., k] for k in range(3)): component k is the coordinate k, in order
                g_ = rets[0].args[0].generators[0]
                if isinstance(g_.target, _ast.Name) and _ast.unparse(g_.iter).replace(" ", "") == "range(3)" and not g_.ifs:
                    subs_ = [x_ for x_ in _ast.walk(rets[0].args[0].elt) if isinstance(x_, _ast.Subscript) and isinstance(x_.slice, _ast.Tuple) and x_.slice.elts]
                    if subs_ and all(isinstance(x_.slice.elts[-1], _ast.Name) and x_.slice.elts[-1].id == g_.target.id for x_ in subs_):
                        return ["x", "y", "z"]
                return None
            else:
                return None
        else:
            scope = pfn.node
        if isinstance(src, (_ast.Tuple, _ast.List)) and len(src.elts) == 3:
            return [_axis_of(e_, scope) for e_ in src.elts]
        return None
    for n_ in _ast.walk(pfn.node):
        if isinstance(n_, _ast.Call) and isinstance(n_.func, _ast.Name) and n_.func.id in tiebreak and (len(n_.args) == 3 or _star_letters(n_) is not None):
            letters = _star_letters(n_) or [_axis_of(a, pfn.node) for a in n_.args]
            if None not in letters:
                ncalls += 1
                if letters != ["x", "y", "z"]:
                    bad_order = (n_, letters)
    if bad_order:
        res.bad("IN-10", "Polyhedron.is_inside:vertex-order:" + "".join(bad_order[1]), f"{pfn.file}:{bad_order[0].lineno}",
                f"vertex sign tie-break uses the coordinate order {bad_order[1]}; the edge and triangle tie-breaks use the projections xy, xz, yz, "
                "i.e. lexicographic (x, y, z): points sharing a coordinate with a vertex are misclassified")
    elif ncalls:
        res.ok("IN-10", "Polyhedron.is_inside:vertex-order")
    from ..parallel import report as _copy1
    _copy1(res, index, lambda f: f['top'] in ('is_inside', '_point_plane_distances') and f['cls'] in ('Polyhedron', 'ConvexPolyhedron', 'Sphere', 'Ellipsoid', 'ConvexSpheropolyhedron'))
    from ..dimscan import report_translation, scan as _scan
    report_translation(res, _scan(index), lambda func, path: (path[0] if path else func).split(".")[0] in ("ConvexPolyhedron", "Polyhedron", "Sphere", "Ellipsoid", "ConvexSpheropolyhedron") and (path[0] if path else func).endswith(".is_inside"),
                       "is_inside implementations")
    return res


def _first_nonzero_chain(fn, nargs):
    """Evaluate a small helper on `nargs` symbolic arrays in the abstract domain 'first non-zero element of an ordered list of
    candidates' (a chain of argument positions).  np.where(X != 0, X, Y) concatenates the chains of X and Y.  Returns the
    chain of the returned value, or None when the helper leaves this fragment (not a tie-break helper)."""
    import ast

    class Out(Exception):
        pass

    a = fn.args
    params = [x.arg for x in a.args]
    env = {}
    if a.vararg and not params:
        env[a.vararg.arg] = tuple([i] for i in range(nargs))
    elif len(params) == nargs and not a.vararg:
        for i, p in enumerate(params):
            env[p] = [i]
    else:
        return None

    def ev(n):
        if isinstance(n, ast.Name):
            if n.id in env:
                return env[n.id]
            raise Out()
        if isinstance(n, ast.Subscript):
            base = ev(n.value)
            if not isinstance(base, tuple):
                raise Out()
            try:
                if isinstance(n.slice, ast.Slice):
                    lo = ast.literal_eval(n.slice.lower) if n.slice.lower is not None else None
                    hi = ast.literal_eval(n.slice.upper) if n.slice.upper is not None else None
                    st = ast.literal_eval(n.slice.step) if n.slice.step is not None else None
                    return base[lo:hi:st]
                return base[ast.literal_eval(n.slice)]
            except Out:
                raise
            except Exception:
                raise Out()
        if isinstance(n, ast.Call) and ast.unparse(n.func).split(".")[-1] == "where" and len(n.args) == 3:
            cond, x, y = n.args
            if not (isinstance(cond, ast.Compare) and len(cond.ops) == 1 and isinstance(cond.ops[0], ast.NotEq)
                    and isinstance(cond.comparators[0], ast.Constant) and cond.comparators[0].value == 0):
                raise Out()
            cx, vx, vy = ev(cond.left), ev(x), ev(y)
            if cx != vx or isinstance(vx, tuple) or isinstance(vy, tuple):
                raise Out()
            return vx + [i for i in vy if i not in vx]
        raise Out()

    def run(stmts):
        for s in stmts:
            if isinstance(s, ast.Expr) and isinstance(s.value, ast.Constant):
                continue
            if isinstance(s, ast.Assign) and len(s.targets) == 1 and isinstance(s.targets[0], ast.Name):
                env[s.targets[0].id] = ev(s.value)
            elif isinstance(s, ast.For) and isinstance(s.target, ast.Name) and not s.orelse:
                seq = ev(s.iter)
                if not isinstance(seq, tuple):
                    raise Out()
                for item in seq:
                    env[s.target.id] = item
                    r = run(s.body)
                    if r is not None:
                        return r
            elif isinstance(s, ast.Return) and s.value is not None:
                return ev(s.value)
            else:
                raise Out()
        return None

    try:
        r = run(fn.body)
    except Out:
        return None
    return r if isinstance(r, list) else None
