"""C04 - polygon area, centroid, moments and inertia tensor are exact (structural part)."""

from __future__ import annotations

from fractions import Fraction

from ..cyc import NotInFragment, axis_signature
from ..degrees import check_degree, declared_degree
from ..dimscan import scan
from ..index import AnalysisError
from ..interp import Interp
from ..polyparity import evaluate, par
from ..report import Result

EXPLANATION = (
    "Polygon / ConvexPolygon: DEG area 2, perimeter 1, centroid 1, planar / polar moments and inertia tensor 4, all "
    "formulas homogeneous (E3); PAR orientation parity of every per-edge sum under reversal of the vertex cycle "
    "(symbolic shift s -> -s on the summand polynomial): signed_area odd; area, perimeter, centroid, planar moments "
    "even - the 'clockwise or counter-clockwise about its normal' clause; ABS-1 an absolute value may be applied to an "
    "orientation-odd sum only if its integrand is sign-definite (even exponents in every axis), otherwise the sign "
    "information of the integral is lost; AXS axis support: I_x <-> A*y^2, I_y <-> A*x^2, I_xy <-> A*x*y in the order "
    "returned, centroid components <-> A*x, A*y; FRAME-1 quantities computed in the frame where the normal is z are "
    "rotated back with the transposed (inverse) matrix of the normal->z rotation (Polygon.centroid, "
    "Polygon.inertia_tensor). Exact value agreement for arbitrary simple polygons and properness of rowan's kabsch "
    "rotation are numerical and not decided."
)
F = Fraction


def run(index, tier="quick", seed=0) -> Result:
    res = Result("C04", EXPLANATION)
    sc = scan(index)
    # ---------------------------------------------------------------- DEG
    n = 0
    for (cname, member, kind), v in sorted(sc.results.items()):
        if cname not in ("Polygon", "ConvexPolygon") or kind != "getter":
            continue
        want = declared_degree(index.cls(cname), member)
        if want is None or member.endswith("_radius"):
            continue
        st, txt = check_degree(v, want)
        if st == "noreturn":
            continue
        n += 1
        if st == "ok":
            res.ok("DEG", f"{cname}.{member}")
        elif st == "bad":
            res.bad("DEG", f"{cname}.{member}", cname, f"{cname}.{member} has length degree {txt}, declared {want}")
        else:
            res.not_in_fragment.append(f"DEG {cname}.{member}: {txt}")
    for k, (where, what, func) in sc.conflicts.items():
        if func.startswith("Polygon.") or func.startswith("ConvexPolygon.") or "_align_points_by_normal" in func:
            res.bad("DEG", k, where, what)
    if n < 14:
        raise AnalysisError(f"only {n} polygon degree obligations (>= 14 confirmed)")
    # ---------------------------------------------------------------- PAR / ABS-1 / AXS
    P = index.cls("Polygon")
    want_par = {"signed_area": ["odd"], "area": ["even"], "perimeter": ["even"], "centroid": ["even", "even", "even"],
                "planar_moments_inertia": ["even", "even", "even"]}
    want_sig = {"centroid": [{(F(1), F(0), F(0))}, {(F(0), F(1), F(0))}, {(F(0), F(0), F(1))}],
                "planar_moments_inertia": [{(F(1), F(3), F(0))}, {(F(3), F(1), F(0))}, {(F(2), F(2), F(0))}]}
    names = {"centroid": ["x", "y", "z"], "planar_moments_inertia": ["I_x", "I_y", "I_xy"]}
    for member, wants in want_par.items():
        fn = index.effective_prop(P, member).getter
        where = f"{fn.file}:{fn.lineno}"
        try:
            ret, ev = evaluate(fn, index=index)
        except NotInFragment as e:
            res.not_in_fragment.append(f"PAR Polygon.{member}: {e}")
            continue
        comps = ret.comps if ret.comps else [c for it in (ret.items or []) for c in it.comps]
        if len(comps) != len(wants):
            res.not_in_fragment.append(f"PAR Polygon.{member}: {len(comps)} components, expected {len(wants)}")
            continue
        for i, (c, w) in enumerate(zip(comps, wants)):
            nm = names.get(member, [member])[i] if member in names else member
            k = f"Polygon.{member}:{nm}"
            got = par(c)
            if got == w or got == "zero":
                res.ok("PAR", k, sample={"quantity": k, "parity": got})
            else:
                res.bad("PAR", k, where, f"Polygon.{member}[{nm}] is orientation-{got} (expected {w}): listing the vertices clockwise "
                        f"about the normal changes the result")
            if member in want_sig and want_sig[member][i] is not None:
                sig = axis_signature(c)
                if sig == want_sig[member][i]:
                    res.ok("AXS", k)
                else:
                    res.bad("AXS", k, where, f"Polygon.{member}[{nm}] integrates axis exponents {_fmt(sig)}, expected {_fmt(want_sig[member][i])} "
                            f"(the quantity is not the moment its position in the result claims)")
        # abs sites
        for j, (node, pre) in enumerate(ev.abs_sites):
            for i, c in enumerate(pre.comps):
                p0 = par(c)
                if member == "signed_area":
                    continue   # |normal|: orientation-free vector
                k = f"Polygon.{member}:abs#{j}.{i}"
                if p0 in ("even", "zero"):
                    res.ok("ABS-1", k, nontrivial=False)
                    continue
                sig = axis_signature(c)
                definite = all(all((e - (1 if ax < 2 else 0)) % 2 == 0 for ax, e in enumerate(s)) or s[2] != 0 for s in sig)
                unused = all(s[2] != 0 for s in sig)   # the z column of the rotated frame (discarded)
                if unused:
                    continue
                if p0 == "odd" and definite:
                    res.ok("ABS-1", k, sample={"abs_of": k, "parity_before": p0, "axis": _fmt(sig)})
                else:
                    res.bad("ABS-1", f"Polygon.{member}:abs:{_fmt(sig)}", f"{fn.file}:{node.lineno}",
                            f"Polygon.{member}: abs() applied to an orientation-{p0} sum whose integrand {_fmt(sig)} is not sign-definite: "
                            f"the sign of the integral is lost together with the orientation")
    # ---------------------------------------------------------------- FRAME-1
    for member in ("centroid", "inertia_tensor"):
        fn = index.effective_prop(P, member).getter
        it = Interp(index)
        r = it.run_entry(fn, P)
        k = f"Polygon.{member}"
        sites = []
        for e in r["events"]:
            if len(e.path) != 1 and not (e.type == "enter" and len(e.path) == 2):
                continue
            if e.type == "enter" and not e.entry and e.callee.name == "rotate_order2_tensor":
                m = e.argvals[0] if e.argvals else None
                if m is not None and "orth" in m.tags:
                    sites.append(("rotate_order2_tensor", "transposed" in m.tags, e))
            if e.type == "dotcall" and e.func is fn:
                # effective matrix applied to the vector: M.dot(v) / np.dot(M, v) apply M, np.dot(v, M) applies M^T
                if e.left is not None and "orth" in e.left.tags:
                    sites.append(("dot", "transposed" in e.left.tags, e))
                elif e.right is not None and "orth" in e.right.tags:
                    sites.append(("dot", "transposed" not in e.right.tags, e))
        if not sites:
            res.not_in_fragment.append(f"FRAME-1 {k}: no use of the normal->z rotation found")
            continue
        bad = [s for s in sites if not s[1]]
        if bad:
            res.bad("FRAME-1", k, bad[0][2].where(), f"{k}: a quantity computed in the frame where the normal is z is mapped back with the "
                    f"forward rotation (`{bad[0][2].src()[:60]}`); the inverse (transpose) is needed - right only for polygons in a coordinate plane")
        else:
            res.ok("FRAME-1", k, sample={"site": k, "uses": [s[0] for s in sites]})
    from ..parallel import report as _copy1
    from ..mean1 import check as _mean1
    for cn_ in ("Polygon", "ConvexPolygon"):
        _mean1(res, index, cn_, ("centroid", "center", "inertia_tensor", "planar_moments_inertia", "polar_moment_inertia", "area", "signed_area"),
               "the polygon measures are integrals over the area, not averages over the corners")
    from ..frame3 import check as _frame3
    for cn_ in ("Polygon", "ConvexPolygon"):
        _frame3(res, index, cn_, ("centroid", "inertia_tensor", "planar_moments_inertia", "polar_moment_inertia", "area", "signed_area", "perimeter"))
    _copy1(res, index, lambda f: f['cls'] in ('Polygon', 'ConvexPolygon') and f['top'] in ('signed_area', 'area', 'perimeter', 'centroid', 'planar_moments_inertia', 'inertia_tensor', '_reorder_verts') or f['func'] in ('_align_points_by_normal', 'translate_inertia_tensor', 'rotate_order2_tensor'))
    # ---------------------------------------------------------------- FRAME-0 the alignment helper applies the forward rotation
    pmod = index.module("coxeter.shapes.polygon")
    al = pmod.functions.get("_align_points_by_normal")
    if al is None:
        # (the helper may live in another module of the package)
        cands_ = [m_.functions["_align_points_by_normal"] for m_ in index.modules.values() if "_align_points_by_normal" in m_.functions]
        al = cands_[0] if len(cands_) == 1 else None
    if al is None:
        raise AnalysisError("anchor vanished: _align_points_by_normal")
    it = Interp(index)
    r = it.run_entry(al, None)
    dots = [e for e in r["events"] if e.type == "dotcall" and e.func is al]
    fwd = []
    for e in dots:
        if e.right is not None and "orth" in e.right.tags:
            fwd.append("transposed" in e.right.tags)       # np.dot(points, R.T) applies R to each row
        elif e.left is not None and "orth" in e.left.tags:
            fwd.append("transposed" not in e.left.tags)
    rv = r["result"]
    returns_rot = rv is not None and rv.items is not None and len(rv.items) == 2 and "orth" in rv.items[1].tags and "transposed" not in rv.items[1].tags
    if fwd and all(fwd) and returns_rot:
        res.ok("FRAME-0", "_align_points_by_normal")
    elif not fwd:
        res.not_in_fragment.append("FRAME-0: application of the kabsch rotation not found")
    else:
        res.bad("FRAME-0", "_align_points_by_normal", f"{al.file}:{al.lineno}", "_align_points_by_normal must rotate the row vectors with np.dot(points, rotation.T) "
                "and return that same rotation: callers undo it with the transpose")
    # ---------------------------------------------------------------- PAR of the parallel-axis mass
    fn = index.effective_prop(P, "inertia_tensor").getter
    it = Interp(index)
    r = it.run_entry(fn, P)
    tr = [e for e in r["events"] if e.type == "enter" and not e.entry and e.callee.name == "translate_inertia_tensor" and len(e.path) == 2]
    if not tr:
        res.not_in_fragment.append("PAR Polygon.inertia_tensor: translate_inertia_tensor call not found")
    for e in tr:
        vals = list(e.argvals) + [e.kwvals.get(k) for k in ("volume",)]
        mass = e.kwvals.get("volume", e.argvals[2] if len(e.argvals) > 2 else None)
        getters = {t[1] for t in (mass.tags if mass is not None else ()) if isinstance(t, tuple) and t[0] == "getter"}
        k = "Polygon.inertia_tensor:mass"
        if "signed_area" in getters and "area" not in getters:
            res.bad("PAR", k, e.where(), "Polygon.inertia_tensor shifts the tensor with the orientation-odd signed area: for vertices listed "
                    "clockwise about the normal the parallel-axis term A(|c|^2 1 - c c^T) enters with the wrong sign")
        elif "area" in getters:
            res.ok("PAR", k)
        else:
            res.not_in_fragment.append(f"PAR {k}: mass argument provenance {sorted(getters)}")
    from ..frame2 import check as _frame2
    for cn_ in ("Polygon", "ConvexPolygon"):
        _frame2(res, index, cn_, ("signed_area", "area", "perimeter", "centroid", "center", "planar_moments_inertia", "polar_moment_inertia", "inertia_tensor"))
    return res


def _fmt(sig):
    return "{" + ", ".join("x^%s y^%s z^%s" % s for s in sorted(sig)) + "}"
