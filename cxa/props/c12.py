"""C12 - form factor amplitude is the Fourier transform of the shape (structural part)."""

from __future__ import annotations

import ast

from ..degrees import check_degree
from ..dimscan import scan
from ..index import AnalysisError, FuncInfo
from ..interp import Interp
from ..report import Result
from ..values import D, Val

EXPLANATION = (
    "Per compute_form_factor_amplitude implementation (Sphere, Polygon, Polyhedron; inherited ones through the MRO): "
    "DEG the amplitude has degree d of the shape and every exp / sinc / cos argument is dimensionless (q only ever "
    "multiplies a length); FF-1 `density` reaches the returned array on every normal path (taint); FF-2 the zero-q "
    "branch stores the class's own volume / area (F(0)) and the general branch has the same orientation parity as that "
    "branch (edge sums of a polygon change sign with the vertex orientation and must be corrected by the sign of the "
    "signed area); FF-3 no axis-less squeeze is applied to an array carrying the q batch axis (batches with exactly one "
    "non-zero q); FF-4 the sphere's amplitude carries the positional phase exp(-i q.centroid) and the polyhedron "
    "multiplies each face term by exp(-i (q.n) d) with d = -equation[3] (the sign convention of the plane equations). "
    "Equality with the Fourier integral and continuity near special directions are numerical and not decided."
)
IMPLS = (("Sphere", 3), ("Polygon", 2), ("ConvexPolygon", 2), ("Polyhedron", 3), ("ConvexPolyhedron", 3))


def run(index, tier="quick", seed=0) -> Result:
    res = Result("C12", EXPLANATION)
    sc = scan(index)
    n = 0
    for cname, d in IMPLS:
        cls = index.cls(cname)
        fn = cls.lookup("compute_form_factor_amplitude")
        if not isinstance(fn, FuncInfo):
            raise AnalysisError(f"anchor vanished: {cname}.compute_form_factor_amplitude")
        it = Interp(index)
        q = it.param_val("q", fn)
        q.tags = q.tags | {"batch"}
        r = it.run_entry(fn, cls, args={"q": q})
        res.evaluations += it.stats["stmts"]
        if not r["returns"]:
            raise AnalysisError(f"{cname}.compute_form_factor_amplitude has no normal return")
        n += 1
        label = f"{cname}.compute_form_factor_amplitude"
        own = fn.cls.name == cname
        where = f"{fn.file}:{fn.lineno}"
        # DEG
        st, txt = check_degree(r["result"], d)
        if st == "ok":
            res.ok("DEG", label)
        elif st == "bad":
            res.bad("DEG", label, where, f"{label} has length degree {txt}, expected {d}")
        else:
            res.not_in_fragment.append(f"DEG {label}: {txt}")
        # FF-1
        missing = [nn for (v, s, nn) in r["returns"] if "density" not in v.pdeps]
        if missing:
            res.bad("FF-1", label, f"{fn.file}:{getattr(missing[0], 'lineno', fn.lineno)}", f"{label}: `density` does not reach the returned amplitude")
        else:
            # ... and reaches every part of it: the returned array is assembled by masked stores (the q = 0 entries, the others);
            # either the whole array is multiplied by a density-dependent factor after the last store, or every stored / added
            # value carries the density itself
            rname = {n_.value.id for n_ in ast.walk(fn.node) if isinstance(n_, ast.Return) and isinstance(n_.value, ast.Name)}
            parts = [e for e in r["events"] if e.func is fn and len(e.path) == 1 and (
                (e.type == "local-store" and e.f.get("name") in rname)
                or (e.type == "augassign" and isinstance(e.node, ast.AugAssign) and isinstance(e.node.target, ast.Subscript)
                    and isinstance(e.node.target.value, ast.Name) and e.node.target.value.id in rname))]
            whole = [e for e in r["events"] if e.func is fn and len(e.path) == 1 and e.type == "augassign" and isinstance(e.node, ast.AugAssign)
                     and isinstance(e.node.target, ast.Name) and e.node.target.id in rname and e.f.get("op") in ("Mult",)
                     and e.f.get("rhs") is not None and "density" in e.rhs.pdeps]
            last_part = max((e.time for e in parts), default=None)
            covered = bool(whole) and (last_part is None or any(w.time > last_part for w in whole))
            bare = [e for e in parts if "density" not in ((e.f.get("value") or e.f.get("rhs")).pdeps if (e.f.get("value") or e.f.get("rhs")) is not None else ())]
            if own and parts and not covered and bare:
                e = bare[0]
                res.bad("FF-1", label + ":part-without-density", e.where(), f"{label}: the entries stored by `{e.src()[:60]}` never meet `density` (the other entries do): "
                        "F(q) is density * (...) for some wave vectors and the bare geometric amplitude for the rest - at q = 0 the volume instead of density * volume")
            else:
                res.ok("FF-1", label)
        # FF-3
        sq = [e for e in r["events"] if e.type == "squeeze" and e.target is not None and "batch" in e.target.tags and e.axis is None]
        nsq = len([e for e in r["events"] if e.type == "squeeze"])
        if sq:
            res.bad("FF-3", f"{label}:squeeze", sq[0].where(), f"{label}: axis-less squeeze on an array that carries the q batch axis "
                    f"(`{sq[0].src()[:60]}`): a batch with exactly one non-zero q loses that axis")
        else:
            res.ok("FF-3", label, nontrivial=nsq > 0)
        # FF-5 the q -> 0 branch is selected with a tolerance: q projected into a face plane is a difference and is
        # only zero up to rounding for a q along the normal of a face that is not axis-aligned
        zsel = [e for e in r["events"] if e.type == "cmp" and e.func is fn and "q" in (e.left.pdeps | e.right.pdeps)
                and (e.right.is_number_const() and e.right.const == 0 or e.left.is_number_const() and e.left.const == 0)]
        if zsel and own:
            exact = [e for e in zsel if e.form == "compare" and e.op in ("Eq", "NotEq")]
            if exact:
                res.bad("FF-5", f"{label}:exact-zero", exact[0].where(), f"{label} selects the q = 0 branch with the exact test `{exact[0].src()[:40]}`: a wave vector "
                        f"along the normal of a rotated face leaves an in-plane remainder of ~1e-16 and the edge sum is divided by its square "
                        f"(F discontinuous as q becomes parallel to a face normal)")
            else:
                res.ok("FF-5", label)
        elif own:
            # no comparison with zero: a tolerance test between two non-zero quantities of q puts the *relative* tolerance in play
            rel = [e for e in r["events"] if e.type == "cmp" and e.func is fn and e.form in ("isclose", "allclose")
                   and "q" in e.left.pdeps and "q" in e.right.pdeps and not e.left.is_number_const() and not e.right.is_number_const()
                   and "rtol" not in (e.kw or {})]
            if rel:
                res.bad("FF-5", f"{label}:relative-zero", rel[0].where(), f"{label} selects the q = 0 branch with `{rel[0].src()[:60]}`, a comparison of two non-zero "
                        "quantities of q: the default relative tolerance 1e-5 on squared lengths treats an in-plane component of up to 0.3 % of |q| as "
                        "zero and drops its phase (F wrong for every q within 3e-3 rad of a face normal)")
        if not own:
            continue
        # FF-2 zero branch
        want = "volume" if d == 3 else "area"
        found = None
        stores = []
        for node in ast.walk(fn.node):
            if isinstance(node, ast.Assign) and isinstance(node.targets[0], ast.Subscript):
                t = node.targets[0]
                if isinstance(t.value, ast.Name) and isinstance(t.slice, (ast.Name, ast.UnaryOp)):
                    stores.append((ast.unparse(t.slice), ast.unparse(node.value)))
        # the store under the plain (non-inverted) mask is the q = 0 branch
        for sl, val in stores:
            if not sl.startswith("~") and any(o.startswith("~") and o[1:].strip("()") == sl for o, _ in stores if o != sl) or (not sl.startswith("~") and len(stores) == 1):
                found = val
        if found is None and stores:
            plain = [v for sl, v in stores if not sl.startswith("~")]
            found = plain[0] if plain else None
        dens_forms = (f"density * self.{want}", f"self.{want} * density")
        whole_dens = any(isinstance(n_, ast.AugAssign) and isinstance(n_.op, ast.Mult) and isinstance(n_.target, ast.Name) and "density" in ast.unparse(n_.value)
                         for n_ in ast.walk(fn.node))
        if found == f"self.{want}":
            res.ok("FF-2", f"{label}:F(0)")
        elif found in dens_forms and not whole_dens:
            res.ok("FF-2", f"{label}:F(0)")          # the density is applied part by part (FF-1 checks that every part has it)
        elif found in dens_forms:
            res.bad("FF-2", f"{label}:F(0):density-twice", where, f"{label}: the zero-q branch stores `{found}` and the whole array is multiplied by the density "
                    "again: F(0) = density^2 * " + want)
        else:
            res.bad("FF-2", f"{label}:F(0)", where, f"{label}: the zero-q branch stores `{found}`, expected self.{want}")
        # FF-4 phases
        trig = [e for e in r["events"] if e.type == "trigcall" and e.fn == "exp" and e.func is fn]
        if cname == "Sphere":
            ok = any(("self", "_centroid") in e.arg.deps and "q" in e.arg.pdeps for e in trig)
            if ok:
                res.ok("FF-4", label)
            else:
                res.bad("FF-4", label, where, f"{label}: no positional phase exp(-i q.centroid): the amplitude ignores where the sphere is")
            # FF-4b: the phase multiplies the whole amplitude - also the entries of the q -> 0 branch (|q| small does not make
            # q . centroid small for a sphere far from the origin)
            whole = [e for e in r["events"] if e.type == "augassign" and e.f.get("op") == "Mult" and e.f.get("rhs") is not None
                     and ("self", "_centroid") in e.rhs.deps and e.func is fn]
            stores = [e for e in r["events"] if e.type == "local-store" and e.func is fn and e.f.get("value") is not None]
            unphased = [e for e in stores if ("self", "_centroid") not in e.value.deps and not e.value.is_number_const()]
            if ok and not whole and unphased:
                res.bad("FF-4", label + ":phase-on-part", unphased[0].where(), f"{label}: the branch stored by `{unphased[0].src()[:50]}` never receives the positional "
                        "phase exp(-i q.centroid): for a sphere far from the origin q.centroid is not small where |q| is, so F loses its phase there")
            elif ok:
                res.ok("FF-4", label + ":whole-array", nontrivial=bool(whole))
        elif cname == "Polyhedron":
            ok = any(("self", "_equations") in e.arg.deps and "q" in e.arg.pdeps for e in trig)
            sign_ok = False
            for node in ast.walk(fn.node):
                if isinstance(node, ast.UnaryOp) and isinstance(node.op, ast.USub) and isinstance(node.operand, ast.Subscript):
                    sl = ast.unparse(node.operand.slice).replace(" ", "").strip("()")
                    if sl in ("3", ":,3", "-1", ":,-1"):
                        sign_ok = True
            if ok and sign_ok:
                res.ok("FF-4", label)
            elif not ok:
                res.bad("FF-4", label, where, f"{label}: face terms are not shifted by exp(-i (q.n) d) of their plane")
            else:
                res.bad("FF-4", label + ":sign", where, f"{label}: plane distance must be d = -equation[3] (ax+by+cz+d=0 convention of _find_equations)")
        elif cname == "Polygon":
            ok = any(("self", "_vertices") in e.arg.deps and "q" in e.arg.pdeps for e in trig)
            if ok:
                res.ok("FF-4", label)
            else:
                res.bad("FF-4", label, where, f"{label}: edge terms carry no phase exp(-i q.midpoint)")
    # FF-2 orientation parity of the two branches of the polygon amplitude
    from ..cyc import NotInFragment, SV
    from ..algebra import Poly
    from ..polyparity import evaluate, par
    fnp = index.cls("Polygon").lookup("compute_form_factor_amplitude")
    try:
        qv = SV("vec", [Poly.atom(f"q.{c}") for c in "xyz"])
        # state attributes the amplitude reads beyond the geometric ones: if such an attribute is stored as a numeric constant
        # somewhere in the polygon classes (e.g. an orientation flag set to 1.0 at construction), it is orientation-free on
        # those histories - evaluate the amplitude with that value
        from ..polyparity import constant_state
        extra_attr = constant_state(fnp, index)
        ret, ev = evaluate(fnp, {"q": qv, "density": SV("scal", [Poly.atom("RHO")])}, extra_attr=extra_attr, index=index)
        stores = {k: [par(c) for c in v.comps] for k, v in ev.masked_stores.items()}
        zero = [v for k, v in stores.items() if "~" not in k]
        gen = [v for k, v in stores.items() if "~" in k]
        if not zero or not gen:
            res.not_in_fragment.append(f"FF-2 parity: masked stores not recovered ({stores})")
        elif all(p_ in ("even", "zero") for v in zero + gen for p_ in v):
            res.ok("FF-2", "Polygon.compute_form_factor_amplitude:parity", sample={"branches": stores})
        else:
            res.bad("FF-2", "Polygon.compute_form_factor_amplitude:parity", f"{fnp.file}:{fnp.lineno}",
                    f"Polygon form factor: branch parities under reversal of the vertex order are {stores}; the q=0 branch (area) is "
                    f"orientation-free, so the edge sum must be too: for clockwise vertices F jumps from +A to about -A next to q=0")
    except NotInFragment as e:
        res.not_in_fragment.append(f"FF-2 parity: {e}")
    _series_branch(res, index)
    for k, (where, what, func) in sc.conflicts.items():
        if "compute_form_factor_amplitude" in func:
            res.bad("DEG", k, where, what)
    if n < 5:
        raise AnalysisError("fewer than 5 (class, implementation) pairs")
    from ..parallel import report as _copy1
    from ..mean1 import check as _mean1
    for cn_ in ("Polygon", "ConvexPolygon", "Polyhedron", "ConvexPolyhedron"):
        _mean1(res, index, cn_, ("compute_form_factor_amplitude",), "the amplitude is an integral over the shape: a reference point that is not "
               "cancelled exactly shifts every phase")
    from ..frame3 import check as _frame3
    for cn_ in ("Polygon", "ConvexPolygon"):
        _frame3(res, index, cn_, ("compute_form_factor_amplitude",))
    _copy1(res, index, lambda f: f['top'] == 'compute_form_factor_amplitude')
    from ..dimscan import report_translation
    report_translation(res, sc, lambda func, path: "compute_form_factor_amplitude" in func or any("compute_form_factor_amplitude" in p_ for p_ in path[:1]),
                       "form factor implementations")
    return res


def _series_branch(res, index):
    """FF-6: where the sphere's amplitude switches to a power series for small |q| R (`np.where(qr < eps, series, closed)`), the
    series is the Taylor expansion of the closed form it replaces: both are translated to sympy in q, R > 0 (q_sqs = q^2,
    qr = q R, np.sinc(y) = sin(pi y) / (pi y), self.volume = 4/3 pi R^3) and compared term by term up to the order of the series.
    No series branch: nothing to decide.  Expressions outside the translated fragment: no verdict."""
    fn = index.cls("Sphere").lookup("compute_form_factor_amplitude")
    wheres = [n for n in ast.walk(fn.node) if isinstance(n, ast.Call) and ast.unparse(n.func).split(".")[-1] == "where" and len(n.args) == 3]
    if not wheres:
        return
    try:
        import sympy as sp
    except Exception:
        res.not_in_fragment.append("FF-6: sympy not available")
        return
    from ..astutil import single_assignments
    env = single_assignments(fn.node)
    q, R = sp.symbols("q R", positive=True)

    class Out(Exception):
        pass

    def tr(n, depth=0):
        if depth > 14:
            raise Out()
        if isinstance(n, ast.Constant) and isinstance(n.value, (int, float)) and not isinstance(n.value, bool):
            return sp.nsimplify(n.value)
        if isinstance(n, ast.Name):
            if n.id in env:
                return tr(env[n.id], depth + 1)
            raise Out()
        if isinstance(n, ast.Attribute):
            t_ = ast.unparse(n)
            if t_ in ("self.radius", "self._radius"):
                return R
            if t_ == "self.volume":
                return sp.Rational(4, 3) * sp.pi * R ** 3
            if t_ in ("np.pi", "numpy.pi"):
                return sp.pi
            raise Out()
        if isinstance(n, ast.Subscript):
            return tr(n.value, depth + 1)                 # a mask selects entries, the formula per entry is the same
        if isinstance(n, ast.UnaryOp) and isinstance(n.op, ast.USub):
            return -tr(n.operand, depth + 1)
        if isinstance(n, ast.BinOp):
            l_, r_ = tr(n.left, depth + 1), tr(n.right, depth + 1)
            return {ast.Add: lambda: l_ + r_, ast.Sub: lambda: l_ - r_, ast.Mult: lambda: l_ * r_, ast.Div: lambda: l_ / r_,
                    ast.Pow: lambda: l_ ** r_}.get(type(n.op), lambda: (_ for _ in ()).throw(Out()))()
        if isinstance(n, ast.Call):
            f = ast.unparse(n.func).split(".")[-1]
            if f == "sum" and n.args and "q * q" in ast.unparse(n.args[0]).replace("  ", " "):
                return q ** 2                               # q_sqs = np.sum(q * q, axis=-1)
            args = [tr(x, depth + 1) for x in n.args]
            if f == "sinc" and len(args) == 1:
                return sp.sin(sp.pi * args[0]) / (sp.pi * args[0])
            one = {"sin": sp.sin, "cos": sp.cos, "sqrt": sp.sqrt, "exp": sp.exp}
            if f in one and len(args) == 1:
                return one[f](args[0])
            raise Out()
        raise Out()
    for w in wheres:
        cond, a_, b_ = w.args
        k = "Sphere.compute_form_factor_amplitude:series-branch"
        try:
            ea, eb = tr(a_), tr(b_)
        except Out:
            res.not_in_fragment.append("FF-6: a branch of np.where is outside the translated fragment")
            continue
        except Exception:
            res.not_in_fragment.append("FF-6: translation failed")
            continue
        # which one is the polynomial (series) in q?
        try:
            pa, pb = sp.Poly(sp.expand(ea), q) if sp.expand(ea).is_polynomial(q) else None, sp.Poly(sp.expand(eb), q) if sp.expand(eb).is_polynomial(q) else None
        except Exception:
            pa = pb = None
        if (pa is None) == (pb is None):
            res.not_in_fragment.append("FF-6: no polynomial / closed-form pair recognised in np.where")
            continue
        series, closed = (ea, eb) if pa is not None else (eb, ea)
        deg = (pa or pb).degree()
        try:
            tay = sp.series(closed, q, 0, deg + 1).removeO()
            diff = sp.simplify(sp.expand(tay - series))
        except Exception:
            res.not_in_fragment.append("FF-6: Taylor expansion failed")
            continue
        if diff == 0:
            res.ok("FF-6", k, sample={"series": str(sp.expand(series))[:120], "order": int(deg)})
        else:
            res.bad("FF-6", k, f"{fn.file}:{w.lineno}", f"Sphere.compute_form_factor_amplitude switches to the series `{str(sp.expand(series))[:90]}` for small |q| R, "
                    f"but the closed form it replaces expands to `{str(sp.expand(tay))[:90]}`: the amplitude jumps at the threshold and is wrong below it "
                    f"(difference {str(diff)[:60]})")
