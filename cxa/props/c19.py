"""C19 - GSD, repr, HOOMD and JSON representations round-trip the shape."""

from __future__ import annotations

import ast
import re

from ..algebra import Poly
from ..components import InplaceLog, Moved
from ..entries import derive_scratch
from ..index import AnalysisError, FuncInfo
from ..interp import Interp
from ..model import ATTR
from ..report import Result
from ..values import ANY, D0, TOP, Val, dim_collapse, vconst

EXPLANATION = (
    "Sibling agreement without running coxeter. GSD-1: for each class the dict display of gsd_shape_spec (type string, "
    "key set, symbolic values) is fed to from_gsd_type_shapes (branches folded on the constant keys, dimensions 2/3 by "
    "base class): the branch taken constructs the same class (convex-then-general fallback for 'Polygon'), reads "
    "exactly the written keys, and every scalar/array constructor argument flows from the matching attribute with the "
    "inverse encoding (closed-form normal form: 2r <-> d/2); missing or unknown type raises ValueError on all paths. "
    "REPR-1/2: each __repr__ template is coxeter.shapes.<C>(kw=...) with C the class or its general-polytope base, "
    "keywords within the constructor's parameters and covering the required ones, each value reading the attribute the "
    "constructor stores that parameter in, and literal-safe for eval (scalars or .tolist() results). JSON-1: to_json "
    "returns exactly {a: getattr(self, a)} for the requested names. HOOMD-1: every to_hoomd follows saved centroid -> "
    "moved to the origin -> attributes collected while moved -> restored on every normal exit; HOOMD-2: nothing in the "
    "returned mapping aliases a by-reference attribute that is written in place after it was captured; HOOMD-3: the "
    "produced key set equals the bullet list of the docstring."
)

SCALAR_ATTRS = ("_radius", "_a", "_b", "_c")
GENERAL_BASE = {"ConvexPolygon": "Polygon", "ConvexPolyhedron": "Polyhedron"}


def run(index, tier="quick", seed=0) -> Result:
    res = Result("C19", EXPLANATION)
    scratch, _, _ = derive_scratch(index)
    _gsd(res, index)
    _repr(res, index)
    _json(res, index)
    _hoomd(res, index, scratch)
    n = res.extra
    if n.get("gsd_writers", 0) < 10 or n.get("repr_templates", 0) < 10:
        raise AnalysisError(f"GSD writers {n.get('gsd_writers')} / repr templates {n.get('repr_templates')} examined; 10 each confirmed")
    return res


# --------------------------------------------------------------------------------------------- GSD
def _gsd(res, index):
    getters = index.module("coxeter.shape_getters")
    reader = getters.functions.get("from_gsd_type_shapes")
    if reader is None:
        raise AnalysisError("anchor vanished: from_gsd_type_shapes")
    for cls in index.shape_classes():
        p = index.effective_prop(cls, "gsd_shape_spec")
        label = f"{cls.name}.gsd_shape_spec"
        res.extra["gsd_writers"] = res.extra.get("gsd_writers", 0) + 1
        it = Interp(index)
        r = it.run_entry(p.getter, cls)
        spec = r["result"]
        if spec is None or spec.mapping is None or "type" not in spec.mapping or not spec.mapping["type"].has_const():
            res.bad("GSD-1", label + ":display", f"{p.getter.file}:{p.getter.lineno}",
                    f"{label} is not a dict display with a constant 'type' (cannot be matched with the reader)")
            continue
        written = set(spec.mapping)
        params = spec.copy(tags=spec.tags | {"closed", "gsd-params"})
        dims = 2 if cls.is_subclass_of("Shape2D") else 3
        it2 = Interp(index, config={"fold_branches": True})
        r2 = it2.run_entry(reader, None, args={"params": params, "dimensions": vconst(dims)})
        res.evaluations += it2.stats["stmts"]
        from ..values import alt_objs
        built = []
        for (v, s_, n_) in r2["returns"]:
            for o_ in sorted(alt_objs(v), key=lambda o: o.oid):
                built.append(v if v.obj == o_ else Val(kind="obj", obj=o_, dim=v.dim))
        names = [v.obj.cls.name for v in built]
        where = f"{p.getter.file}:{p.getter.lineno}"
        if not built:
            res.bad("GSD-1", label + ":noclass", where, f"from_gsd_type_shapes({label}) constructs no shape "
                    f"(raises: {sorted({x[0] for x in r2['raises']})})")
            continue
        ok_cls = cls.name in names or (cls.name in GENERAL_BASE and False)
        # convex-then-general fallback: the reader may try the convex class first
        if not ok_cls:
            res.bad("GSD-1", label + ":class", where, f"type {spec.mapping['type'].const!r} with keys {sorted(written)} makes the "
                    f"reader build {names}, not {cls.name}")
            continue
        extra = [n for n in names if n != cls.name]
        for n in extra:
            other = index.cls(n)
            if not (other.is_subclass_of(cls.name) or cls.is_subclass_of(n)):
                res.bad("GSD-1", label + ":class:" + n, where, f"reader may also build unrelated class {n}")
        # keys read
        read = {e.key for e in r2["events"] if e.type in ("key-read", "key-test") and e.key in written}
        read |= {"type"}
        missing = [e for e in r2["events"] if e.type == "key-missing"]
        if missing:
            res.bad("GSD-1", label + ":missingkey:" + str(missing[0].key), missing[0].where(),
                    f"reader needs key {missing[0].key!r} that {label} does not write")
        unread = written - read
        if unread:
            res.bad("GSD-1", label + ":unread:" + ",".join(sorted(unread)), where,
                    f"{label} writes {sorted(unread)} but the reader branch for {cls.name} never reads it")
        # value flow into the constructed object of the same class
        target = [v for v in built if v.obj.cls.name == cls.name][0]
        oid = target.obj.oid
        flow_bad = False
        finals = [s.comp.get("__symstore", {}) for (v, s, n) in r2["returns"] if any(o_.oid == oid for o_ in alt_objs(v))]
        for attr in SCALAR_ATTRS:
            vals = [f.get((oid, attr)) for f in finals if (oid, attr) in f]
            if not vals:
                continue
            want = Poly.atom(f"self.{attr}")
            if any(v is None for v in vals):
                res.not_in_fragment.append(f"GSD-1 {label}: {attr} outside the normal form")
            elif any(v != want for v in vals):
                flow_bad = True
                res.bad("GSD-1", label + ":value:" + attr, where, f"round trip sets {attr} to {vals[0]}, not to the original {want} "
                        f"(writer/reader encodings are not inverse, or keys are crossed)")
        for e in r2["events"]:
            if e.type == "write" and e.loc[0].startswith(oid) and e.loc[1] in ("_vertices", "_faces") and e.mode == "rebind":
                src = {a for (o, a) in (e.rhs.deps if e.rhs is not None else ()) if o.startswith("self")}
                if src and e.loc[1] not in src and "_simplices" not in src and not (e.loc[1] == "_faces" and "_vertices" in src):
                    # only the first definition from the parameter counts
                    pass
        # the vertices/faces parameters of the constructor come from the matching keys
        ctor = target.extra if (target.extra and target.extra[0] == "ctor") else None
        if ctor:
            init = cls.lookup("__init__")
            pnames = init.params[1:] if isinstance(init, FuncInfo) else []
            for pname, arg in list(zip(pnames, ctor[1])) + list(ctor[2].items()):
                if pname in ("vertices", "faces"):
                    src = {a for (o, a) in arg.deps if o.startswith("self")}
                    want = "_" + pname
                    if want not in src:
                        flow_bad = True
                        res.bad("GSD-1", label + ":arg:" + pname, where, f"constructor argument `{pname}` flows from {sorted(src)}, not from {want}")
                elif isinstance(init, FuncInfo):
                    # any other constructor argument either comes from the spec or is the parameter's default: a constant that is
                    # neither replaces a piece of the original's state (its normal, a tolerance) by a fixed value
                    isconst = (arg.has_const() and arg.const is not None) or (
                        arg.kind in ("tuple", "list") and arg.items is not None and arg.items and all(i_.has_const() for i_ in arg.items))
                    fromspec = any(o.startswith("self") for (o, a) in arg.deps) or bool(arg.pdeps)
                    if isconst and not fromspec:
                        a_ = init.node.args
                        pos = a_.posonlyargs + a_.args
                        dflt = {}
                        for pa, dv in zip(pos[len(pos) - len(a_.defaults):], a_.defaults):
                            dflt[pa.arg] = dv
                        for pa, dv in zip(a_.kwonlyargs, a_.kw_defaults):
                            if dv is not None:
                                dflt[pa.arg] = dv
                        try:
                            dval = ast.literal_eval(dflt[pname]) if pname in dflt else "<none>"
                        except Exception:
                            dval = "<expr>"
                        cval = arg.const if arg.has_const() else tuple(i_.const for i_ in arg.items)
                        same = (dval == cval) or (isinstance(dval, (list, tuple)) and isinstance(cval, (list, tuple)) and list(dval) == list(cval))
                        if not same and dval != "<expr>":
                            flow_bad = True
                            res.bad("GSD-1", label + ":constarg:" + pname, where, f"the reader builds {cls.name} with `{pname}` = {cval!r}, a constant that is "
                                    f"neither read from the spec nor the constructor's default ({dval!r}): the rebuilt shape has that {pname} whatever the original's was")
        if not (missing or unread or flow_bad):
            res.ok("GSD-1", label, sample={"class": cls.name, "type": spec.mapping["type"].const, "keys": sorted(written),
                                           "reader_builds": names})
    # malformed specs
    for name, mapping in (("missing-type", {}), ("unknown-type", {"type": vconst("NoSuchShape")})):
        params = Val(kind="dict", mapping=mapping, dim=D0, tags=frozenset(["closed"]))
        for dims in (2, 3):
            it = Interp(index, config={"fold_branches": True})
            r = it.run_entry(reader, None, args={"params": params, "dimensions": vconst(dims)})
            k = f"from_gsd_type_shapes:{name}:{dims}"
            excs = {x[0] for x in r["raises"]}
            if r["returns"]:
                res.bad("GSD-2", k, f"{reader.file}:{reader.lineno}", f"spec with {name} can return normally instead of raising ValueError")
            elif excs != {"ValueError"}:
                res.bad("GSD-2", k, f"{reader.file}:{reader.lineno}", f"spec with {name} raises {sorted(excs)}, not ValueError")
            else:
                res.ok("GSD-2", k)


# --------------------------------------------------------------------------------------------- repr
def _repr(res, index):
    for cls in index.shape_classes():
        fn = cls.lookup("__repr__")
        label = f"{cls.name}.__repr__"
        res.extra["repr_templates"] = res.extra.get("repr_templates", 0) + 1
        if not isinstance(fn, FuncInfo):
            res.bad("REPR-1", label + ":missing", f"{cls.module.relpath}:{cls.node.lineno}", f"{cls.name} has no __repr__")
            continue
        where = f"{fn.file}:{fn.lineno}"
        from ..astutil import returns as _returns
        rets = _returns(fn.node)          # returned expressions, looked through single-assignment temporaries
        if len(rets) > 1:
            # several templates, chosen by a test on the state: each one alone must rebuild the shape.  Decided here: a template
            # that leaves out an optional constructor argument the constructor stores as geometric state (REPR-3), while another
            # template of the same __repr__ prints it
            tmpl = []
            for (_rn, rexpr) in rets:
                ps_ = _fstring_parts(rexpr)
                if ps_ is None:
                    tmpl = None
                    break
                t_ = "".join(p_ if isinstance(p_, str) else "\x00" for p_ in ps_)
                m_ = re.fullmatch(r"coxeter\.shapes\.(\w+)\((.*)\)", t_, re.S)
                if not m_ or m_.group(1) not in index.classes:
                    tmpl = None
                    break
                tmpl.append((m_.group(1), set(re.findall(r"(\w+)=\x00", m_.group(2))), _rn))
            if tmpl and len({c_ for (c_, _k, _n) in tmpl}) == 1:
                pc_ = index.cls(tmpl[0][0])
                init_ = pc_.lookup("__init__")
                a_ = init_.node.args
                pn_ = [x.arg for x in a_.args][1:]
                optional_ = pn_[len(pn_) - len(a_.defaults):]
                stored_ = _ctor_storage(index, pc_, assume_defaults=False)
                allk = set().union(*[k_ for (_c, k_, _n) in tmpl])
                hit = False
                for (_c, k_, rn_) in tmpl:
                    for p_ in optional_:
                        attrs_ = {x_ for x_ in stored_.get(p_, set()) if ATTR.get(x_, (None, None))[1] in ("arr", "float")}
                        if attrs_ and p_ in allk and p_ not in k_:
                            hit = True
                            res.bad("REPR-3", f"{label}:omits:{p_}:on-some-path", f"{fn.file}:{getattr(rn_, 'lineno', fn.lineno)}", f"{label} has a template that does not "
                                    f"print `{p_}=` although {tmpl[0][0]}() stores it in {sorted(attrs_)}: on that path eval(repr(shape)) rebuilds the shape with the "
                                    f"constructor's own {p_} (for a polygon: the normal of the first corner - the opposite one for clockwise vertices)")
                if hit:
                    continue
            raise AnalysisError(f"REPR {label}: not a single return (outside the decided fragment)")
        if len(rets) != 1:
            raise AnalysisError(f"REPR {label}: not a single return (outside the decided fragment)")
        parts = _fstring_parts(rets[0][1])
        if parts is None:
            raise AnalysisError(f"REPR {label}: the returned value is not an f-string template (outside the decided fragment)")
        template = "".join(p if isinstance(p, str) else "\x00" for p in parts)
        m = re.fullmatch(r"coxeter\.shapes\.(\w+)\((.*)\)", template, re.S)
        if not m:
            res.bad("REPR-1", label + ":template", where, f"{label} is not of the form coxeter.shapes.<Class>(kw=...): {template!r}")
            continue
        printed = m.group(1)
        body = m.group(2)
        kws = re.findall(r"(\w+)=\x00", body)
        holes = [p for p in parts if not isinstance(p, str)]
        if len(kws) != len(holes) or re.sub(r"(\w+)=\x00", "", body).strip(", ") != "":
            res.bad("REPR-1", label + ":template", where, f"{label}: arguments are not all of the form kw={{value}}: {body!r}")
            continue
        if printed not in index.classes:
            res.bad("REPR-1", label + ":class", where, f"{label} prints unknown class {printed}")
            continue
        pc = index.cls(printed)
        if not (printed == cls.name or (cls.is_subclass_of(printed) and GENERAL_BASE.get(cls.name) == printed)):
            res.bad("REPR-1", label + ":class", where, f"{label} prints {printed}, which is neither {cls.name} nor its general-polytope base")
            continue
        init = pc.lookup("__init__")
        a = init.node.args
        pnames = [x.arg for x in a.args][1:]
        required = pnames[: len(pnames) - len(a.defaults)]
        if not set(kws) <= set(pnames):
            res.bad("REPR-1", label + ":kw", where, f"{label} prints keywords {sorted(set(kws) - set(pnames))} that {printed}() does not accept")
            continue
        if not set(required) <= set(kws):
            res.bad("REPR-1", label + ":required", where, f"{label} omits required arguments {sorted(set(required) - set(kws))} of {printed}()")
            continue
        # which attribute does the constructor store each parameter in
        stored = _ctor_storage(index, pc)
        it = Interp(index)
        r = it.run_entry(fn, cls)
        fvals = None
        for e in r["returns"]:
            v = e[0]
            if v.extra and v.extra[0] == "fstring":
                fvals = v.extra[1]
        bad = False
        if fvals is None or len(fvals) != len(kws):
            res.not_in_fragment.append(f"REPR {label}: formatted values not recovered")
            continue
        for kw, v in zip(kws, fvals):
            src = {a_ for (o, a_) in v.deps if o.startswith("self")}
            want = stored.get(kw, set())
            if want and not (src & want):
                bad = True
                res.bad("REPR-1", label + ":value:" + kw, where, f"{label}: `{kw}=` prints data from {sorted(src)} but {printed}() stores `{kw}` in {sorted(want)}")
            part = sorted(d_[1] for d_ in v.deps if d_[0] == "subset" and d_[1] in want)
            if part:
                bad = True
                res.bad("REPR-4", label + ":partial:" + kw, where, f"{label}: on some path `{kw}=` prints only part of {part[0]} (a row / column selection): "
                        f"eval(repr(shape)) rebuilds the shape from incomplete data whenever that path is taken although the omitted part is not "
                        "what the constructor would fill in")
            safe = v.kind in ("float", "int") or "tolist" in v.tags or (v.elem is not None and "tolist" in v.elem.tags)
            if not safe:
                bad = True
                res.bad("REPR-2", label + ":" + kw, where, f"{label}: `{kw}=` formats a {v.kind} value that is not literal-safe for eval "
                        f"(lists of ndarrays print as array(...)); use .tolist()")
        # REPR-3 an optional parameter the constructor stores is state: omitting it makes eval(repr) re-derive it from the default
        stored_any = _ctor_storage(index, pc, assume_defaults=False)
        optional = pnames[len(pnames) - len(a.defaults):]
        for p_ in optional:
            # geometric state only (arrays / lengths of the attribute model); flags such as faces_are_convex are hints
            attrs = {a_ for a_ in stored_any.get(p_, set()) if ATTR.get(a_, (None, None))[1] in ("arr", "float")}
            if attrs and p_ not in kws:
                bad = True
                res.bad("REPR-3", f"{label}:omits:{p_}", where, f"{label} does not print `{p_}=` although {printed}() stores it in {sorted(attrs)}: "
                        f"eval(repr(shape)) rebuilds the shape with the default {p_} (e.g. the opposite normal for clockwise vertices)")
        if not bad:
            res.ok("REPR-1", label, sample={"class": cls.name, "prints": printed, "keywords": kws})


def _fstring_parts(node):
    if isinstance(node, ast.JoinedStr):
        out = []
        for v in node.values:
            if isinstance(v, ast.Constant):
                out.append(v.value)
            else:
                out.append(v)
        return out
    if isinstance(node, ast.Constant) and isinstance(node.value, str):
        return [node.value]
    if isinstance(node, ast.BinOp) and isinstance(node.op, ast.Add):
        l, r = _fstring_parts(node.left), _fstring_parts(node.right)
        if l is None or r is None:
            return None
        return l + r
    return None


def _ctor_storage(index, cls, assume_defaults=True):
    init = cls.lookup("__init__")
    it = Interp(index, config={"assume_defaults": assume_defaults})
    r = it.run_entry(init, cls)
    stored = {}
    for e in r["events"]:
        if e.type == "write" and e.rhs is not None:
            for p in e.rhs.pdeps:
                stored.setdefault(p, set()).add(e.loc[1])
    return stored


# --------------------------------------------------------------------------------------------- json
def _json(res, index):
    shape = index.cls("Shape")
    fn = shape.lookup("to_json")
    if not isinstance(fn, FuncInfo):
        raise AnalysisError("anchor vanished: Shape.to_json")
    overriding = [c.name for c in index.shape_classes() if c.lookup("to_json") is not fn]
    if overriding:
        res.notes.append(f"to_json overridden in {overriding}")
    it = Interp(index)
    r = it.run_entry(fn, index.cls("Sphere"))
    dyn = [e for e in r["events"] if e.type == "getattr-dynamic"]
    v = r["result"]
    where = f"{fn.file}:{fn.lineno}"
    ok = True
    if v is None or v.kind != "dict":
        ok = False
        res.bad("JSON-1", "Shape.to_json:result", where, "to_json does not return the dict it builds")
    elif v.mapping:
        ok = False
        res.bad("JSON-1", "Shape.to_json:extra-keys", where, f"to_json adds fixed keys {sorted(v.mapping)} besides the requested attributes")
    if not dyn:
        ok = False
        res.bad("JSON-1", "Shape.to_json:getattr", where, "to_json does not read the requested attributes with getattr(self, name)")
    else:
        for e in dyn:
            if not (e.name.pdeps and "attributes" in e.name.pdeps):
                ok = False
                res.bad("JSON-1", "Shape.to_json:name", e.where(), "getattr name does not come from the `attributes` argument")
    writes = [e for e in r["events"] if e.type == "write" and e.loc[0].startswith("self")]
    if writes:
        ok = False
        res.bad("JSON-1", "Shape.to_json:effect", writes[0].where(), "to_json writes shape state")
    # key = requested name, value = that attribute
    for n in ast.walk(fn.node):
        if isinstance(n, ast.Dict) and len(n.keys) == 1 and isinstance(n.values[0], ast.Call):
            call = n.values[0]
            if isinstance(call.func, ast.Name) and call.func.id == "getattr" and len(call.args) >= 2:
                if ast.dump(n.keys[0]) != ast.dump(call.args[1]):
                    ok = False
                    res.bad("JSON-1", "Shape.to_json:key", f"{fn.file}:{n.lineno}", "dict key and getattr name differ")
                if len(call.args) > 2:
                    ok = False
                    res.bad("JSON-1", "Shape.to_json:default", f"{fn.file}:{n.lineno}", "getattr with a default hides AttributeError for unknown names")
    if ok:
        res.ok("JSON-1", "Shape.to_json", sample={"getattr_sites": len(dyn)})


# --------------------------------------------------------------------------------------------- hoomd
def _doc_keys(fn):
    doc = ast.get_docstring(fn.node) or ""
    return set(re.findall(r"^\s*\*\s+(\w+)\s*\(", doc, re.M))


def _hoomd(res, index, scratch):
    seen_fns = 0
    for cls in index.shape_classes():
        fn = cls.lookup("to_hoomd")
        if not isinstance(fn, FuncInfo):
            continue
        seen_fns += 1
        label = f"{cls.name}.to_hoomd"
        where = f"{fn.file}:{fn.lineno}"
        mv = Moved(scratch, {"_vertices", "_faces", "_equations", "_centroid", "_normal", "_simplices", "_neighbors"})
        il = InplaceLog()
        it = Interp(index, [mv, il])
        r = it.run_entry(fn, cls)
        res.evaluations += it.stats["stmts"]
        kinds = [c[1] for c in mv.protocol_calls]
        bad = False
        # HOOMD-1 protocol
        if "move" not in kinds:
            bad = True
            res.bad("HOOMD-1", label + ":nomove", where, f"{label} never moves the centroid to the origin (protocol: {kinds or 'none'}): "
                    f"the exported vertices are not those of the centered shape")
        else:
            if mv.unbalanced:
                bad = True
                res.bad("HOOMD-1", label + ":norestore", where, f"{label} can return with the shape still moved to the origin")
            if any(not moved for (_n, moved) in mv.collected) or not mv.collected:
                bad = True
                res.bad("HOOMD-1", label + ":collect", where, f"{label} collects its attributes while the shape is not centered")
            for node, arg in mv.move_args:
                if arg is not None and dim_collapse(arg.dim) != ANY:
                    bad = True
                    res.bad("HOOMD-1", label + ":origin", f"{fn.file}:{getattr(node, 'lineno', 0)}", f"{label} moves the centroid to a point that is not the literal origin")
            if mv.effects:
                bad = True
                ev = mv.effects[0][0]
                res.bad("HOOMD-1", label + ":effect", ev.where(), f"{label} writes state outside the move/restore protocol: {mv.effects[0][1]}")
        if not bad:
            res.ok("HOOMD-1", label, sample={"class": cls.name, "protocol": kinds})
        # HOOMD-2 escape-then-mutate
        if "move" in kinds:
            hit = None
            for (val, st, n) in r["returns"]:
                log = st.comp[il.name]
                for (loc, born) in val.all_alias_births():
                    for (l2, t, w) in log:
                        if l2 == loc and t > born:
                            hit = (loc, w)
            if hit:
                res.bad("HOOMD-2", label + ":" + hit[0][1], where, f"{label} returns an alias of {hit[0][0]}.{hit[0][1]} that is written in place "
                        f"afterwards (at {hit[1]}): the exported array is un-centered again by the restore")
            else:
                res.ok("HOOMD-2", label)
        # HOOMD-4 one frame: the exported vertices are the shape's own coordinates (a slice / copy), not a transformed set
        v = r["result"]
        if v is not None and v.mapping is not None and "vertices" in v.mapping:
            vv = v.mapping["vertices"]
            other = sorted({a_ for (o, a_) in vv.deps if o != "call" and a_ != "_vertices"})
            if other:
                res.bad("HOOMD-4", f"{label}:vertices:{','.join(other)}", where, f"{label} exports vertices computed from {other} as well: they are expressed in another "
                        "frame than the inertia tensor and centroid of the same dict (e.g. mirrored for a clockwise polygon)")
            else:
                res.ok("HOOMD-4", label, nontrivial=False)
        # HOOMD-3 keys vs docstring
        v = r["result"]
        doc = _doc_keys(fn)
        if v is None or v.mapping is None:
            res.not_in_fragment.append(f"HOOMD-3 {label}: returned mapping has non-constant keys")
        elif not doc:
            res.not_in_fragment.append(f"HOOMD-3 {label}: no bullet list in the docstring")
        elif set(v.mapping) != doc:
            res.bad("HOOMD-3", label, where, f"{label} returns keys {sorted(v.mapping)} but documents {sorted(doc)}")
        else:
            res.ok("HOOMD-3", label, sample={"class": cls.name, "keys": sorted(doc)})
    if seen_fns < 7:
        raise AnalysisError(f"only {seen_fns} classes with to_hoomd (7 confirmed)")
