"""C03 - mutable shapes stay coherent under any history of mutations.

Decides the inductive invariant "every derived cache agrees with the primary state" per
(concrete class x public mutator), plus constructors (COH-0) and proper rotations (ROT-1).
"""

from __future__ import annotations

import ast

from ..components import CACHE_PARTS, DirtyCache
from ..entries import mutators, refresh_functions, tracked_objects
from ..index import AnalysisError, FuncInfo
from ..interp import Interp
from ..model import VERTEX_BASED
from ..report import Result

EXPLANATION = (
    "Forward gen/kill dataflow (structured walk, calls on self/composites inlined through the MRO of the concrete class) "
    "over every public mutator of every vertex-based class, entry state = all caches coherent: COH-1 normal exit with a "
    "cache that lags behind the primary state; COH-2 read of a lagging cache inside the mutator (own covariant update "
    "excepted); COH-3 a covariant in-place update uses the power of the scale factor equal to the cache's degree "
    "(closed-form normal form of the factor); COH-4 cached_property `edges` counts as a cache (invalidations: del / "
    "__dict__.pop); COH-0 every constructor establishes the invariant (no cache read before written, all written at "
    "exit); ROT-1 an eigh/eig eigenvector matrix reaching a linear map of the vertices must pass a determinant "
    "normalisation. Preservation by every mutator => coherence after every history (unbounded depth). "
    "Refresh functions are derived (private methods that must-rebind a cache, not from itself) and trusted to compute "
    "the right value from clean inputs; the cache dependency/invariance table is cxa.components.cache_effect."
)


def analyse_entry(index, cls, fn, ctor=False):
    probe = Interp(index)
    tracked = tracked_objects(index, cls, probe)
    refresh = {}
    classes = {"self": cls}
    for oid in tracked:
        c = cls if oid == "self" else probe.composite_of(cls, oid.split(".", 1)[1])
        classes[oid] = c
        if c is not None:
            refresh.update(refresh_functions_cached(index, c))
    dc = DirtyCache(classes, refresh, ctor=ctor, tracked_attrs=tracked)
    it = Interp(index, [dc])
    r = it.run_entry(fn, cls)
    return dc, it, r


_RF = {}


def refresh_functions_cached(index, cls):
    store = index.__dict__.setdefault("_refresh_functions", {})    # on the Index itself: an id() key is reused after gc
    if cls.name not in store:
        store[cls.name] = refresh_functions(index, cls)
    return store[cls.name]


def run(index, tier="quick", seed=0) -> Result:
    res = Result("C03", EXPLANATION)
    res.trusted_base.append("cache dependency / invariance table cxa.components.cache_effect (DESIGN.md C03)")
    pairs = 0
    rot_sites = 0
    for cls in index.shape_classes():
        if cls.name not in VERTEX_BASED:
            continue
        entries = [(n, f, k) for n, f, k in mutators(index, cls)]
        hoomd = cls.lookup("to_hoomd")
        if isinstance(hoomd, FuncInfo):
            entries.append(("to_hoomd", hoomd, "method"))
        # constructors
        init = cls.lookup("__init__")
        if isinstance(init, FuncInfo):
            dc, it, r = analyse_entry(index, cls, init, ctor=True)
            res.evaluations += it.stats["stmts"]
            res.unmodelled |= it.unmodelled
            _collect(res, cls, "__init__", init, dc, it, r, rule_exit="COH-0", rule_read="COH-0")
        for name, fn, kind in entries:
            dc, it, r = analyse_entry(index, cls, fn)
            pairs += 1
            res.evaluations += it.stats["stmts"]
            res.unmodelled |= it.unmodelled
            rot_sites += len([s for s in dc.rot_sites if s[1] == "eigvecs"])
            label = name + (".setter" if kind == "setter" else "")
            _collect(res, cls, label, fn, dc, it, r)
    # COH-5: a cache of an outer shape that reads the state of a core it hands out by reference (polygon / polyhedron
    # properties) cannot be kept coherent: the caller can mutate the core directly
    from ..interp import Interp as _I
    for cls in index.shape_classes():
        comps = {}
        probe = _I(index)
        for c in cls.mro:
            for (cn, attr), comp in probe.composites.items():
                if cn == c.name:
                    comps[attr] = comp
        if not comps:
            continue
        exposed = set()
        for name, m in cls.public_members().items():
            p = index.effective_prop(cls, name)
            if p is not None and p.getter is not None and not p.cached:
                it = _I(index)
                r = it.run_entry(p.getter, cls)
                v = r["result"]
                if v is not None and v.obj is not None and v.obj.oid.startswith("self."):
                    exposed.add(v.obj.oid.split(".", 1)[1])
        for c in cls.mro:
            for name, p in c.props.items():
                if not p.cached:
                    continue
                it = _I(index)
                r = it.run_entry(p.getter, cls)
                inner = {e.loc for e in r["events"] if e.type == "read" and e.loc[0].startswith("self.") and e.loc[0].split(".", 1)[1] in exposed}
                k = f"{cls.name}.{name}"
                if inner:
                    res.bad("COH-5", k, f"{p.getter.file}:{p.getter.lineno}", f"{k} caches a value computed from the state of the core "
                            f"({sorted(a for _o, a in inner)[:4]}) that `{cls.name}.{sorted(exposed)[0].lstrip('_')}` hands out by reference: mutating the core "
                            f"through that handle leaves the cache stale")
                else:
                    res.ok("COH-5", k)
    # CMB-1: facets are regrouped only from the hull's own (bit-identical) simplex equations
    from ..components import HullProvenance
    ncmb = 0
    for cls in index.shape_classes():
        if not cls.is_subclass_of("ConvexPolyhedron"):
            continue
        ents = [(n_, f_) for n_, f_, _k in mutators(index, cls)]
        init_ = cls.lookup("__init__")
        if isinstance(init_, FuncInfo):
            ents.append(("__init__", init_))
        for n_, f_ in ents:
            hp = HullProvenance()
            Interp(index, [hp]).run_entry(f_, cls)
            k_ = f"{cls.name}.{n_}"
            if hp.violations:
                e_ = hp.violations[0]
                res.bad("CMB-1", k_ + ":regroup-recomputed", e_.where(), f"{k_} calls _combine_simplices after the simplex equations were recomputed from the "
                        f"vertices (path {' -> '.join(e_.path)}): the ulp-level grouping tolerance is sound only for the equations qhull returned; "
                        "recomputed equations of coplanar triangles differ by rounding, so facets split (wrong faces, face areas, face centroids)")
            else:
                ncmb += 1
    res.ok("CMB-1", "facets regrouped only from hull equations", sample={"entries_examined": ncmb})
    # COH-6: copies of a shape inherit its lazily filled caches; state written on the copy must reset them before they are read
    from ..components import CopyCache, EXTRA_CACHE_READS
    from ..index import PropInfo
    ncopy = 0
    for cls in index.shape_classes():
        if cls.name not in VERTEX_BASED:
            continue
        for name, m in sorted(cls.public_members().items()):
            fns = []
            if isinstance(m, PropInfo):
                p_ = index.effective_prop(cls, name)
                fns = [f for f in ((p_.getter, p_.setter) if p_ else ()) if f is not None]
            elif isinstance(m, FuncInfo):
                fns = [m]
            for f in fns:
                if "copy(" not in ast.unparse(f.node):
                    continue
                cc = CopyCache()
                r_ = Interp(index, [cc]).run_entry(f, cls)
                ncopy += 1
                k_ = f"{cls.name}.{name}"
                if cc.violations:
                    evr, cache, attr, evw = cc.violations[0]
                    res.bad("COH-6", f"{k_}:copy:{cache}<-{attr}", evr.where(), f"{k_} copies the shape, writes {attr} of the copy (`{evw.src()[:50]}`) and then "
                            f"reads the copy's cached {cache}, which was filled from the geometry of the original and is never reset on the copy "
                            f"(path {' -> '.join(evr.path)}): the result depends on which queries ran before")
                elif EXTRA_CACHE_READS:
                    res.ok("COH-6", k_)
    if not any(f_.rule == "COH-6" for f_ in res.findings):
        res.ok("COH-6", "no copy of a shape carries a lazily filled cache past a write of the state it was computed from", nontrivial=False,
               sample={"members_with_copies_examined": ncopy, "lazy_caches": sorted(EXTRA_CACHE_READS)})
    # MEMO-1: results memoised on the identity of a mutable shape go stale after any mutation
    for cls in index.shape_classes():
        for c in cls.mro:
            if c is not cls:
                continue
            for f in list(c.methods.values()) + [p.getter for p in c.props.values() if p.getter]:
                for d in f.decorators:
                    if any(x in d for x in ("lru_cache", "functools.cache", "memoize")) or d == "cache":
                        res.bad("MEMO-1", f"{c.name}.{f.name}:{d.split('(')[0]}", f"{f.file}:{f.lineno}",
                                f"{c.name}.{f.name} is memoised with @{d} on a mutable shape: the cached result lags behind every later mutation")
    res.ok("MEMO-1", "no memoising decorator on shape members", nontrivial=False)
    _composite_caches(res, index)
    res.extra["mutator_pairs"] = pairs
    res.extra["rot1_sites"] = rot_sites
    if pairs < 60:
        raise AnalysisError(f"only {pairs} (class, mutator) pairs enumerated; 69 confirmed on the pinned tree")
    if rot_sites < 2:
        raise AnalysisError("ROT-1 matched fewer than the 2 confirmed eigh sites (diagonalize_inertia x2)")
    from ..parallel import report as _copy1
    _copy1(res, index, lambda f: f['top'] in ('_rescale', 'sort_faces', 'merge_faces', 'diagonalize_inertia', '_sort_simplices', '_combine_simplices', '_consume_hull', '_find_neighbors', '_get_face_intersections', '_find_simplex_equations'))
    return res


def _collect(res, cls, label, fn, dc, it, r, rule_exit="COH-1", rule_read="COH-2"):
    writes = [e for e in r["events"] if e.type == "write" and e.loc[0].startswith("self")]
    nontrivial = bool(writes)
    bad = False
    seen = set()
    # dirty at exit
    for key, cur, node in dc.finish_entry(it, r["returns"]):
        oid, cache, part = key
        name = cache + ("." + part if part else "")
        k = f"{cls.name}.{label}:{_o(oid)}{name}"
        from ..components import EXTRA_CACHE_READS
        if k in seen:
            continue
        seen.add(k)
        bad = True
        what = f"normal exit with {_o(oid)}{name} {_status(cur)}"
        res.bad(rule_exit if (cache != "edges" and cache not in EXTRA_CACHE_READS) else ("COH-4" if rule_exit == "COH-1" else rule_exit), k,
                f"{fn.file}:{getattr(node, 'lineno', fn.lineno)}", what, cls=cls.name, member=label,
                cache=name, status=str(cur))
    # dirty reads not forgiven by an own-update
    for loc, stmt, ev, badparts in dc.provisional:
        oid, attr = loc
        k = f"{cls.name}.{label}:read:{_o(oid)}{attr}"
        if k in seen:
            continue
        seen.add(k)
        bad = True
        res.bad(rule_read, k, ev.where(),
                f"reads {_o(oid)}{attr} while it is {', '.join(_status(s) for _, s in badparts)} "
                f"(path {' -> '.join(ev.path)})", cls=cls.name, member=label, stmt=ev.src())
    for v in dc.violations:
        rule, oid, cache, part, ev, what = v
        k = f"{cls.name}.{label}:{rule}:{_o(oid)}{cache}{'.' + part if part else ''}"
        if k in seen:
            continue
        seen.add(k)
        bad = True
        res.bad(rule, k, ev.where(), what + f" (path {' -> '.join(ev.path)})", cls=cls.name, member=label, stmt=ev.src())
    for f in dc.facts:
        if f[0] == "COH-3":
            res.ok("COH-3", f"{cls.name}.{label}:{f[1][1]}{'.' + f[1][2] if f[1][2] else ''}",
                   sample={"class": cls.name, "member": label, "cache": f[1][1], "update": f[3], "at": f[2]})
        elif f[0] == "ROT-1":
            res.ok("ROT-1", f"{cls.name}.{label}", sample={"at": f[2]})
        elif f[0] == "COH-3-unknown":
            res.not_in_fragment.append(f"COH-3 {cls.name}.{label} {f[1]} at {f[2]}: factor outside the normal form")
    if not bad:
        res.ok(rule_exit, f"{cls.name}.{label}", nontrivial=nontrivial,
               sample={"class": cls.name, "member": label, "state_writes": len(writes),
                       "writes": sorted({f"{_o(e.loc[0])}{e.loc[1]}:{e.mode}" for e in writes})[:8]} if nontrivial else None)


def _o(oid):
    return "" if oid == "self" else oid[len("self."):] + "."


def _status(s):
    if isinstance(s, tuple) and s[0] == "pend":
        return f"pending its covariant scale update (factor^{s[1]}, scaled at {s[3]})"
    if s == "flip":
        return "orientation-flipped relative to the faces"
    if s == "unset":
        return "never written"
    return "stale (dirty)"


def _composite_caches(res, index):
    """COH-7: a composite shape (spheropolygon / spheropolyhedron) hands out its core by reference (`shape.polyhedron`), and the
    core is mutated through its own interface (`shape.polyhedron.centroid = ...`, `.diagonalize_inertia()`): no method of the
    composite runs then, so a value the composite caches (a lazily filled attribute, a cached_property) that was computed from
    the core's state cannot be invalidated - it is stale after the first mutation of the core."""
    from ..interp import Interp
    n = 0
    for cls in index.shape_classes():
        comp_attrs = set()
        exposed = {}
        for name, p in cls.props.items():
            if name.startswith("_") or p.getter is None:
                continue
            try:
                v = Interp(index).run_entry(p.getter, cls)["result"]
            except RecursionError:
                continue
            if v is not None and v.kind == "obj" and v.obj is not None and v.obj.cls is not None and v.obj.cls.is_subclass_of("Shape"):
                for (o_, a_) in v.al:
                    if o_ == "self":
                        comp_attrs.add(a_)
                        exposed[a_] = name
        if not comp_attrs:
            continue
        n += 1
        sites = []
        fns = list(cls.methods.values()) + [x for p in cls.props.values() for x in (p.getter, p.setter) if x]
        for f in fns:
            for nd in ast.walk(f.node):
                if isinstance(nd, ast.If) and isinstance(nd.test, ast.Compare) and len(nd.test.ops) == 1 and isinstance(nd.test.ops[0], ast.Is) \
                        and isinstance(nd.test.comparators[0], ast.Constant) and nd.test.comparators[0].value is None \
                        and isinstance(nd.test.left, ast.Attribute) and isinstance(nd.test.left.value, ast.Name) and nd.test.left.value.id == "self":
                    x = nd.test.left.attr
                    if x in comp_attrs:
                        continue
                    if any(isinstance(m_, ast.Assign) and any(isinstance(t_, ast.Attribute) and t_.attr == x for t_ in m_.targets)
                           for b_ in nd.body for m_ in ast.walk(b_)):
                        sites.append((x, f, "lazily filled attribute"))
        for name, p in cls.props.items():
            if p.cached and p.getter is not None:
                sites.append((name, p.getter, "cached_property"))
        bad = False
        for (x, f, what) in sites:
            try:
                r = Interp(index).run_entry(f, cls)
            except RecursionError:
                continue
            reads = sorted({(e.loc[0][len("self."):], e.loc[1]) for e in r["events"] if e.type == "read" and isinstance(e.loc[0], str)
                            and e.loc[0].startswith("self.") and e.loc[0][len("self."):] in comp_attrs})
            if reads:
                bad = True
                comp = reads[0][0]
                res.bad("COH-7", f"{cls.name}.{x}:core-state", f"{f.file}:{f.lineno}", f"{cls.name} keeps `{x}` ({what}, filled in {f.name}) computed from the state "
                        f"of its core ({', '.join(sorted({a for (_c, a) in reads}))[:80]}), and hands the core out by reference through `.{exposed[comp]}`: a mutation made "
                        f"through the core's own interface (`shape.{exposed[comp]}.centroid = ...`) runs no method of {cls.name}, so `{x}` cannot be invalidated and "
                        "the next query answers for the old position")
        if not bad:
            res.ok("COH-7", cls.name, sample={"composite": cls.name, "exposed_core": sorted(exposed.values()), "caching_sites": len(sites)}, nontrivial=bool(sites))
    if n < 2:
        raise AnalysisError(f"COH-7: only {n} composite shape classes found (2 confirmed: ConvexSpheropolygon, ConvexSpheropolyhedron)")
