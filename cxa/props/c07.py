"""C07 - face, normal, neighbour and edge structure of polyhedra is consistent (structural necessary conditions only).

Which facets qhull returns, how robust the angular sort is and whether the breadth-first pass reaches every face are
properties of values and are NOT decided here.  What is decided are the conventions and completeness conditions that are
visible in the shape of the code and without which the stated structure cannot hold for any input.
"""

from __future__ import annotations

import ast

from ..algebra import Poly
from ..astutil import resolve, single_assignments
from ..index import AnalysisError, FuncInfo
from ..interp import Interp
from ..report import Result

EXPLANATION = (
    "Structural necessary conditions of C07 (the values produced by qhull, the angular sort and the breadth-first pass are "
    "not decided): NRM-1 both _find_equations take the normal of a face as cross(v[k+1]-v[k], v[k-1]-v[k]) of three "
    "consecutive corners - evaluated as a polynomial identity against the counter-clockwise orientation form, so that a "
    "counter-clockwise face gets an outward normal - and store it divided by its norm; NRM-2 the stored offset is -(n . v) "
    "for a corner v of the same face; ORI-1 Polyhedron.sort_faces decides the common orientation of all faces by the "
    "sign of the signed volume (translation invariant, global), not by one face or a plain sum of offsets; CCW-1 "
    "ConvexPolyhedron.sort_faces maps the face normal onto +z before taking arctan2 angles and sorts by angle first "
    "(lexsort: last key); NBR-1 _find_neighbors records every face pair in both directions; NBR-2 "
    "_get_face_intersections ranges over all unordered pairs i < j of faces and compares edges in both directions; "
    "EDG-1 `edges` walks every face cyclically (zip(face, roll(face, +-1))) and keeps each undirected edge once by an order "
    "test on the two indices; EUL-1 ConvexPolyhedron.num_edges is V + F - 2; IDX-2 the vertex-index lookup that rewrites "
    "a face in Polyhedron.sort_faces compares coordinates exactly (a tolerance maps distinct nearby vertices to one index). "
    "That edges / neighbours / equations never lag behind the faces after sort_faces / merge_faces is decided under C03 "
    "(COH-1/2/4) and listed there."
)



def _edge_map_form(fgi, env):
    """Recognise the one-pass formulation of _get_face_intersections: a loop over the faces, an inner loop over the
    edges `(a, b)` of the face, and a dictionary looked up / filled with a key computed from `a` and `b`.

    Returns None when the function is not of that form, otherwise (verdict, line, text):
      "ok"            the key identifies the unordered pair {a, b}: (min, max) / sorted tuple / frozenset, or the
                      positional code `lo * S + hi` with S the number of vertices (hi < S, so the code is injective);
      "directed"      the key is the ordered pair: consistently oriented neighbours traverse the edge in opposite
                      directions and never meet;
      "not-injective" a positional code whose stride is not the number of vertices (hi may reach or exceed the stride,
                      two different edges then share one key).
    An unrecognised key expression raises AnalysisError (no verdict)."""
    for outer in ast.walk(fgi.node):
        if not isinstance(outer, ast.For):
            continue
        for inner in ast.walk(outer):
            if inner is outer or not isinstance(inner, ast.For):
                continue
            it = inner.iter
            if not (isinstance(it, ast.Call) and ast.unparse(it.func).endswith("_face_to_edges")):
                continue
            if not (isinstance(inner.target, ast.Tuple) and len(inner.target.elts) == 2 and all(isinstance(e, ast.Name) for e in inner.target.elts)):
                continue
            a, b = (e.id for e in inner.target.elts)
            # dictionary accesses inside the inner loop: `k in d`, `d[k]`, `d.pop(k)`, `d.get(k)`, `d.setdefault(k, ..)`
            keys = []
            for n in ast.walk(inner):
                if isinstance(n, ast.Compare) and len(n.ops) == 1 and isinstance(n.ops[0], (ast.In, ast.NotIn)):
                    keys.append(n.left)
                elif isinstance(n, ast.Subscript) and isinstance(n.value, ast.Name):
                    keys.append(n.slice)
                elif isinstance(n, ast.Call) and isinstance(n.func, ast.Attribute) and n.func.attr in ("pop", "get", "setdefault") and n.args:
                    keys.append(n.args[0])
            local = {}
            for n in ast.walk(inner):
                if isinstance(n, ast.Assign) and len(n.targets) == 1 and isinstance(n.targets[0], ast.Name):
                    local[n.targets[0].id] = n.value
            keyexprs = []
            for k in keys:
                d = 0
                while isinstance(k, ast.Name) and k.id in local and d < 4:
                    k = local[k.id]
                    d += 1
                names = {m.id for m in ast.walk(k) if isinstance(m, ast.Name)}
                if {a, b} <= names:
                    keyexprs.append(k)
            if not keyexprs:
                continue
            k = keyexprs[0]
            txt = ast.unparse(k)
            if {f"({a}, {b})", f"({b}, {a})"} <= {ast.unparse(x) for x in keyexprs}:
                return ("ok", k.lineno, "both ordered pairs are looked up")
            mn, mx = {f"min({a}, {b})", f"min({b}, {a})"}, {f"max({a}, {b})", f"max({b}, {a})"}
            if isinstance(k, ast.Tuple) and len(k.elts) == 2:
                e0, e1 = (ast.unparse(e) for e in k.elts)
                if (e0 in mn and e1 in mx) or (e0 in mx and e1 in mn):
                    return ("ok", k.lineno, txt)
                if {e0, e1} == {a, b}:
                    return ("directed", k.lineno, f"the edge dictionary is keyed by the ordered pair `{txt}`: two consistently oriented "
                            "neighbours traverse their common edge in opposite directions and are never matched")
            if isinstance(k, ast.Call) and ast.unparse(k.func) in ("frozenset", "tuple") and k.args:
                arg = k.args[0]
                if ast.unparse(k.func) == "frozenset" or (isinstance(arg, ast.Call) and ast.unparse(arg.func) == "sorted"):
                    return ("ok", k.lineno, txt)
            if isinstance(k, ast.BinOp) and isinstance(k.op, ast.Add):
                for prod, other in ((k.left, k.right), (k.right, k.left)):
                    if isinstance(prod, ast.BinOp) and isinstance(prod.op, ast.Mult):
                        for lo, stride in ((prod.left, prod.right), (prod.right, prod.left)):
                            if ast.unparse(lo) in mn | mx and ast.unparse(other) in mn | mx and ast.unparse(lo) != ast.unparse(other):
                                st = resolve(stride, fgi.node, _env=env)
                                stxt = ast.unparse(st)
                                if stxt in ("self.num_vertices", "len(self.vertices)", "len(self._vertices)", "self.vertices.shape[0]", "self._vertices.shape[0]"):
                                    return ("ok", k.lineno, f"{txt} with stride {stxt}")
                                if stxt in ("self.num_faces", "len(self.faces)", "len(self._faces)") or isinstance(st, ast.Constant):
                                    return ("not-injective", k.lineno, f"the edge dictionary is keyed by the positional code `{txt}` with stride `{stxt}`: "
                                            "the second index is a vertex index and reaches num_vertices - 1, so with a stride other than the "
                                            "number of vertices two different edges can share one key (whenever num_vertices exceeds the stride) "
                                            "and unrelated faces are reported as neighbours while real neighbours are lost")
            raise AnalysisError(f"NBR-2: the edge-dictionary key `{txt}` of _get_face_intersections is not of a recognised form")
    return None

def _fn(index, cname, member):
    cls = index.cls(cname)
    m = cls.lookup(member)
    if isinstance(m, FuncInfo):
        return m
    p = index.effective_prop(cls, member)
    if p is not None and p.getter is not None:
        return p.getter
    raise AnalysisError(f"anchor vanished: {cname}.{member}")


# ----------------------------------------------------------------------------------------------- NRM-1
def _corner(expr, fn_node, env, depth=0):
    """symbolic corner P<k> of an expression that selects the k-th listed vertex of a face: X[face[k]] / X[:, k] / X[k]
    (locals looked through).  Returns k or None."""
    if depth > 5:
        return None
    if isinstance(expr, ast.Name) and expr.id in env:
        return _corner(env[expr.id], fn_node, env, depth + 1)
    if isinstance(expr, ast.Subscript):
        sl = expr.slice
        # X[face[k]]
        if isinstance(sl, ast.Subscript) and isinstance(sl.slice, ast.Constant) and isinstance(sl.slice.value, int):
            return sl.slice.value
        # X[:, k]  (rows = faces, second axis = position in the face)
        if isinstance(sl, ast.Tuple) and len(sl.elts) == 2 and isinstance(sl.elts[0], ast.Slice) and isinstance(sl.elts[1], ast.Constant) \
                and isinstance(sl.elts[1].value, int):
            return sl.elts[1].value
        if isinstance(sl, ast.Constant) and isinstance(sl.value, int):
            return sl.value
    return None


def _vec(expr, fn_node, env, depth=0):
    """2-D symbolic vector (Poly, Poly) of a difference of corners."""
    if depth > 5:
        return None
    if isinstance(expr, ast.Name) and expr.id in env:
        return _vec(env[expr.id], fn_node, env, depth + 1)
    if isinstance(expr, ast.BinOp) and isinstance(expr.op, ast.Sub):
        a, b = _corner(expr.left, fn_node, env), _corner(expr.right, fn_node, env)
        if a is None or b is None:
            return None
        return (Poly.atom(f"x{a}") - Poly.atom(f"x{b}"), Poly.atom(f"y{a}") - Poly.atom(f"y{b}"))
    if isinstance(expr, ast.UnaryOp) and isinstance(expr.op, ast.USub):
        v = _vec(expr.operand, fn_node, env, depth + 1)
        return None if v is None else (Poly.const(0) - v[0], Poly.const(0) - v[1])
    return None


def _ccw_form(ks):
    """twice the signed area of the polygon through the listed corners in list order (positive for counter-clockwise)."""
    ks = sorted(ks)
    tot = Poly()
    for a, b in zip(ks, ks[1:] + ks[:1]):
        tot = tot + Poly.atom(f"x{a}") * Poly.atom(f"y{b}") - Poly.atom(f"x{b}") * Poly.atom(f"y{a}")
    return tot


def _normal_orientation(res, fn, label):
    env = single_assignments(fn.node)
    crosses = [n for n in ast.walk(fn.node) if isinstance(n, ast.Call) and ast.unparse(n.func).split(".")[-1] == "cross" and len(n.args) == 2]
    if not crosses:
        raise AnalysisError(f"NRM-1: {label} computes no cross product (normal construction not recognised)")
    decided = False
    for c in crosses:
        a, b = _vec(c.args[0], fn.node, env), _vec(c.args[1], fn.node, env)
        if a is None or b is None:
            continue
        z = a[0] * b[1] - a[1] * b[0]
        if _negated(c, fn.node):
            z = Poly.const(0) - z
        ks = sorted({int(t[1:]) for t in z.atoms()})
        if len(ks) != 3:
            continue
        want = _ccw_form(ks)
        decided = True
        if z == want:
            res.ok("NRM-1", label, sample={"cross": ast.unparse(c)[:90], "z_component": str(z)})
        elif (z + want).is_zero():
            res.bad("NRM-1", label + ":inward", f"{fn.file}:{c.lineno}", f"{label}: the face normal `{ast.unparse(c)[:70]}` is minus the counter-clockwise "
                    "orientation form of its three corners: faces listed counter-clockwise from outside get inward normals (every signed "
                    "quantity built on the equations - volume, containment, dihedral angles - changes sign)")
        else:
            res.bad("NRM-1", label + ":not-a-normal", f"{fn.file}:{c.lineno}", f"{label}: `{ast.unparse(c)[:70]}` is not +-(the orientation form of three corners "
                    "of the face): the two edge vectors do not share a corner")
    if not decided:
        raise AnalysisError(f"NRM-1: the operands of the cross product in {label} are not recognised as differences of face corners")


def _reachable(index, cls, fn, depth=2):
    """fn and the private helpers (methods through the MRO, module functions) it calls, breadth first."""
    out, seen, frontier = [fn], {id(fn.node)}, [fn]
    for _ in range(depth):
        nxt = []
        for f in frontier:
            for n in ast.walk(f.node):
                if not isinstance(n, ast.Call):
                    continue
                tgt = None
                if isinstance(n.func, ast.Attribute) and isinstance(n.func.value, ast.Name) and n.func.value.id in ("self", "cls"):
                    m = cls.lookup(n.func.attr)
                    tgt = m if isinstance(m, FuncInfo) else None
                elif isinstance(n.func, ast.Name):
                    tgt = f.module.functions.get(n.func.id)
                if tgt is not None and id(tgt.node) not in seen:
                    seen.add(id(tgt.node))
                    out.append(tgt)
                    nxt.append(tgt)
        frontier = nxt
    return out


def _negated(call, fn_node):
    """the cross product is negated where it is written: -np.cross(..) / -1 * np.cross(..) / np.negative(np.cross(..))."""
    for n in ast.walk(fn_node):
        if isinstance(n, ast.UnaryOp) and isinstance(n.op, ast.USub) and n.operand is call:
            return True
        if isinstance(n, ast.Call) and ast.unparse(n.func).endswith("negative") and n.args and n.args[0] is call:
            return True
        if isinstance(n, ast.BinOp) and isinstance(n.op, ast.Mult) and (n.left is call or n.right is call):
            other = n.right if n.left is call else n.left
            try:
                if ast.literal_eval(other) == -1:
                    return True
            except Exception:
                pass
    return False


def _mentions_norm(expr, fn_node):
    """the expression is (a view of) a vector norm: np.linalg.norm(...) directly or through single-assignment locals."""
    env = single_assignments(fn_node)
    seen = set()
    todo = [expr]
    while todo:
        e = todo.pop()
        for n in ast.walk(e):
            if isinstance(n, ast.Call) and ast.unparse(n.func).endswith("linalg.norm"):
                return True
            if isinstance(n, ast.Name) and n.id in env and n.id not in seen:
                seen.add(n.id)
                todo.append(env[n.id])
    return False


# ----------------------------------------------------------------------------------------------- main
def run(index, tier="quick", seed=0) -> Result:
    res = Result("C07", EXPLANATION)
    # ---------------- NRM-1 / NRM-2
    for cname in ("Polyhedron", "ConvexPolyhedron"):
        fn = _fn(index, cname, "_find_equations")
        if fn.cls.name != cname:
            continue
        label = f"{cname}._find_equations"
        _normal_orientation(res, fn, label)
        it = Interp(index)
        r = it.run_entry(fn, index.cls(cname))
        res.evaluations += it.stats["stmts"]
        stores = [e for e in r["events"] if e.type in ("write", "local-store")]
        # unit normal: some value stored into the equations (directly or through a local array) carries the x / |x| tag, or
        # the normal array is divided in place by its norm
        unit = any("unit" in getattr(e.f.get("rhs") or e.f.get("value"), "tags", ()) for e in stores) or \
            any(e.type == "augassign" and e.f.get("op") == "Div" and e.f.get("rhs") is not None and "norm" in e.rhs.tags for e in r["events"]) or \
            any(isinstance(n, ast.AugAssign) and isinstance(n.op, ast.Div) and _mentions_norm(n.value, fn.node) for n in ast.walk(fn.node)) or \
            any(isinstance(n, ast.BinOp) and isinstance(n.op, ast.Div) and _mentions_norm(n.right, fn.node) for n in ast.walk(fn.node))
        if unit:
            res.ok("NRM-2", label + ":unit")
        else:
            res.bad("NRM-2", label + ":unit", f"{fn.file}:{fn.lineno}", f"{label} stores a normal that is not divided by its norm: plane distances and "
                    "dihedral angles computed from the equations are scaled by the face size")
    # offset convention: the readers/writers table of C02 SIGN-1 decides d = -n.v; here: the offset depends on a corner of the face
    # ---------------- ORI-1
    from .c02 import check_ori1
    check_ori1(res, index, index.cls("Polyhedron"))
    # ---------------- CCW-1
    sf = _fn(index, "ConvexPolyhedron", "sort_faces")
    env = single_assignments(sf.node)
    kab = [n for n in ast.walk(sf.node) if isinstance(n, ast.Call) and ast.unparse(n.func).endswith("kabsch") and len(n.args) == 2]
    if not kab:
        raise AnalysisError("CCW-1: ConvexPolyhedron.sort_faces no longer aligns the face normal by rowan.mapping.kabsch (alignment not recognised)")
    k = kab[0]
    try:
        src, dst = k.args
        if not (isinstance(src, (ast.List, ast.Tuple)) and len(src.elts) == 2):
            raise ValueError
        pos = 0 if not (isinstance(src.elts[0], ast.UnaryOp) and isinstance(src.elts[0].op, ast.USub)) else 1
        tgt = ast.literal_eval(dst)
        zdir = tgt[pos]
        if list(zdir) == [0, 0, 1] and list(tgt[1 - pos]) == [0, 0, -1]:
            res.ok("CCW-1", "ConvexPolyhedron.sort_faces:normal->+z")
        elif list(zdir) == [0, 0, -1]:
            res.bad("CCW-1", "ConvexPolyhedron.sort_faces:normal->-z", f"{sf.file}:{k.lineno}", "ConvexPolyhedron.sort_faces rotates the outward normal onto -z "
                    "before taking the arctan2 angles: every face comes out clockwise as seen from outside")
        else:
            raise ValueError
    except (ValueError, SyntaxError, TypeError, IndexError):
        raise AnalysisError("CCW-1: the kabsch alignment of ConvexPolyhedron.sort_faces is not of the recognised form ([n, -n] -> [+z, -z])")
    lex = []
    lex_fn = sf
    for cand in _reachable(index, index.cls("ConvexPolyhedron"), sf):
        lex = [n for n in ast.walk(cand.node) if isinstance(n, ast.Call) and ast.unparse(n.func).endswith("lexsort") and n.args]
        if lex:
            lex_fn = cand
            break
    sf_outer, sf = sf, lex_fn        # the sort keys are analysed in the function that contains the lexsort (possibly a helper)
    if lex:
        keys = lex[0].args[0]
        if isinstance(keys, (ast.Tuple, ast.List)) and keys.elts:
            # names that hold angles: assigned (anywhere in the function) from an expression containing arctan2 or another angle name
            angle_names = set()
            changed = True
            while changed:
                changed = False
                for n_ in ast.walk(sf.node):
                    if isinstance(n_, ast.Assign) and len(n_.targets) == 1 and isinstance(n_.targets[0], ast.Name) and n_.targets[0].id not in angle_names:
                        txt_ = ast.unparse(n_.value)
                        if "arctan2" in txt_ or any(isinstance(x_, ast.Name) and x_.id in angle_names for x_ in ast.walk(n_.value)):
                            angle_names.add(n_.targets[0].id)
                            changed = True

            def _is_angle(e_):
                return "arctan2" in ast.unparse(e_) or any(isinstance(x_, ast.Name) and x_.id in angle_names for x_ in ast.walk(e_))
            last = "arctan2" if _is_angle(keys.elts[-1]) else ""
            first = "arctan2" if _is_angle(keys.elts[0]) else ""
            if "arctan2" in last:
                res.ok("CCW-1", "ConvexPolyhedron.sort_faces:angle-is-primary-key")
            elif "arctan2" in first:
                res.bad("CCW-1", "ConvexPolyhedron.sort_faces:angle-not-primary", f"{sf.file}:{lex[0].lineno}", "np.lexsort sorts by its LAST key first: the "
                        "vertices of a face are ordered by distance from the face centre, not by angle (faces are no longer simple cycles)")
            else:
                raise AnalysisError("CCW-1: the sort keys of ConvexPolyhedron.sort_faces are not recognised (no arctan2 angle among them)")
    else:
        raise AnalysisError("CCW-1: ConvexPolyhedron.sort_faces no longer orders the vertices with np.lexsort (sort not recognised)")
    sf = sf_outer
    # ---------------- NBR-1
    fnb = _fn(index, "Polyhedron", "_find_neighbors")
    loops = [n for n in ast.walk(fnb.node) if isinstance(n, ast.For) and isinstance(n.target, ast.Tuple) and len(n.target.elts) >= 2
             and all(isinstance(e, ast.Name) for e in n.target.elts[:2])]
    decided = False
    for lp in loops:
        a, b = lp.target.elts[0].id, lp.target.elts[1].id
        pairs = set()
        for n in ast.walk(lp):
            if isinstance(n, ast.Call) and isinstance(n.func, ast.Attribute) and n.func.attr in ("append", "add") and len(n.args) == 1 \
                    and isinstance(n.func.value, ast.Subscript) and isinstance(n.func.value.slice, ast.Name) and isinstance(n.args[0], ast.Name):
                pairs.add((n.func.value.slice.id, n.args[0].id))
        if not pairs:
            continue
        decided = True
        if {(a, b), (b, a)} <= pairs:
            res.ok("NBR-1", "Polyhedron._find_neighbors:symmetric")
        else:
            res.bad("NBR-1", "Polyhedron._find_neighbors:one-directional", f"{fnb.file}:{lp.lineno}", f"_find_neighbors records the face pair ({a}, {b}) in one "
                    f"direction only ({sorted(pairs)}): neighbour lists are not symmetric, and the orientation pass of sort_faces cannot walk back")
    if not decided:
        raise AnalysisError("NBR-1: the loop of Polyhedron._find_neighbors that records neighbour pairs is not recognised")
    # ---------------- NBR-2
    fgi = _fn(index, "Polyhedron", "_get_face_intersections")
    envg = single_assignments(fgi.node)
    rng = [n for n in ast.walk(fgi.node) if isinstance(n, ast.For) and isinstance(n.iter, ast.Call) and ast.unparse(n.iter.func) == "range"
           and isinstance(n.target, ast.Name)]
    combos = [n for n in ast.walk(fgi.node) if isinstance(n, ast.Call) and ast.unparse(n.func).endswith("combinations")]
    _pair_loops = [n for n in rng if len(n.iter.args) == 2 and any(n is m_ for o_ in rng if o_ is not n for m_ in ast.walk(o_))]
    edge_map = None if (combos or _pair_loops) else _edge_map_form(fgi, envg)     # all-pairs formulations are judged as before
    if combos:
        res.ok("NBR-2", "Polyhedron._get_face_intersections:all-pairs", nontrivial=False)
    elif edge_map is not None:
        # one pass over the faces with a dictionary keyed by the undirected edge: every shared edge meets its partner,
        # provided the key identifies the unordered vertex pair (KEY-1)
        verdict, where, what = edge_map
        if verdict == "ok":
            res.ok("NBR-2", "Polyhedron._get_face_intersections:all-pairs", sample={"edge-map key": what})
            res.ok("NBR-2", "Polyhedron._get_face_intersections:both-directions", sample={"edge-map key": what})
        else:
            res.bad("NBR-2", f"Polyhedron._get_face_intersections:edge-key:{verdict}", f"{fgi.file}:{where}", what)
    else:
        outer = [n for n in rng if len(n.iter.args) == 1]
        inner = [n for n in rng if len(n.iter.args) == 2]
        if len(outer) == 1 and len(inner) == 1 and any(inner[0] is m for m in ast.walk(outer[0])):
            o, i_ = outer[0], inner[0]
            lo, hi = i_.iter.args
            same_hi = ast.dump(resolve(hi, fgi.node)) == ast.dump(resolve(o.iter.args[0], fgi.node))
            lo_ok = isinstance(lo, ast.BinOp) and isinstance(lo.op, ast.Add) and {ast.unparse(lo.left), ast.unparse(lo.right)} == {o.target.id, "1"}
            lo_same = isinstance(lo, ast.Name) and lo.id == o.target.id
            if same_hi and (lo_ok or lo_same):
                res.ok("NBR-2", "Polyhedron._get_face_intersections:all-pairs", sample={"outer": ast.unparse(o.iter), "inner": ast.unparse(i_.iter)})
            elif same_hi and isinstance(lo, ast.BinOp) and isinstance(lo.op, ast.Add) and ast.unparse(lo.left) == o.target.id \
                    and isinstance(lo.right, ast.Constant) and isinstance(lo.right.value, int) and lo.right.value > 1:
                res.bad("NBR-2", "Polyhedron._get_face_intersections:pairs-skipped", f"{fgi.file}:{i_.lineno}", f"the inner loop starts at {ast.unparse(lo)}: face pairs "
                        f"(i, i+1) .. are never compared, their shared edges and neighbour relations are missed")
            elif not same_hi and (lo_ok or lo_same):
                res.bad("NBR-2", "Polyhedron._get_face_intersections:pairs-cut", f"{fgi.file}:{i_.lineno}", f"the inner loop stops at {ast.unparse(hi)} instead of "
                        f"{ast.unparse(o.iter.args[0])}: pairs with the last face(s) are never compared")
            else:
                raise AnalysisError("NBR-2: the pair loops of _get_face_intersections are not of a recognised form")
        else:
            raise AnalysisError("NBR-2: the pair loops of _get_face_intersections are not of a recognised form")
    both = [n for n in ast.walk(fgi.node) if isinstance(n, ast.Call) and ast.unparse(n.func).endswith("_face_to_edges")]
    if both and edge_map is None:
        rev = [n for n in both if len(n.args) > 1 or n.keywords]
        if rev and len(both) > len(rev):
            res.ok("NBR-2", "Polyhedron._get_face_intersections:both-directions")
        else:
            res.bad("NBR-2", "Polyhedron._get_face_intersections:one-direction", f"{fgi.file}:{both[0].lineno}", "edges are compared in one direction only: two "
                    "consistently oriented neighbours traverse their common edge in opposite directions and are never matched")
    # ---------------- EDG-1
    fe = _fn(index, "Polyhedron", "edges")
    comps = [n for n in ast.walk(fe.node) if isinstance(n, (ast.ListComp, ast.GeneratorExp))]
    ok_edges = None
    for c in comps:
        gens = c.generators
        zips = [g for g in gens if isinstance(g.iter, ast.Call) and ast.unparse(g.iter.func) == "zip" and len(g.iter.args) == 2]
        if not zips:
            continue
        g = zips[0]
        a0, a1 = g.iter.args
        rolled = [x for x in (a0, a1) if _is_cyclic_shift(x)]
        sliced = isinstance(a0, ast.Subscript) and isinstance(a1, ast.Subscript) and not rolled
        order_tests = [t for t in g.ifs if isinstance(t, ast.Compare) and len(t.ops) == 1 and isinstance(t.ops[0], (ast.Lt, ast.Gt, ast.LtE, ast.GtE))]
        if rolled and len(rolled) == 1:
            if order_tests:
                ok_edges = True
                res.ok("EDG-1", "Polyhedron.edges:cyclic-once", sample={"pairs": ast.unparse(g.iter), "filter": ast.unparse(order_tests[0])})
            else:
                ok_edges = False
                res.bad("EDG-1", "Polyhedron.edges:no-order-filter", f"{fe.file}:{c.lineno}", "every edge of a closed surface is traversed by two faces; without the "
                        "i < j filter each edge is listed twice (num_edges doubles, V - E + F = 2 fails)")
        elif sliced and not rolled:
            ok_edges = False
            res.bad("EDG-1", "Polyhedron.edges:open-cycle", f"{fe.file}:{c.lineno}", f"`{ast.unparse(g.iter)[:60]}` pairs consecutive vertices without closing the cycle: the "
                    "edge from the last to the first vertex of every face is missing")
    if ok_edges is None:
        raise AnalysisError("EDG-1: the edge enumeration of Polyhedron.edges is not of a recognised form")
    # ---------------- EUL-1
    cls = index.cls("ConvexPolyhedron")
    p = index.effective_prop(cls, "num_edges")
    if p is not None and p.getter is not None and p.getter.cls.name == "ConvexPolyhedron":
        it = Interp(index)
        r = it.run_entry(p.getter, cls)
        v = r["result"]
        want = None
        if v is not None and v.sym is not None:
            ats = sorted(v.sym.atoms())
            nv = [a for a in ats if "num_vertices" in a or "_vertices" in a]
            nf = [a for a in ats if "num_faces" in a or "_faces" in a]
            if len(nv) == 1 and len(nf) == 1:
                want = Poly.atom(nv[0]) + Poly.atom(nf[0]) - Poly.const(2)
        if want is None:
            res.not_in_fragment.append(f"EUL-1: closed form of ConvexPolyhedron.num_edges not recovered ({v.sym if v is not None else None})")
        elif v.sym == want:
            res.ok("EUL-1", "ConvexPolyhedron.num_edges", sample={"closed_form": str(v.sym)})
        else:
            res.bad("EUL-1", "ConvexPolyhedron.num_edges", f"{p.getter.file}:{p.getter.lineno}", f"ConvexPolyhedron.num_edges = {v.sym}, Euler's formula for a convex "
                    f"polyhedron gives E = V + F - 2")
    # ---------------- IDX-2
    sfp = _fn(index, "Polyhedron", "sort_faces")
    looked = False
    for n in ast.walk(sfp.node):
        if isinstance(n, ast.Assign) and len(n.targets) == 1 and isinstance(n.targets[0], ast.Subscript) and "where" in ast.unparse(n.value):
            looked = True
            txt = [c for c in ast.walk(n.value) if isinstance(c, ast.Call) and ast.unparse(c.func).split(".")[-1] in ("isclose", "allclose")]
            eq = [c for c in ast.walk(n.value) if isinstance(c, ast.Compare) and len(c.ops) == 1 and isinstance(c.ops[0], ast.Eq)]
            if txt:
                res.bad("IDX-2", "Polyhedron.sort_faces:lookup-tolerance", f"{sfp.file}:{txt[0].lineno}", f"the vertex-index lookup `{ast.unparse(txt[0])[:60]}` matches "
                        "coordinates within a tolerance and takes the first hit: two distinct vertices closer than the tolerance map to one index and the "
                        "face loses a vertex (the coordinates were copied from self.vertices, an exact comparison identifies them)")
            elif eq:
                res.ok("IDX-2", "Polyhedron.sort_faces:lookup-exact")
            else:
                raise AnalysisError("IDX-2: the comparison inside the vertex-index lookup of Polyhedron.sort_faces is not recognised")
    if not looked:
        res.notes.append("IDX-2: Polyhedron.sort_faces no longer rewrites faces through an np.where lookup (rule not applicable)")
    _cyclic_modulus(res, index)
    _merge_grouping(res, index)
    _merge_orientation(res, index)
    return res


def _cyclic_modulus(res, index):
    """CYC-1: a cyclic distance between two positions of ONE vertex cycle, `(X.index(b) - X.index(a)) % m`, is reduced modulo
    the length of that cycle.  `m` resolved through once-assigned locals; a length of a different sequence is a contradiction
    (faces of a polyhedron have different lengths), anything else that is not a length is not judged."""
    from ..astutil import single_assignments
    for cname in ("Polyhedron", "ConvexPolyhedron"):
        cls = index.cls(cname)
        for fn in cls.methods.values():
            env = single_assignments(fn.node)

            def res_(e, d=0):
                while isinstance(e, ast.Name) and e.id in env and d < 4:
                    e, d = env[e.id], d + 1
                return e
            for n in ast.walk(fn.node):
                if not (isinstance(n, ast.BinOp) and isinstance(n.op, ast.Mod) and isinstance(n.left, ast.BinOp) and isinstance(n.left.op, ast.Sub)):
                    continue
                sides = [res_(x) for x in (n.left.left, n.left.right)]
                if not all(isinstance(x, ast.Call) and isinstance(x.func, ast.Attribute) and x.func.attr == "index" and isinstance(x.func.value, ast.Name)
                           for x in sides):
                    continue
                seqs = {x.func.value.id for x in sides}
                if len(seqs) != 1:
                    continue
                seq = next(iter(seqs))
                m = res_(n.right)
                if isinstance(m, ast.Call) and isinstance(m.func, ast.Name) and m.func.id == "len" and len(m.args) == 1 and isinstance(m.args[0], ast.Name):
                    other = m.args[0].id
                    # the two names may denote the same cycle (list(face) of the same face): compare what they were built from
                    same = other == seq or (other in env and seq in env and ast.dump(env[other]) == ast.dump(env[seq]))
                    key = f"{cname}.{fn.name}:cyclic-distance"
                    if same:
                        res.ok("CYC-1", key, sample={"distance": ast.unparse(n)[:80]})
                    else:
                        res.bad("CYC-1", key + ":foreign-length", f"{fn.file}:{n.lineno}", f"{cname}.{fn.name}: `{ast.unparse(n)[:80]}` reduces a distance between two "
                                f"positions of `{seq}` modulo the length of `{other}`: for two faces of different length the wrap-around of the closing edge is "
                                "misjudged (a hexagon reached from a quadrilateral: 5 % 4 == 1)")


def _is_cyclic_shift(x):
    """np.roll(face, k)  |  face[(np.arange(n) + k) % n]  |  np.concatenate((face[k:], face[:k])): the cycle shifted, closed."""
    if isinstance(x, ast.Call) and ast.unparse(x.func).endswith("roll"):
        return True
    if isinstance(x, ast.Subscript) and isinstance(x.slice, ast.BinOp) and isinstance(x.slice.op, ast.Mod) \
            and isinstance(x.slice.left, ast.BinOp) and isinstance(x.slice.left.op, (ast.Add, ast.Sub)) and "arange" in ast.unparse(x.slice.left):
        return True
    if isinstance(x, ast.Call) and ast.unparse(x.func).split(".")[-1] in ("concatenate", "hstack", "append") and x.args:
        parts = x.args[0].elts if (isinstance(x.args[0], (ast.Tuple, ast.List)) and len(x.args[0].elts) == 2) else (list(x.args[:2]) if len(x.args) >= 2 else [])
        if len(parts) == 2 and all(isinstance(p_, ast.Subscript) and isinstance(p_.slice, ast.Slice) and p_.slice.step is None for p_ in parts) \
                and ast.dump(parts[0].value) == ast.dump(parts[1].value):
            a_, b_ = parts[0].slice, parts[1].slice
            if a_.upper is None and b_.lower is None and a_.lower is not None and b_.upper is not None and ast.dump(a_.lower) == ast.dump(b_.upper):
                return True
    return False


def _union_find(fn_node):
    """a disjoint-set forest: a nested `find` that follows `parent[x]` until `parent[x] == x`, and pairs united root to root
    (`parent[find(a)] = find(b)`, possibly through locals bound to the two roots)."""
    finds = {}
    for f in ast.walk(fn_node):
        if isinstance(f, ast.FunctionDef) and f is not fn_node and len(f.args.args) == 1:
            x = f.args.args[0].arg
            for w in ast.walk(f):
                if isinstance(w, ast.While) and isinstance(w.test, ast.Compare) and len(w.test.ops) == 1 and isinstance(w.test.ops[0], ast.NotEq):
                    l_, r_ = w.test.left, w.test.comparators[0]
                    for a_, b_ in ((l_, r_), (r_, l_)):
                        if isinstance(a_, ast.Subscript) and isinstance(a_.value, ast.Name) and isinstance(a_.slice, ast.Name) and a_.slice.id == x \
                                and isinstance(b_, ast.Name) and b_.id == x and any(isinstance(rt, ast.Return) for rt in ast.walk(f)):
                            finds[f.name] = a_.value.id
    if not finds:
        return False
    from ..astutil import single_assignments
    env = single_assignments(fn_node)

    def is_root(e, d=0):
        if isinstance(e, ast.Name) and e.id in env and d < 3:
            return is_root(env[e.id], d + 1)
        return isinstance(e, ast.Call) and isinstance(e.func, ast.Name) and e.func.id in finds
    for n in ast.walk(fn_node):
        if isinstance(n, ast.Assign) and len(n.targets) == 1 and isinstance(n.targets[0], ast.Subscript) and isinstance(n.targets[0].value, ast.Name) \
                and n.targets[0].value.id in finds.values() and is_root(n.targets[0].slice) and is_root(n.value):
            return True
    return False


def _merge_grouping(res, index):
    """MRG-1: faces are merged by groups that are closed under the pair relation 'neighbours with the same plane' - connected
    components (scipy) or a union-find.  A single pass that lets one face inherit the label of the other (`labels[j] = labels[i]`)
    is not transitive: a triangle with two lower-numbered coplanar neighbours that are not yet in one group splits the facet."""
    cls = index.cls("Polyhedron")
    fn = cls.methods.get("merge_faces")
    if fn is None:
        raise AnalysisError("anchor vanished: Polyhedron.merge_faces")
    mod = fn.module
    cc = [n for n in ast.walk(fn.node) if isinstance(n, ast.Call) and ast.unparse(n.func).split(".")[-1] == "connected_components"]
    inherit = []
    for n in ast.walk(fn.node):
        if isinstance(n, ast.Assign) and len(n.targets) == 1 and isinstance(n.targets[0], ast.Subscript) and isinstance(n.value, ast.Subscript) \
                and isinstance(n.targets[0].value, ast.Name) and isinstance(n.value.value, ast.Name) and n.targets[0].value.id == n.value.value.id \
                and ast.dump(n.targets[0].slice) != ast.dump(n.value.slice):
            inherit.append(n)
    has_find = any(isinstance(n, ast.While) for n in ast.walk(fn.node)) or any(
        isinstance(n, ast.FunctionDef) and n is not fn.node for n in ast.walk(fn.node))
    key = "Polyhedron.merge_faces:grouping"
    if cc:
        src = mod.imports.get("connected_components")
        if src is not None and not str(src[0]).startswith("scipy.sparse.csgraph"):
            raise AnalysisError("MRG-1: connected_components is not scipy's")
        res.ok("MRG-1", key, sample={"grouping": "scipy.sparse.csgraph.connected_components of the pair graph"})
    elif _union_find(fn.node):
        res.ok("MRG-1", key, sample={"grouping": "union-find over the mergeable pairs (roots united, labels read through find)"})
    elif inherit and not has_find:
        n = inherit[0]
        res.bad("MRG-1", key + ":one-pass-labels", f"{fn.file}:{n.lineno}", f"Polyhedron.merge_faces groups the faces by `{ast.unparse(n)[:50]}` in one pass over the "
                "pairs: a label is inherited, never united - a face with two coplanar neighbours that carry different labels joins only one of them and the "
                "facet is split into several coplanar faces (the relation must be closed transitively: connected components / union-find)")
    else:
        raise AnalysisError("MRG-1: the way Polyhedron.merge_faces groups the faces to merge is not recognised")



def _merge_orientation(res, index):
    """MRG-2: merge_faces compares the planes of two neighbours up to orientation (the input faces may be wound either way).
    Accepted: both orientations are tested (`close(eq1, eq2) or close(eq1, -eq2)`), or the orientation is chosen from the
    normals (a dot product of the normal parts is +-1 for coplanar faces, never 0). An orientation chosen from the offset
    component alone (`eq1[3] * eq2[3] < 0`) is undecided for every plane through the origin, where both offsets vanish:
    oppositely wound coplanar faces of such a facet are then never merged. Other formulations give no verdict."""
    cls = index.cls("Polyhedron")
    fn = cls.methods.get("merge_faces")
    if fn is None:
        raise AnalysisError("anchor vanished: Polyhedron.merge_faces")
    key = "Polyhedron.merge_faces:orientation"
    for n in ast.walk(fn.node):
        if not isinstance(n, ast.If):
            continue
        negs = [a for a in n.body if isinstance(a, ast.Assign) and isinstance(a.value, ast.UnaryOp) and isinstance(a.value.op, ast.USub)
                and isinstance(a.value.operand, ast.Name)]
        if not negs:
            continue
        subs = [x for x in ast.walk(n.test) if isinstance(x, ast.Subscript)]
        if subs and all(isinstance(x.slice, (ast.Constant, ast.UnaryOp)) and ast.unparse(x.slice) in ("3", "-1") for x in subs) \
                and not any(isinstance(x, ast.Call) and ast.unparse(x.func).split(".")[-1] in ("dot", "inner", "einsum", "vdot") for x in ast.walk(n.test)):
            res.bad("MRG-2", key + ":offset-sign", f"{fn.file}:{n.lineno}", f"Polyhedron.merge_faces chooses the orientation of the second plane from the offsets "
                    f"alone (`{ast.unparse(n.test)[:60]}`): for a facet whose plane passes through the origin both offsets are 0, the test never "
                    f"flips, and oppositely wound coplanar triangles are not merged")
            return
    for n in ast.walk(fn.node):
        if isinstance(n, ast.If) and any(isinstance(a, ast.Assign) and isinstance(a.value, ast.UnaryOp) and isinstance(a.value.op, ast.USub) for a in n.body):
            dots = [x for x in ast.walk(n.test) if (isinstance(x, ast.Call) and ast.unparse(x.func).split(".")[-1] in ("dot", "inner", "vdot"))
                    or (isinstance(x, ast.BinOp) and isinstance(x.op, ast.MatMult))]
            sl = [x for x in ast.walk(n.test) if isinstance(x, ast.Subscript) and ast.unparse(x.slice) in (":3", ":-1", "0:3")]
            if dots and len(sl) >= 2:
                res.ok("MRG-2", key, sample={"orientation chosen from the normals": ast.unparse(n.test)[:100]})
                return
    ors = [n for n in ast.walk(fn.node) if isinstance(n, ast.BoolOp) and isinstance(n.op, ast.Or) and len(n.values) == 2]
    for o in ors:
        calls = [v for v in o.values if isinstance(v, ast.Call) and ast.unparse(v.func).split(".")[-1] in ("allclose", "isclose", "array_equal") and len(v.args) >= 2]
        if len(calls) == 2:
            plain = [c for c in calls if not any(isinstance(a, ast.UnaryOp) and isinstance(a.op, ast.USub) for a in c.args[:2])]
            flipped = [c for c in calls if any(isinstance(a, ast.UnaryOp) and isinstance(a.op, ast.USub) for a in c.args[:2])]
            if len(plain) == 1 and len(flipped) == 1:
                res.ok("MRG-2", key, sample={"test": ast.unparse(o)[:120]})
                return
    res.not_in_fragment.append("MRG-2: the orientation handling of Polyhedron.merge_faces is not of a recognised form")
