"""C06 - 2-D point containment (structural part)."""

from __future__ import annotations

import ast

from ..containment import check_class
from ..index import AnalysisError
from ..report import Result

EXPLANATION = (
    "Per is_inside implementation of Polygon (inherited by ConvexPolygon), Circle and Ellipse: IN-1 ... IN-4 as for "
    "C05 (input normalisation, batch axis preserved, dependence on own size/centre state, norm-based membership for "
    "curved shapes); IN-6 Polygon.is_inside pads (N,2) input with a zero column before rotating into the plane and "
    "answers winding_number != 0 (hence independent of the vertex orientation); IN-8 the per-edge term of that winding number, "
    "evaluated symbolically over the vertex cycle (tie-break and indicator stores as function atoms), is antisymmetric in the two "
    "end points of the edge, i.e. both end points are classified by the same function. Correctness of the winding-number "
    "computation on arbitrary polygons beyond this symmetry is numerical and not decided."
)


def run(index, tier="quick", seed=0) -> Result:
    res = Result("C06", EXPLANATION)
    n = 0
    for cname in ("Polygon", "ConvexPolygon", "Circle", "Ellipse"):
        if check_class(res, index, index.cls(cname)):
            n += 1
    if n < 4:
        raise AnalysisError(f"only {n} 2-D is_inside implementations analysed (4 confirmed)")
    from ..dimscan import report_translation, scan as _scan
    report_translation(res, _scan(index), lambda func, path: (path[0] if path else func).split(".")[0] in ("Polygon", "ConvexPolygon", "Circle", "Ellipse", "ConvexSpheropolygon") and (path[0] if path else func).endswith(".is_inside"),
                       "is_inside implementations")

    from ..parallel import report as _copy1
    from ..frame3 import check as _frame3
    for cn_ in ("Polygon", "ConvexPolygon", "ConvexSpheropolygon"):
        _frame3(res, index, cn_, ("is_inside",))
    _copy1(res, index, lambda f: f['top'] == 'is_inside' and f['cls'] in ('Polygon', 'ConvexPolygon', 'Circle', 'Ellipse'))
    # IN-8: the winding number is odd under reversal of the vertex order (per-edge term antisymmetric in its end points)
    from ..cyc import NotInFragment as _NIF
    from ..windparity import winding_parity
    fnw = index.cls("Polygon").lookup("is_inside")
    try:
        wp, wtxt = winding_parity(fnw.node, fnw.params[1] if len(fnw.params) > 1 else "points", index=index, cls=index.cls("Polygon"))
        if wp == "odd":
            res.ok("IN-8", "Polygon.is_inside:winding-parity", sample={"per_edge_term": wtxt[:300]})
        else:
            res.bad("IN-8", f"Polygon.is_inside:winding-parity:{wp}", f"{fnw.file}:{fnw.lineno}", f"the per-edge term of the winding number of Polygon.is_inside is "
                    f"{wp} (not odd) under exchange of the two end points of an edge: start and end point are not classified by the same function "
                    f"(term: {wtxt[:160]}), so the number of half turns is wrong for query points that share a coordinate with a vertex")
    except _NIF as e_:
        res.not_in_fragment.append(f"IN-8 Polygon.is_inside: {e_}")
    # IN-6
    fn = index.cls("Polygon").lookup("is_inside")
    pad = False
    # a zero column is appended somewhere (under whatever spelling of the `shape[1] == 2` test)
    for b in ast.walk(fn.node):
        if isinstance(b, ast.Call):
            nm = b.func.attr if isinstance(b.func, ast.Attribute) else getattr(b.func, "id", "")
            if nm in ("hstack", "column_stack", "concatenate", "pad", "append", "c_") and ("zeros" in ast.unparse(b) or nm == "pad"):
                pad = True
    if pad:
        res.ok("IN-6", "Polygon.is_inside:pad")
    else:
        res.bad("IN-6", "Polygon.is_inside:pad", f"{fn.file}:{fn.lineno}", "Polygon.is_inside does not pad (N,2) points with a zero z column")
    # IN-7: the query points are brought into the polygon's plane by the same (full) rotation as the vertices
    from ..interp import Interp
    P = index.cls("Polygon")
    it = Interp(index)
    r = it.run_entry(fn, P)
    rot_pts = [e for e in r["events"] if e.type == "dotcall" and e.func is fn and e.left is not None and "batch" in e.left.tags
               and e.right is not None and "orth" in e.right.tags]
    # the vertices were brought into the plane frame by a forward product with the same kind of rotation (wherever that
    # product is written: _align_points_by_normal, a method of the class, inline)
    aligned = [e for e in r["events"] if e.type == "enter" and not e.entry and e.callee.name == "_align_points_by_normal"] or \
        [e for e in r["events"] if e.type == "dotcall" and e.left is not None and "world3" in e.left.tags and e.right is not None
         and "orth" in e.right.tags and "transposed" in e.right.tags]
    # ... on the path of (N, 2) points as well as on the path of (N, 3) points: the member is run once more per documented width of
    # `points` (the column count is a static fact then, the `shape[1] == 2` test folds) and every width must rotate
    from ..values import Val as _Val
    unrot = []
    pname = fn.params[1] if len(fn.params) > 1 else "points"
    for width in (2, 3):
        itw = Interp(index, config={"fold_branches": True})
        pv = _Val(kind="arr", dim=("D", 1), pdeps=frozenset([pname]), al=frozenset([("param", pname)]),
                  tags=frozenset(["batch", "raw-param", ("shape-last", width, 2)]))
        rw = itw.run_entry(fn, P, args={pname: pv})
        if not rw["returns"]:
            continue
        rots_w = [e for e in rw["events"] if e.type == "dotcall" and e.func is fn and e.left is not None and pname in e.left.pdeps
                  and e.right is not None and "orth" in e.right.tags]
        if not rots_w:
            unrot.append(width)
    if rot_pts and all("transposed" in e.right.tags for e in rot_pts) and aligned and unrot:
        res.bad("IN-7", f"Polygon.is_inside:rotation:width-{unrot[0]}", f"{fn.file}:{fn.lineno}", f"Polygon.is_inside rotates the vertices into the plane frame but leaves "
                f"query points given with {unrot[0]} columns unrotated: for a polygon whose normal is not +z (clockwise vertices in the xy plane, a tilted plane) "
                "points and vertices live in different frames")
    elif rot_pts and all("transposed" in e.right.tags for e in rot_pts) and aligned:
        res.ok("IN-7", "Polygon.is_inside:rotation")
    elif not rot_pts:
        res.bad("IN-7", "Polygon.is_inside:rotation", f"{fn.file}:{fn.lineno}", "Polygon.is_inside does not map the query points with the full "
                "rotation that aligned the vertices (np.dot(points, rotation.T)): for a polygon in a tilted plane points and vertices live in different frames")
    else:
        res.bad("IN-7", "Polygon.is_inside:rotation:forward", rot_pts[0].where(), "Polygon.is_inside rotates the points with the inverse of the rotation applied to the vertices")
    # IN-6: the answer is `winding number != 0` (orientation-free); judged on the value that is returned, however it is named
    verdicts = []

    def _tests(v_):
        """the comparison(s) the returned mask is built from: logical_and(a, b) / a & b is judged by its operands"""
        x_ = v_.extra
        if x_ and x_[0] == "logical" and x_[1] in ("logical_and",) and len(x_[2]) == 2:
            return _tests(x_[2][0]) + _tests(x_[2][1])
        return [v_]

    rets_ = []
    for (v_, _s, n_) in r["returns"]:
        cands = _tests(v_)
        # an additional condition (e.g. an in-plane test) does not change the orientation-free winding test
        wind = [c_ for c_ in cands if c_.extra and (c_.extra[0] in ("cmp", "not"))]
        rets_.append((wind[0] if len(wind) >= 1 and len(cands) > 1 else v_, _s, n_))
    for (v_, _s, n_) in rets_:
        x = v_.extra
        neg = False
        while x and x[0] == "not":
            x = x[1].extra
            neg = not neg
        if x and x[0] == "cmp" and len(x[1].ops) == 1 and len(x[3]) == 1:
            op = type(x[1].ops[0]).__name__
            left, right = x[2], x[3][0]
            zero_r = right.is_number_const() and right.const == 0
            zero_l = left.is_number_const() and left.const == 0
            other = left if zero_r else right
            if (zero_r or zero_l) and ((op == "NotEq" and not neg) or (op == "Eq" and neg)):
                verdicts.append("ok")
            elif (zero_r or zero_l) and op in ("Gt", "Lt", "GtE", "LtE") and "abs" not in other.tags:
                verdicts.append("signed")
            elif (zero_r or zero_l) and op in ("Gt",) and "abs" in other.tags:
                verdicts.append("ok")
            else:
                verdicts.append("unknown")
        else:
            verdicts.append("unknown")
    if verdicts and all(v_ == "ok" for v_ in verdicts):
        res.ok("IN-6", "Polygon.is_inside:parity")
    elif "signed" in verdicts:
        res.bad("IN-6", "Polygon.is_inside:parity", f"{fn.file}:{fn.lineno}", "Polygon.is_inside does not answer `winding_number != 0`: "
                "a sign-sensitive test makes the answer depend on the vertex orientation")
    else:
        raise AnalysisError("Polygon.is_inside: the returned value is not a recognised test of the winding number against 0")
    return res
