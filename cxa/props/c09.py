"""C09 - covariance under uniform scaling (the scaling clause; formulas and decisions)."""

from __future__ import annotations

from ..degrees import check_degree, declared_degree
from ..dimscan import scan
from ..index import AnalysisError
from ..report import Result

EXPLANATION = (
    "Units type system (abstract interpretation with the length exponent as abstract value) over every public entry of "
    "every shape class, with coxeter.extern.polytri inlined: SC-1 every +, -, comparison, where/concatenate-free merge is "
    "homogeneous and every trig/exp/sinc/elliptic argument is dimensionless (a conflict of two known different "
    "exponents is a formula that cannot be scale covariant); SC-2 every public observable has its declared degree "
    "(lengths 1, areas 2, volumes 3, 2-D/3-D inertia 4/5, form factors d, descriptors 0); SC-3 no decision site "
    "(comparison / isclose / allclose) compares a quantity of non-zero degree k with a bare non-zero constant c inside "
    "the band m^|k| * 1e-3^|k| < c (m = 1e-3 margin): such a threshold swallows a clearly non-zero value somewhere in "
    "the supported scale range 1e-3..1e3. Exact-zero, homogeneous, relative (rtol in play) and out-of-band sites are "
    "listed, not alarmed. Decides the scaling clause only; rotation / translation / relabelling covariance are "
    "value-level and not decided. The vendored Bentley-Ottmann sweep is opaque (constants NUM_EPS listed in notes)."
)


def run(index, tier="quick", seed=0) -> Result:
    res = Result("C09", EXPLANATION)
    sc = scan(index)
    res.evaluations = sc.stmts
    res.unmodelled |= sc.unmodelled
    # ---- SC-1
    for k, (where, what, func) in sorted(sc.conflicts.items()):
        res.bad("SC-1", k, where, what)
    homog = [s for s in sc.sites.values() if s.verdict in ("homogeneous", "relative")]
    for s in homog:
        res.ok("SC-1", s.key, nontrivial=True)
    # ---- SC-2
    nobs = 0
    for (cname, member, kind), v in sorted(sc.results.items()):
        if kind == "setter" or member.startswith("__"):
            continue
        cls = index.cls(cname)
        want = declared_degree(cls, member)
        if want is None:
            continue
        st, txt = check_degree(v, want)
        label = f"{cname}.{member}"
        if st == "noreturn":
            continue
        nobs += 1
        if st == "ok":
            res.ok("SC-2", label, sample={"observable": label, "degree": str(want), "inferred": txt} if nobs % 9 == 0 else None)
        elif st == "unknown":
            res.not_in_fragment.append(f"SC-2 {label}: degree not inferred ({txt})")
        else:
            res.bad("SC-2", label, _where(index, cname, member), f"{label} has length degree {txt}, declared {want}")
    # ---- SC-3
    nsites = 0
    for s in sorted(sc.sites.values(), key=lambda s: (s.file, s.line)):
        if s.verdict == "inhomogeneous":
            nsites += 1
            res.bad("SC-3", f"{s.func}:inhomogeneous:{s.k}:{s.c}", f"{s.file}:{s.line}",
                    f"decision `{s.text[:70]}` compares a quantity of length degree {s.k} with one of degree {s.c}: the outcome changes "
                    f"with the unit of length (the two sides scale differently)")
            continue
        if s.k is None or s.k == 0 or s.c is None:
            if s.verdict == "unknown" and s.c is not None:
                res.not_in_fragment.append(f"SC-3 {s.key}: degree of the compared quantity unknown (constant {s.c})")
            continue
        if s.verdict in ("in-band",):
            nsites += 1
            res.bad("SC-3", s.key, f"{s.file}:{s.line}",
                    f"decision `{s.text[:70]}` compares a quantity of length degree {s.k} with the absolute constant {s.c}: "
                    f"inside the band for scales 1e-3..1e3 (a clearly non-zero value is swallowed / a zero test fails)")
        elif s.verdict == "out-of-band":
            nsites += 1
            res.ok("SC-3", s.key, sample={"site": s.key, "degree": str(s.k), "constant": s.c, "verdict": "absolute-but-out-of-band"})
        elif s.verdict in ("relative",):
            nsites += 1
            res.ok("SC-3", s.key, sample={"site": s.key, "verdict": "relative part present"})
    res.extra["decision_sites"] = len(sc.sites)
    res.extra["site_verdicts"] = _count(sc)
    res.extra["observables"] = nobs
    res.notes.append(_bo_constants(index))
    if nobs < 150:
        raise AnalysisError(f"only {nobs} (class, observable) degree obligations; ~190 confirmed")
    if len(sc.sites) < 120:
        raise AnalysisError(f"only {len(sc.sites)} decision sites enumerated; 152 confirmed")
    from ..dimscan import report_translation
    report_translation(res, sc, lambda func, path: True, "all public entries")
    from ..labelrule import report as _label
    _label(res, index, lambda cls_, fn_: True)
    return res


def _count(sc):
    from collections import Counter
    return dict(Counter(s.verdict for s in sc.sites.values()))


def _where(index, cname, member):
    cls = index.cls(cname)
    m = cls.lookup(member)
    f = getattr(m, "getter", None) or m
    try:
        return f"{f.file}:{f.lineno}"
    except Exception:
        return cname


def _bo_constants(index):
    import ast
    m = index.modules.get("coxeter.extern.bentley_ottmann.poly_point_isect")
    if not m:
        return "bentley_ottmann module not found"
    out = []
    for k in ("NUM_EPS", "NUM_EPS_SQ", "USE_IGNORE_SEGMENT_ENDINGS"):
        if k in m.constants:
            try:
                out.append(f"{k}={ast.unparse(m.constants[k])}")
            except Exception:
                pass
    return "vendored Bentley-Ottmann constants (opaque module, degrees 1 and 2, out of band): " + ", ".join(out)
