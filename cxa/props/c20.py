"""C20 - exported mesh files describe exactly the polyhedron (structural part)."""

from __future__ import annotations

import ast
import re

from lark import Lark
from lark.exceptions import LarkError

from ..index import AnalysisError
from ..report import Result
from ..writers import Extractor, Field, Instance, Join, Lit, Repeat, Unsupported, all_fields, describe

EXPLANATION = (
    "Output-language extraction (abstract string builder over coxeter.io; loops become Repeat nodes, nothing runs): for "
    "OBJ, OFF, PLY, legacy-VTK and ASCII-STL the skeleton of the writer is instantiated with distinct collection sizes "
    "(|V|=5, |F|=3 with arities 3,4,5, |E|=7) and typed sample tokens and must be accepted by an independent lark grammar "
    "of the format (FMT-1); post-parse: declared counts equal the sizes of the right collections (CNT-1), OBJ indices "
    "are 1-based and all others 0-based (IDX-1), VTK's second POLYGONS number is F + sum of arities, STL has arity-2 "
    "facets per face, fan triangulation (f[0], f[i], f[i+1]) and the facet normal cross(t1-t0, t2-t1) is the right-"
    "handed normal of a counter-clockwise triangle (STL-1); no coordinate field carries a precision-losing format spec "
    "(PREC-0) and the scalar type the header declares for coordinates can hold the doubles that are written (PREC-1); "
    "X3D: coordIndex is the joined index list with a -1 inserted per face, point is the joined coordinates of the "
    "faces' vertices, elements nest IndexedFaceSet > Coordinate under the shape; HTML embeds the X3D root (X3D-1); "
    "DISP-1 Polyhedron.save maps each documented type string to the io function of the same lower-cased name, every "
    "io.to_* has a branch, anything else raises ValueError. Exporting does not change the shape: C16's Q-4. Acceptance "
    "by third-party readers of lower-case X3D element names is not decided."
)

FLOAT = r"[-+]?(?:\d+\.?\d*(?:[eE][-+]?\d+)?|\.\d+(?:[eE][-+]?\d+)?)"
GRAMMARS = {
    "to_obj": r"""
        start: line ("\n" line)*
        line: comment | vertex | face |
        comment: /#[^\n]*/
        vertex: "v" " " FLOAT " " FLOAT " " FLOAT
        face: "f" (" " INT)+
        FLOAT: /%s/
        INT: /\d+/
    """ % FLOAT,
    "to_off": r"""
        start: "OFF" "\n" (comment "\n")* counts "\n" line ("\n" line)*
        comment: /#[^\n]*/
        counts: INT " " INT " " INT
        line: vertex | face
        vertex.1: FLOAT " " FLOAT " " FLOAT
        face: INT (" " INT)+
        FLOAT: /%s/
        INT: /\d+/
    """ % FLOAT,
    "to_ply": r"""
        start: "ply" "\n" "format ascii 1.0" "\n" (comment "\n")* elemv "\n" propx "\n" propy "\n" propz "\n" elemf "\n" plist "\n" "end_header" "\n" line ("\n" line)*
        comment: /comment[^\n]*/
        elemv: "element vertex " INT
        elemf: "element face " INT
        propx: "property " TYPE " x"
        propy: "property " TYPE " y"
        propz: "property " TYPE " z"
        plist: "property list " TYPE " " TYPE " " /vertex_ind(ex|ices)/
        TYPE: /char|uchar|short|ushort|int|uint|float|double|int8|uint8|int16|uint16|int32|uint32|float32|float64/
        line: vertex | face
        vertex.1: FLOAT " " FLOAT " " FLOAT
        face: INT (" " INT)+
        FLOAT: /%s/
        INT: /\d+/
    """ % FLOAT,
    "to_vtk": r"""
        start: /# vtk DataFile Version \d+\.\d+/ "\n" TITLE "\n" "ASCII" "\n" "DATASET POLYDATA" "\n" points "\n" (vertex "\n")+ polygons ("\n" face)+
        TITLE: /[^\n]{1,256}/
        points: "POINTS " INT " " VTYPE
        VTYPE: /float|double|int|long|unsigned_int|short|char/
        polygons: "POLYGONS " INT " " INT
        vertex: FLOAT " " FLOAT " " FLOAT
        face: INT (" " INT)+
        FLOAT: /%s/
        INT: /\d+/
    """ % FLOAT,
    "to_stl": r"""
        start: "solid " NAME "\n" facet+ "endsolid " NAME
        facet: "facet normal " FLOAT " " FLOAT " " FLOAT "\n" WS? "outer loop" "\n" (WS? "vertex " FLOAT " " FLOAT " " FLOAT "\n")~3 WS? "endloop" "\n" WS? "endfacet" "\n"
        NAME: /\w+/
        WS: /[ \t]+/
        FLOAT: /%s/
    """ % FLOAT,
}
TEXT_WRITERS = ("to_obj", "to_off", "to_ply", "to_vtk", "to_stl")
ZERO_BASED = {"to_off", "to_ply", "to_vtk"}


def run(index, tier="quick", seed=0) -> Result:
    res = Result("C20", EXPLANATION)
    res.trusted_base.append("lark grammars of OBJ / OFF / PLY / legacy VTK / ASCII STL in cxa/props/c20.py")
    io = index.module("coxeter.io")
    writers = sorted(n for n in io.functions if n.startswith("to_"))
    if len(writers) < 7:
        raise AnalysisError(f"only {len(writers)} io writers (7 confirmed)")
    for name in TEXT_WRITERS:
        fn = io.functions.get(name)
        if fn is None:
            raise AnalysisError(f"anchor vanished: io.{name}")
        where = f"{fn.file}:{fn.lineno}"
        ex = Extractor(fn.node, shape_param=fn.params[0] if fn.params else "shape",
                       helpers={k_: v_.node for k_, v_ in io.functions.items() if not k_.startswith("to_")})
        try:
            skel = ex.run()
        except Unsupported as e:
            res.not_in_fragment.append(f"{name}: {e}")
            raise AnalysisError(f"io.{name}: the string builder left the supported fragment ({e})")
        if not skel:
            res.bad("FMT-1", f"{name}:empty", where, f"io.{name} writes nothing")
            continue
        # CNT-2 every element of the collection a loop ranges over is written: no data-dependent skip
        if ex.skips:
            ln, test, how = ex.skips[0]
            res.bad("CNT-2", f"{name}:skip", f"{fn.file}:{ln}", f"io.{name} leaves out elements under `{test}` ({how}): the file no longer lists every "
                    "vertex / face / facet of the polyhedron (e.g. small facets vanish under an absolute tolerance)")
        else:
            res.ok("CNT-2", name, nontrivial=False)
        inst = Instance()
        text = inst.render(skel)
        if "<?>" in text:
            # a value the string builder could not classify: no verdict (never a violation, never a pass)
            raise AnalysisError(f"io.{name}: the string builder met a formatted value it cannot classify ({[l for l in text.splitlines() if '<?>' in l][:1]})")
        res.evaluations += len(text)
        res.extra.setdefault("skeletons", {})[name] = describe(skel)[:900]
        # ------------------------------------------------ FMT-1
        tree = None
        try:
            tree = Lark(GRAMMARS[name], parser="earley", lexer="dynamic").parse(text)
            res.ok("FMT-1", name, sample={"writer": name, "sentence_head": text[:160]})
        except LarkError as e:
            msg = str(e).split("\n")[0][:160]
            line = _bad_line(text, e)
            res.bad("FMT-1", f"{name}:{_fmt_key(line)}", where, f"io.{name}: a sentence of its output language is not valid {name[3:].upper()}: {line!r} ({msg})")
        # ------------------------------------------------ PREC-0
        for f in all_fields(skel):
            if f.kind == "FLOAT" and f.fmt:
                res.bad("PREC-0", f"{name}:fmt:{f.fmt}", f"{fn.file}:{f.line}", f"io.{name} writes a coordinate with format spec '{f.fmt}': not full double precision")
            if f.kind == "UNKNOWN":
                res.not_in_fragment.append(f"{name}: unclassified field {f.info}")
        # read-back: every coordinate token, however it was produced (str, a format spec, a helper), reads back as the double
        # it was produced from - checked on one representative per spelling class
        lossy = None
        for (k_, tok_, c_, f_) in inst.fields:
            if k_ == "FLOAT" and not f_.fmt and "sample" in c_:
                try:
                    if float(tok_) != float(c_["sample"]):
                        lossy = (tok_, c_["sample"], f_)
                        break
                except ValueError:
                    pass        # not a number at all: FMT-1's business
        if lossy:
            res.bad("PREC-0", f"{name}:readback", f"{fn.file}:{lossy[2].line}", f"io.{name} writes the coordinate {lossy[1]} as `{lossy[0]}`, which does not "
                    "read back as the same double: the exported mesh is not the polyhedron to floating-point precision")
        if not any(f.kind == "FLOAT" and f.fmt for f in all_fields(skel)) and not lossy:
            res.ok("PREC-0", name)
        # ------------------------------------------------ CNT-1 / IDX-1
        lines = text.split("\n")
        nv, nf, ne, arities = inst.nv, len(inst.arities), inst.ne, inst.arities
        if name == "to_off":
            cl = next((l for l in lines[1:] if not l.startswith("#")), "")
            nums = re.findall(r"\d+", cl)
            if re.fullmatch(r"\d+ \d+ \d+", cl) and [int(x) for x in nums] == [nv, nf, ne]:
                res.ok("CNT-1", name)
            elif re.fullmatch(r"\d+ \d+ \d+", cl):
                res.bad("CNT-1", f"{name}:counts", where, f"io.to_off declares counts {nums} for |V|,|F|,|E| = {nv},{nf},{ne}")
        elif name == "to_ply":
            mv = re.search(r"element vertex (\d+)", text)
            mf = re.search(r"element face (\d+)", text)
            if mv and mf and int(mv.group(1)) == nv and int(mf.group(1)) == nf:
                res.ok("CNT-1", name)
            else:
                res.bad("CNT-1", f"{name}:counts", where, f"io.to_ply declares vertex/face counts {mv and mv.group(1)}/{mf and mf.group(1)} for {nv}/{nf}")
        elif name == "to_vtk":
            mp = re.search(r"POINTS (\d+)", text)
            mg = re.search(r"POLYGONS (\d+) (\d+)", text)
            if mp and mg and int(mp.group(1)) == nv and int(mg.group(1)) == nf and int(mg.group(2)) == nf + sum(arities):
                res.ok("CNT-1", name)
            else:
                res.bad("CNT-1", f"{name}:counts", where, f"io.to_vtk declares POINTS {mp and mp.group(1)} / POLYGONS {mg and mg.groups()} for "
                        f"|V|={nv}, |F|={nf}, F + sum(arity) = {nf + sum(arities)}")
        if name != "to_stl":
            idx = [int(s) for (k, s, c, f) in inst.fields if k == "INDEX"]
            ar = [(int(s), c.get("arity")) for (k, s, c, f) in inst.fields if k == "ARITY"]
            if not idx:
                res.bad("IDX-1", f"{name}:none", where, f"io.{name} writes no vertex indices")
            elif name == "to_obj":
                if min(idx) == 1 and max(idx) == nv:
                    res.ok("IDX-1", name, sample={"writer": name, "index_base": 1})
                else:
                    res.bad("IDX-1", f"{name}:base", where, f"io.to_obj writes indices {min(idx)}..{max(idx)} for {nv} vertices: OBJ is 1-based")
            else:
                if min(idx) == 0 and max(idx) == nv - 1:
                    res.ok("IDX-1", name, sample={"writer": name, "index_base": 0})
                else:
                    res.bad("IDX-1", f"{name}:base", where, f"io.{name} writes indices {min(idx)}..{max(idx)} for {nv} vertices: {name[3:].upper()} is 0-based")
                if len(ar) != nf or any(a != b for a, b in ar):
                    res.bad("CNT-1", f"{name}:arity", where, f"io.{name}: face lines do not start with the number of their vertices")
            # every face line lists all its indices
            joins = [p for p in _walk(skel) if isinstance(p, Join) and p.over == "face"]
            if not joins:
                raise AnalysisError(f"IDX-1: io.{name} writes its face lines in a form the string builder does not recognise as a join over the face's indices")
        # ------------------------------------------------ PREC-1 declared scalar type
        if name == "to_ply":
            types = re.findall(r"property (\w+) [xyz]\n", text)
            if types and all(t in ("double", "float64") for t in types):
                res.ok("PREC-1", name)
            elif types:
                res.bad("PREC-1", f"{name}:{'/'.join(sorted(set(types)))}", where, f"io.to_ply declares coordinates as `property {types[0]}` but writes full-precision "
                        f"doubles: a conformant reader stores 32-bit values (read-back off by ~1e-8 relative)")
        if name == "to_vtk":
            m = re.search(r"POINTS \d+ (\w+)", text)
            if m and m.group(1) == "double":
                res.ok("PREC-1", name)
            elif m:
                res.bad("PREC-1", f"{name}:{m.group(1)}", where, f"io.to_vtk declares `POINTS n {m.group(1)}` but writes full-precision doubles")
        # ------------------------------------------------ STL-1
        if name == "to_stl":
            nfac = text.count("facet normal")
            want = sum(a - 2 for a in arities)
            probs = []
            if nfac != want:
                probs.append(f"{nfac} facets for faces of arity {arities} (expected {want} = sum(arity - 2))")
            fan = ex.fan
            if not fan:
                probs.append("fan triangulation [[vs[f[0]], vs[b], vs[c]] for b, c in zip(f[1:], f[2:])] not recognised")
            else:
                t = fan["targets"]
                okfan = len(t) == 2 and fan["lowers"] == [1, 2] and fan["rows"] == [("face", 0), ("target", 0), ("target", 1)]
                if not okfan:
                    probs.append(f"triangles are not the fan (f[0], f[i], f[i+1]): zip{fan['zip']} -> {fan['elts']}")
            if ex.cross is None:
                probs.append("facet normal is not computed by a cross product of triangle edges")
            else:
                z = _cross_orientation(ex.cross)
                if z is None:
                    res.not_in_fragment.append("STL-1: cross product operands not recognised")
                elif z <= 0:
                    probs.append("facet normal cross(...) points against the right-hand rule of the triangle's vertex order")
            # the shift to positive coordinates must not reach the caller's shape (effect analysis of C16 Q-4)
            from .c16 import _check_query
            from ..values import ObjRef, Val, TOP
            tmp = Result("C16", "", register=False)
            for cname in ("Polyhedron", "ConvexPolyhedron"):
                c = index.cls(cname)
                _check_query(tmp, index, c, f"io.to_stl[{cname}]", fn, None, set(), {"_vertices", "_faces", "_equations"},
                             args={"shape": Val(kind="obj", obj=ObjRef(c, "self"), dim=TOP)}, rule_prefix="Q-4")
            if tmp.findings:
                probs.append("shape is modified without a deepcopy (" + tmp.findings[0].what[:120] + ")")
            if probs:
                res.bad("STL-1", "to_stl:" + _fmt_key(probs[0]), where, "io.to_stl: " + "; ".join(probs))
            else:
                res.ok("STL-1", "to_stl", sample={"facets": nfac, "fan": fan["elts"]})
    _x3d(res, io)
    _dispatch(res, index, writers)
    from ..parallel import report as _copy1
    _copy1(res, index, lambda f: f['module'] == 'coxeter.io')
    _mean2(res, index, io)
    return res


def _mean2(res, index, io):
    """MEAN-2: a writer records the shape as it is: no decision it takes and nothing it writes depends on the unweighted mean of
    the vertices (a test of a facet against the vertex mean re-decides the orientation the shape stores, and is right only for
    solids that are star-shaped about that point)."""
    from ..interp import Interp
    from ..values import ObjRef, Val
    n = 0
    for name in TEXT_WRITERS:
        fn = io.functions.get(name)
        if fn is None or not fn.params:
            continue
        for cname in ("Polyhedron", "ConvexPolyhedron"):
            it = Interp(index)
            shape = Val(kind="obj", obj=ObjRef(index.cls(cname), "shape"), dim=("TOP",))
            try:
                r = it.run_entry(fn, None, args={fn.params[0]: shape})
            except RecursionError:
                continue
            n += 1
            hits = [e for e in r["events"] if e.func is fn and ((e.type == "cmp" and any(d[0] == "vertex-mean" for v_ in (e.left, e.right) if v_ is not None for d in v_.deps))
                                                            or (e.type == "filewrite" and any(d[0] == "vertex-mean" for a_ in (e.f.get("args") or ()) for d in a_.deps)))]
            k = f"io.{name}[{cname}]"
            if hits:
                e = hits[0]
                res.bad("MEAN-2", f"io.{name}:vertex-mean", e.where(), f"io.{name} {'decides' if e.type == 'cmp' else 'writes'} `{e.src()[:60]}` from the unweighted mean of the "
                        "vertices: facets of a non-convex solid that face a concavity lie on the far side of that point although they are oriented correctly, "
                        "so the file no longer describes the stored surface")
                break
            res.ok("MEAN-2", k, nontrivial=False)
    if n < 8:
        raise AnalysisError(f"MEAN-2: only {n} (writer, class) runs completed (10 confirmed)")


def _walk(parts):
    for p in parts:
        yield p
        if isinstance(p, (Join, Repeat)):
            yield from _walk(p.body)


def _bad_line(text, e):
    ln = getattr(e, "line", None)
    lines = text.split("\n")
    if ln and 1 <= ln <= len(lines):
        return lines[ln - 1]
    return lines[0]


def _fmt_key(line):
    # semantic key of a malformed line: its token classes
    return re.sub(r"\d+(\.\d+)?(e[-+]?\d+)?", "N", line.strip())[:40]


def _cross_orientation(call: ast.Call):
    pts = {0: (0.0, 0.0, 0.0), 1: (1.0, 0.0, 0.0), 2: (0.0, 1.0, 0.0)}

    def vec(n):
        if isinstance(n, ast.Subscript):
            try:
                k = ast.literal_eval(n.slice)
                return pts.get(k)
            except Exception:
                return None
        if isinstance(n, ast.BinOp) and isinstance(n.op, ast.Sub):
            a, b = vec(n.left), vec(n.right)
            if a and b:
                return tuple(x - y for x, y in zip(a, b))
        if isinstance(n, ast.UnaryOp) and isinstance(n.op, ast.USub):
            a = vec(n.operand)
            return tuple(-x for x in a) if a else None
        return None

    if len(call.args) < 2:
        return None
    a, b = vec(call.args[0]), vec(call.args[1])
    if not a or not b:
        return None
    return a[0] * b[1] - a[1] * b[0]


def _x3d(res, io):
    """X3D-1, recognise-then-judge: a construct that is recognised and wrong (missing element / attribute, wrong parent,
    separator other than -1, X3D root not embedded, no doctype) is a violation; a formulation the recogniser does not
    know is an analysis error (exit 2), never a violation and never a silent pass.  Variable names carry no meaning:
    elements are identified by their tag, lists by the variable that flows into the attribute."""
    fn = io.functions.get("to_x3d")
    hn = io.functions.get("to_html")
    if fn is None or hn is None:
        raise AnalysisError("anchor vanished: io.to_x3d / io.to_html")
    where = f"{fn.file}:{fn.lineno}"
    src = ast.unparse(fn.node)
    wrong, unknown = [], []
    # element tree nesting (by dataflow of the element variables)
    parent, tag, attrib = {}, {}, {}
    anon = []
    for n in ast.walk(fn.node):
        call = None
        target = None
        if isinstance(n, ast.Assign) and isinstance(n.targets[0], ast.Name) and isinstance(n.value, ast.Call):
            call, target = n.value, n.targets[0].id
        elif isinstance(n, ast.Expr) and isinstance(n.value, ast.Call):
            call = n.value
        if call is None:
            continue
        f = ast.unparse(call.func)
        if f.endswith("SubElement") and len(call.args) >= 2 and isinstance(call.args[1], ast.Constant):
            key = target or f"<anon{len(anon)}>"
            anon.append(key)
            parent[key] = ast.unparse(call.args[0])
            tag[key] = str(call.args[1].value)
        elif f.endswith(".Element") and call.args and isinstance(call.args[0], ast.Constant) and target:
            key = target
            tag[key] = str(call.args[0].value)
        else:
            continue
        for kw in call.keywords:
            if kw.arg == "attrib" and isinstance(kw.value, ast.Dict):
                attrib[key] = {k.value: v for k, v in zip(kw.value.keys, kw.value.values) if isinstance(k, ast.Constant)}
    by_tag = {}
    for k, t in tag.items():
        by_tag.setdefault(t.lower(), []).append(k)
    ifs, shp, crd = by_tag.get("indexedfaceset", []), by_tag.get("shape", []), by_tag.get("coordinate", [])
    if not ifs:
        wrong.append("no IndexedFaceSet element is created")
    elif not shp or parent.get(ifs[0]) != shp[0]:
        wrong.append("IndexedFaceSet is not a child of the shape element")
    if not crd:
        wrong.append("no Coordinate element is created")
    elif ifs and parent.get(crd[0]) != ifs[0]:
        wrong.append("Coordinate is not a child of IndexedFaceSet")

    def joined_list(expr):
        """' '.join([str(x) for x in L]) / ' '.join(str(x) for x in L) / ' '.join(map(str, L))  ->  name of L"""
        t = ast.unparse(expr)
        m_ = re.fullmatch(r"' '\.join\(\[?str\((\w+)\) for \1 in (\w+)\]?\)", t) or re.fullmatch(r"' '\.join\(map\(str, (\w+)\)\)", t)
        return m_.group(m_.lastindex) if m_ else None

    if ifs and not wrong:
        a_ = attrib.get(ifs[0], {})
        if "coordIndex" not in a_:
            wrong.append("IndexedFaceSet has no coordIndex attribute")
        else:
            lst = joined_list(a_["coordIndex"])
            if lst is None:
                unknown.append("coordIndex value is not a recognised space-joined list")
            else:
                inserts = [c for n in ast.walk(fn.node) if isinstance(n, ast.For) and ast.unparse(n.iter).endswith(".faces")
                           for c in ast.walk(n) if isinstance(c, ast.Call) and ast.unparse(c.func) == f"{lst}.insert" and len(c.args) == 2]
                face_loops = [n for n in ast.walk(fn.node) if isinstance(n, ast.For) and ast.unparse(n.iter).endswith(".faces")]
                appends = [c for n in face_loops for c in ast.walk(n) if isinstance(c, ast.Call) and ast.unparse(c.func) == f"{lst}.append"
                           and len(c.args) == 1 and isinstance(c.args[0], (ast.Constant, ast.UnaryOp))]
                extends = [c for n in face_loops for c in ast.walk(n) if isinstance(c, ast.Call) and ast.unparse(c.func) == f"{lst}.extend"
                           and len(c.args) == 1 and isinstance(c.args[0], ast.Call) and ast.unparse(c.args[0].func) == "range"]
                if not inserts and appends and extends and re.search(rf"{lst} = \[\]", src):
                    # second idiom: per face  L.extend(range(k, k + len(f))); L.append(-1); k += len(f)
                    rng = extends[0].args[0]
                    fvar = face_loops[0].target.id if isinstance(face_loops[0].target, ast.Name) else None
                    if any(ast.unparse(c.args[0]) != "-1" for c in appends):
                        wrong.append(f"the face separator appended to coordIndex is {ast.unparse(appends[0].args[0])}, not -1")
                    if not (len(rng.args) == 2 and ast.unparse(rng.args[1]).replace(" ", "") in
                            (f"{ast.unparse(rng.args[0])}+len({fvar})", f"len({fvar})+{ast.unparse(rng.args[0])}")):
                        unknown.append("index run of a face not recognised")
                    else:
                        k_ = ast.unparse(rng.args[0])
                        if not any(isinstance(a_, ast.AugAssign) and isinstance(a_.op, ast.Add) and ast.unparse(a_.target) == k_
                                   and ast.unparse(a_.value).replace(" ", "") == f"len({fvar})" for n in face_loops for a_ in ast.walk(n)):
                            unknown.append("advance of the running point index not recognised")
                elif not inserts:
                    if re.search(rf"{lst}\.(append|extend)\(", src) or not re.search(rf"{lst} = list\(range\(", src):
                        unknown.append("construction of the index list not recognised")
                    else:
                        wrong.append("no `-1` separator is inserted into the index list once per face")
                elif any(ast.unparse(c.args[1]) != "-1" for c in inserts):
                    wrong.append(f"the face separator inserted into coordIndex is {ast.unparse(inserts[0].args[1])}, not -1")
                tot = re.search(rf"{lst} = list\(range\(sum\(\[?len\((\w+)\) for \1 in \w+\.faces\]?\)\)\)", src)
                if not tot and not unknown and inserts:
                    unknown.append("the index list is not recognised as enumerating sum(arity) points")
    if crd and not wrong:
        a_ = attrib.get(crd[0], {})
        if "point" not in a_:
            wrong.append("Coordinate has no point attribute")
        else:
            lst = joined_list(a_["point"])
            if lst is None:
                unknown.append("point value is not a recognised space-joined list")
            else:
                pd = re.search(rf"{lst} = \[(\w+) for (\w+) in \w+\.faces for (\w+) in \2 for \1 in \w+\.vertices\[\3\]\]", src)
                if not pd:
                    unknown.append("construction of the point list not recognised")
    if not re.search(r"\.write\(\s*filename", src):
        wrong.append("the tree is not written to the file")
    if wrong:
        res.bad("X3D-1", "to_x3d:" + _fmt_key(wrong[0]), where, "io.to_x3d: " + "; ".join(wrong))
    elif unknown:
        raise AnalysisError("io.to_x3d left the recognised fragment: " + "; ".join(unknown))
    else:
        res.ok("X3D-1", "to_x3d", sample={"elements": tag})
    # ---- to_html
    hs = ast.unparse(hn.node)
    hwrong = []
    sp = hn.params
    calls = [c for c in ast.walk(hn.node) if isinstance(c, ast.Call) and ast.unparse(c.func) in ("to_x3d",)]
    if not calls or [ast.unparse(a_) for a_ in calls[0].args][:1] != sp[:1]:
        hwrong.append("does not build the X3D of the shape")
    if ".getroot()" not in hs or not re.search(r"\.(append|insert|extend)\(", hs):
        hwrong.append("does not embed the X3D root element")
    if "<!DOCTYPE html>" not in hs:
        hwrong.append("does not write the html doctype")
    html_roots = [k.targets[0].id for k in ast.walk(hn.node) if isinstance(k, ast.Assign) and isinstance(k.targets[0], ast.Name)
                  and isinstance(k.value, ast.Call) and ast.unparse(k.value.func).endswith(".Element") and k.value.args
                  and isinstance(k.value.args[0], ast.Constant) and str(k.value.args[0].value).lower() == "html"]
    if not html_roots:
        hwrong.append("creates no html root element")
    elif not re.search(rf"tostring\(\s*{html_roots[0]}\b", hs) and not re.search(rf"ElementTree\({html_roots[0]}\)\.write", hs):
        if hwrong:
            pass
        else:
            raise AnalysisError("io.to_html: serialisation of the html root not recognised")
    if hwrong:
        res.bad("X3D-1", "to_html:" + _fmt_key(hwrong[0]), f"{hn.file}:{hn.lineno}", "io.to_html " + "; ".join(hwrong))
    else:
        res.ok("X3D-1", "to_html")


def _dispatch(res, index, writers):
    """DISP-1 decided on the abstract run of Polyhedron.save with the filetype bound to each documented string (branches
    folded on the constant; the io writers opaque): exactly one writer is called, the one of the same lower-cased name,
    with (self, filename); an undocumented string reaches no writer and raises ValueError.  The shape of the dispatch
    (if/elif chain, table, loop over pairs) is free."""
    from ..interp import Interp
    from ..values import vconst
    cls = index.cls("Polyhedron")
    fn = cls.methods.get("save")
    if fn is None:
        raise AnalysisError("anchor vanished: Polyhedron.save")
    where = f"{fn.file}:{fn.lineno}"
    doc = fn.docstring()
    m = re.search(r"one of the following:\s*([A-Z0-9, \n]+)\.", doc)
    documented = sorted(x.strip() for x in m.group(1).replace("\n", " ").split(",")) if m else []
    if len(documented) < 7:
        raise AnalysisError(f"Polyhedron.save documents only {documented} (7 file types confirmed)")
    if len(fn.params) < 3:
        raise AnalysisError("Polyhedron.save no longer takes (filetype, filename)")
    tparam, fparam = fn.params[1], fn.params[2]

    def dispatch(value):
        it = Interp(index, config={"fold_branches": True, "opaque_functions": tuple(writers)})
        r = it.run_entry(fn, cls, args={tparam: vconst(value)})
        calls = [e for e in r["events"] if e.type == "opaque-call"]
        return r, calls

    covered = set()
    for ty in documented:
        k = f"save:{ty}"
        want = f"to_{ty.lower()}"
        r, calls = dispatch(ty)
        names = [c.callee.name for c in calls]
        good = len(calls) == 1 and names[0] == want and len(calls[0].args) >= 2 and calls[0].args[0].obj is not None \
            and calls[0].args[0].obj.oid == "self" and calls[0].args[1].pdeps == {fparam} and bool(r["returns"])
        if good:
            covered.add(want)
            res.ok("DISP-1", k)
        else:
            res.bad("DISP-1", k, where, f"Polyhedron.save('{ty}') calls {names or 'no writer'}, expected io.{want}(self, {fparam})"
                    + ("" if r["returns"] else " and a normal return"))
    for w in writers:
        if w not in covered and w[3:].upper() not in documented:
            res.bad("DISP-1", f"save:missing:{w}", where, f"Polyhedron.save does not document / dispatch io.{w}")
    res.ok("DISP-1", "save:doc")
    r, calls = dispatch("no such file type")
    raised = sorted({x[0] for x in r["raises"]})
    if not calls and not r["returns"] and raised == ["ValueError"]:
        res.ok("DISP-1", "save:else")
    else:
        res.bad("DISP-1", "save:else", where, f"Polyhedron.save: an unknown filetype must raise ValueError (calls {[c.callee.name for c in calls]}, "
                f"raises {raised}, returns normally: {bool(r['returns'])})")
