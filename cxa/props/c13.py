"""C13 - bounding, bounded, circum- and in-spheres/circles satisfy their definitions (structural part)."""

from __future__ import annotations

import ast
import re

from ..algebra import Poly
from ..degrees import check_degree
from ..dimscan import scan
from ..index import AnalysisError, FuncInfo, PropInfo
from ..interp import Interp
from ..report import Result
from ..values import D, dim_collapse

EXPLANATION = (
    "Sibling / interface conformance of the ball properties: API-1 every ball property defined in a concrete class is "
    "one of the names declared by Shape2D/Shape3D, one of circum*/in* (documented), or a deprecated alias that warns "
    "and delegates to a declared name; every curved class overrides all four declared balls; API-2 each <ball>_radius "
    "getter returns .radius of the same-named ball (the setter pair is C08's SET-1); EXT-1 for curved shapes minimal_* "
    "takes max and maximal_* takes min over all semi-axes (or the radius) and is centred at the centroid; CEN-1 centred "
    "balls of polytopes are centred at self.center with radius max ||v - center|| resp. -max(signed plane distance) / "
    "min(edge distance); EX-1 the least-squares existence test is guarded by len(vertices) > d+1 (d = dimension of the "
    "base class) and raises RuntimeError; EX-2 that residual test is scale-robust (C09's band rule on these four sites); "
    "DEG radii are lengths and centres are positions. Minimality of the miniball result and tangency for arbitrary "
    "inputs are numerical and not decided."
)

DECL_RE = re.compile(r"^(minimal|maximal)_(centered_)?(bounding|bounded)_(circle|sphere)$")
BALLISH = re.compile(r"(circle|sphere)(_from_center)?$")
DOCUMENTED_EXTRA = {"circumsphere", "insphere", "circumcircle", "incircle"}
CURVED = ("Circle", "Ellipse", "Sphere", "Ellipsoid")


def run(index, tier="quick", seed=0) -> Result:
    res = Result("C13", EXPLANATION)
    pending_ae = []
    declared = {}
    for base in ("Shape2D", "Shape3D"):
        b = index.cls(base)
        declared[base] = {n for n in b.props if DECL_RE.match(n)}
    if len(declared["Shape2D"]) != 4 or len(declared["Shape3D"]) != 4:
        raise AnalysisError(f"declared ball names changed: {declared}")
    nballs = 0
    for cls in index.shape_classes():
        base = "Shape2D" if cls.is_subclass_of("Shape2D") else "Shape3D"
        decl = declared[base]
        # ------------------------------------------------------------ API-1
        for c in cls.mro:
            if c.name in ("Shape", "Shape2D", "Shape3D") or c is not cls:
                continue
            for name, p in c.props.items():
                if not BALLISH.search(name) or name.endswith("_radius"):
                    continue
                nballs += 1
                k = f"{cls.name}.{name}"
                if name in decl or name in DOCUMENTED_EXTRA:
                    res.ok("API-1", k)
                    continue
                # deprecated alias?
                src = ast.unparse(p.getter.node)
                from ..astutil import returns as _returns
                targets = {rv.attr for (_r, rv) in _returns(p.getter.node)
                           if isinstance(rv, ast.Attribute) and isinstance(rv.value, ast.Name) and rv.value.id == "self"}
                if "DeprecationWarning" in src and len(targets) == 1 and (next(iter(targets)) in decl):
                    res.ok("API-1", k, sample={"alias": k, "delegates_to": next(iter(targets))})
                else:
                    res.bad("API-1", k, f"{p.getter.file}:{p.getter.lineno}",
                            f"{k} is not one of the ball properties declared by {base} ({sorted(decl)}) nor a deprecated alias: "
                            f"the declared property of that role stays unimplemented")
        if cls.name in CURVED:
            for name in sorted(decl):
                p = index.effective_prop(cls, name)
                k = f"{cls.name}.{name}:override"
                if p is None or p.cls.name in ("Shape2D", "Shape3D"):
                    res.bad("API-1", k, f"{cls.module.relpath}:{cls.node.lineno}", f"{cls.name} does not implement {name} (raises NotImplementedError)")
                else:
                    res.ok("API-1", k)
    # ---------------------------------------------------------------- API-2 radius getters
    npairs = 0
    for cname in ("Shape2D", "Shape3D", "Polygon", "Polyhedron"):
        c = index.cls(cname)
        for name, p in c.props.items():
            if not name.endswith("_radius") or p.getter is None:
                continue
            ball = name[: -len("_radius")]
            npairs += 1
            k = f"{cname}.{name}"
            # resolve on a class that implements the ball: the value must be ._radius of the object that the
            # same-named ball getter returned
            host = {"Shape2D": "Circle", "Shape3D": "Sphere"}.get(cname, cname)
            it0 = Interp(index)
            r0 = it0.run_entry(p.getter, index.cls(host))
            oids = {e.value.obj.oid for e in r0["events"] if e.type == "leave" and e.role == ("getter", ball)
                    and e.value is not None and e.value.obj is not None and len(e.path) == 1}
            val = r0["result"]
            ok = bool(oids) and val is not None and any((o, "_radius") in val.deps for o in oids) \
                and dim_collapse(val.dim) == D(1)
            if ok:
                res.ok("API-2", k)
            else:
                res.bad("API-2", k, f"{p.getter.file}:{p.getter.lineno}", f"{k} does not return self.{ball}.radius")
            if p.setter is None:
                res.bad("API-2", k + ":setter", f"{p.getter.file}:{p.getter.lineno}", f"{k} has no setter")
    if npairs < 12:
        raise AnalysisError(f"only {npairs} <ball>_radius pairs (12 confirmed)")
    # ---------------------------------------------------------------- EXT-1 / CEN-1 / DEG via construct events
    sc = scan(index)
    for cls in index.shape_classes():
        base = "Shape2D" if cls.is_subclass_of("Shape2D") else "Shape3D"
        for name in sorted(declared[base] | DOCUMENTED_EXTRA):
            p = index.effective_prop(cls, name)
            if p is None or p.getter is None or p.cls.name in ("Shape2D", "Shape3D"):
                continue
            it = Interp(index)
            r = it.run_entry(p.getter, cls)
            if not r["returns"]:
                continue
            k = f"{cls.name}.{name}"
            cons = [e for e in r["events"] if e.type == "construct" and e.cls.name in ("Circle", "Sphere") and len(e.path) == 1]
            if not cons:
                res.not_in_fragment.append(f"ball {k}: constructor call not found")
                continue
            e = cons[-1]
            args = list(e.args) + [None, None]
            rad = e.kwargs.get("radius", args[0])
            cen = e.kwargs.get("center", args[1])
            where = e.where()
            # DEG
            for what, v, want in (("radius", rad, 1), ("center", cen, 1)):
                if v is None:
                    res.bad("DEG", f"{k}:{what}:missing", where, f"{k} builds its ball without a {what}")
                    continue
                st, txt = check_degree(v, want)
                if st == "bad":
                    res.bad("DEG", f"{k}:{what}", where, f"{k}: ball {what} has length degree {txt}, expected 1")
                elif st == "ok":
                    res.ok("DEG", f"{k}:{what}")
            if rad is None or cen is None:
                continue
            if cls.name in CURVED and name in declared[base]:
                axes = {"Circle": {"_radius"}, "Sphere": {"_radius"}, "Ellipse": {"_a", "_b"}, "Ellipsoid": {"_a", "_b", "_c"}}[cls.name]
                got = {a for (o, a) in rad.deps if o == "self"}
                want_fn = "max" if name.startswith("minimal") else "min"
                ok = got == axes
                if len(axes) > 1:
                    ok = ok and bool(rad.extra) and rad.extra[0] == want_fn and len(rad.extra[1]) == len(axes)
                else:
                    ok = ok and rad.sym == Poly.atom("self._radius")
                cen_ok = {a for (o, a) in cen.deps if o == "self"} == {"_centroid"}
                if ok and cen_ok:
                    res.ok("EXT-1", k, sample={"ball": k, "radius": f"{want_fn} over {sorted(axes)}" if len(axes) > 1 else "radius"})
                elif not ok:
                    res.bad("EXT-1", k, where, f"{k}: radius must be {want_fn}() over all of {sorted(axes)}; found {rad.extra[0] if rad.extra else 'expr'} over {sorted(got)}")
                else:
                    res.bad("EXT-1", k + ":center", where, f"{k}: ball is not centred at the shape's centroid")
            elif "centered" in name:
                centred = any(isinstance(t, tuple) and t[0] == "getter" and t[1] in ("center", "centroid") for t in cen.tags)
                reds = [x for x in r["events"] if x.type == "reduce" and len(x.path) == 1]
                fns = [x.fn for x in reds]
                def _len_like(x):
                    # a distance or a squared distance (the root is monotonic: max / min commute with it)
                    return bool(x.target.tags & {"norm", "sumsq"})

                def _pp(x):
                    return any(isinstance(t, tuple) and t == ("ret", "_point_plane_distances") for t in x.target.tags)
                if name.startswith("minimal"):
                    shape_ok = any(x.fn in ("max", "amax") and _len_like(x) for x in reds)
                    wrong = any(x.fn in ("min", "amin", "mean", "average") and _len_like(x) for x in reds) and not shape_ok
                    descr = "max of ||v - center||"
                else:
                    shape_ok = any(x.fn in ("max", "amax") and _pp(x) and "negated" not in x.target.tags for x in reds) \
                        or any(x.fn in ("min", "amin") and _pp(x) and "negated" in x.target.tags for x in reds) \
                        or any(x.fn in ("min", "amin") and _len_like(x) for x in reds)
                    wrong = (any(x.fn in ("max", "amax", "mean", "average") and _len_like(x) for x in reds)
                             or any(x.fn in ("min", "amin") and _pp(x) and "negated" not in x.target.tags for x in reds)) and not shape_ok
                    descr = "-max(signed plane distances) or min(edge distances)"
                if centred and shape_ok:
                    res.ok("CEN-1", k, sample={"ball": k, "radius": descr})
                elif not centred:
                    res.bad("CEN-1", k + ":center", where, f"{k}: a centred ball must be constructed about self.center / self.centroid")
                elif wrong:
                    res.bad("CEN-1", k + ":radius", where, f"{k}: radius is not {descr} (reductions found: {fns})")
                else:
                    pending_ae.append(f"CEN-1: the radius of {k} is computed in a form the analysis does not recognise (reductions found: {fns})")
    # ---------------------------------------------------------------- EX-1 / EX-2
    nex = 0
    for cname, member, dim in (("Polygon", "circumcircle", 2), ("Polygon", "incircle", 2), ("Polyhedron", "circumsphere", 3), ("Polyhedron", "insphere", 3)):
        fn = index.effective_prop(index.cls(cname), member).getter
        k = f"{cname}.{member}"
        # decided on the events of the abstract run: the comparison of len(<vertex data>) with a constant (wherever it is
        # written: in the `if`, in a local first) and the exceptions the getter can raise
        it_ = Interp(index)
        r_ = it_.run_entry(fn, index.cls(cname))
        lens = [e for e in r_["events"] if e.type == "cmp" and e.form == "compare" and e.left is not None
                and (e.func is fn or (e.func is not None and e.func.name.startswith("_") and len(e.path) == 2))     # also in a shared private helper
                and e.left.extra and isinstance(e.left.extra, tuple) and e.left.extra[0] == "len" and e.right is not None
                and e.right.is_number_const() and e.op in ("Gt", "GtE", "Lt", "LtE")]
        raised = sorted({x[0] for x in r_["raises"]})
        if lens:
            nex += 1
            e = lens[0]
            kconst = e.right.const
            # the smallest count for which a non-zero residual raises, found by folding the guard of the raise (so that
            # `n > 3 and not close`, `not (n <= 3 or close)`, a guard bound to a local first ... are all read the same way)
            thr = _guard_threshold(e.func.node, e.node, kconst)
            if thr is None:
                if e.op in ("Gt", "GtE"):
                    thr = kconst if e.op == "Gt" else kconst - 1
                else:
                    raise AnalysisError(f"EX-1: the vertex-count guard of {k} is not recognised")
            # the counted array: the vertex array itself, or an array with a known row offset from it (vertices[1:] ...)
            counted = e.left.extra[1]
            offs = [t[2] for t in (counted.tags if counted is not None else ()) if isinstance(t, tuple) and t[0] == "rows-of" and t[1] == "_vertices"]
            if len(offs) != 1:
                raise AnalysisError(f"EX-1: {k} counts `{e.src()[:40]}`, whose length is not related to the number of vertices in a recognised way")
            thr = thr - offs[0]          # threshold expressed in the number of vertices
            if thr != dim + 1:
                res.bad("EX-1", k + ":guard", e.where(),
                        f"{k}: the residual test (`{e.src()[:40]}`) is applied only for more than {thr} vertices; the system is "
                        f"overdetermined from {dim + 2} vertices on, so a shape with {dim + 2} vertices gets a ball that violates the definition")
            elif "RuntimeError" not in raised:
                res.bad("EX-1", k + ":exc", e.where(), f"{k} raises {raised or 'nothing'}, not RuntimeError, when no ball exists")
            else:
                res.ok("EX-1", k, sample={"existence_guard": k, "vertices_more_than": thr})
        elif "RuntimeError" not in raised:
            res.bad("EX-1", k + ":missing", f"{fn.file}:{fn.lineno}", f"{k}: no residual-based existence test (the getter can never raise RuntimeError: "
                    "a ball is returned whether or not one exists)")
        else:
            raise AnalysisError(f"EX-1: the vertex-count guard of {k} is not recognised")
        for s in sc.sites.values():
            if (s.func == f"{cname}.{member}" or s.key.startswith(f"{cname}.{member}:")) and s.form in ("isclose", "allclose"):
                if s.verdict == "in-band":
                    res.bad("EX-2", s.key, f"{s.file}:{s.line}", f"{k}: existence decided by `{s.text}` on a residual of length degree {s.k} "
                            f"with the absolute tolerance {s.c}: at small scale a ball is returned that violates the definition")
                elif s.verdict in ("relative", "out-of-band", "dimensionless"):
                    res.ok("EX-2", s.key)
    if nballs < 20:
        raise AnalysisError(f"only {nballs} ball properties enumerated (>= 20 confirmed)")
    from ..parallel import report as _copy1
    from ..frame3 import check as _frame3
    for cn_ in ("Polygon", "ConvexPolygon", "ConvexSpheropolygon"):
        _frame3(res, index, cn_, ("minimal_bounding_circle", "minimal_centered_bounding_circle", "maximal_bounded_circle", "maximal_centered_bounded_circle",
                                  "circumcircle", "incircle", "bounding_circle", "incircle_from_center", "circumcircle_radius", "incircle_radius"))
    _copy1(res, index, lambda f: f['top'] in ('circumsphere', 'insphere', 'circumcircle', 'incircle', 'minimal_bounding_sphere', 'minimal_bounding_circle', 'minimal_centered_bounding_circle', 'maximal_centered_bounded_circle', 'minimal_centered_bounding_sphere', 'maximal_centered_bounded_sphere'))
    _undo(res, index)
    # FRAME-2: the ball members of the planar classes never take fixed world coordinate columns of points / edge vectors
    from ..frame2 import check as _frame2
    for cn_ in ("ConvexPolygon", "Polygon"):
        _frame2(res, index, cn_, ("minimal_centered_bounding_circle", "maximal_centered_bounded_circle", "minimal_bounding_circle", "circumcircle", "incircle",
                                  "incircle_from_center"))
    if pending_ae and not res.findings:
        raise AnalysisError("; ".join(pending_ae[:2]))
    res.not_in_fragment.extend(pending_ae)
    from ..dimscan import report_translation
    _balls = ("circumsphere", "insphere", "circumcircle", "incircle", "minimal_bounding_sphere", "minimal_bounding_circle", "minimal_centered_bounding_circle", "maximal_centered_bounded_circle", "minimal_centered_bounding_sphere", "maximal_centered_bounded_sphere", "maximal_bounded_circle", "maximal_bounded_sphere")
    report_translation(res, sc, lambda func, path: any(p_.split(".")[-1] in _balls for p_ in path[:1]) or func.split(".")[-1] in _balls,
                       "ball properties")
    # FRAME-4: the centre of a ball computed in the plane frame comes back to the world frame completely: the in-plane part through
    # the rows of the rotation AND the distance of the plane from the origin (typing: cxa/npmodel.rot_frame)
    from ..npmodel import PLANE_OFFSET_DROPPED
    for (cn_, member_, built_, args_, kwargs_, e_) in sc.constructs:
        if built_ == "Circle" and member_ in _balls and cn_ in ("Polygon", "ConvexPolygon", "ConvexSpheropolygon"):
            cen_ = args_[1] if len(args_) > 1 else kwargs_.get("center")
            if cen_ is not None and PLANE_OFFSET_DROPPED in cen_.deps:
                res.bad("FRAME-4", f"{cn_}.{member_}:centre:plane-offset", e_.where(), f"{cn_}.{member_}: the centre is found from in-plane coordinates and taken back "
                        "with the first two rows of the alignment rotation only: its component along the normal (the distance of the polygon's plane from "
                        "the origin) is lost, so the circle lies in the parallel plane through the origin")
    # TR-2: a ball is built with a translation-invariant radius and a centre that moves with the shape
    from ..trans import tr_of
    for (cn_, member_, built_, args_, kwargs_, e_) in sc.constructs:
        if built_ in ("Sphere", "Circle") and member_ in _balls and args_:
            rt = tr_of(args_[0])
            ct = tr_of(args_[1]) if len(args_) > 1 else tr_of(kwargs_.get("center"))
            k_ = f"{cn_}.{member_}:ball"
            if rt in ("T1", "TA", "TX", "MIX"):
                res.bad("TR-2", k_ + ":radius:" + rt, e_.where(), f"{cn_}.{member_}: the radius of the returned ball depends on where the origin is "
                        "(it changes when the shape is translated)")
            elif ct in ("TA", "TX", "MIX"):
                res.bad("TR-2", k_ + ":center:" + ct, e_.where(), f"{cn_}.{member_}: the centre of the returned ball does not move with the shape")
            else:
                res.ok("TR-2", k_, nontrivial=rt is not None)
    return res


def _guard_threshold(fn_node, cmp_node, kconst=None):
    """largest count n for which the residual test is NOT applied: fold the test of the `if` that raises, with the count
    comparison evaluated at n and the closeness test of the residual set to False (residual non-zero); None if the guard
    is not a boolean combination of exactly these two ingredients."""
    from ..astutil import single_assignments
    env = single_assignments(fn_node)

    class Unknown(Exception):
        pass

    def fold(t, n, close, depth=0):
        if depth > 6:
            raise Unknown()
        if t is cmp_node:
            c = kconst if kconst is not None else ast.literal_eval(t.comparators[0])
            op = t.ops[0]
            return {ast.Gt: n > c, ast.GtE: n >= c, ast.Lt: n < c, ast.LtE: n <= c}[type(op)]
        if isinstance(t, ast.BoolOp):
            vals = [fold(v, n, close, depth + 1) for v in t.values]
            return all(vals) if isinstance(t.op, ast.And) else any(vals)
        if isinstance(t, ast.UnaryOp) and isinstance(t.op, ast.Not):
            return not fold(t.operand, n, close, depth + 1)
        if isinstance(t, ast.Call) and ast.unparse(t.func).split(".")[-1] in ("isclose", "allclose"):
            return close
        if isinstance(t, ast.Name) and t.id in env:
            return fold(env[t.id], n, close, depth + 1)
        raise Unknown()

    # path conditions of every `raise` of the function: the tests of the enclosing ifs (negated on the else side) and the
    # negated tests of earlier siblings that leave the function (`if c: return ...` before the raise)
    def leaves(body):
        return bool(body) and isinstance(body[-1], (ast.Return, ast.Raise))

    found = []

    def walk(body, conds):
        conds = list(conds)
        for s_ in body:
            if isinstance(s_, ast.Raise):
                found.append(list(conds))
            elif isinstance(s_, ast.If):
                walk(s_.body, conds + [(s_.test, True)])
                walk(s_.orelse, conds + [(s_.test, False)])
                if leaves(s_.body) and not leaves(s_.orelse):
                    conds.append((s_.test, False))
                elif leaves(s_.orelse) and not leaves(s_.body):
                    conds.append((s_.test, True))
            elif isinstance(s_, (ast.For, ast.While, ast.With, ast.Try)):
                for sub in (getattr(s_, "body", []), getattr(s_, "orelse", []), getattr(s_, "finalbody", [])):
                    walk(sub, conds)
    walk(fn_node.body, [])
    for conds in found:
        if not any(cmp_node in list(ast.walk(t_)) or any(isinstance(x, ast.Name) and x.id in env and cmp_node in list(ast.walk(env[x.id])) for x in ast.walk(t_))
                   for (t_, _p) in conds):
            continue
        try:
            def holds(n, close):
                return all(fold(t_, n, close) == pol for (t_, pol) in conds)
            rows = [(n, holds(n, False), holds(n, True)) for n in range(0, 12)]
        except Unknown:
            continue
        except Exception:
            continue
        if any(c for (_n, _r, c) in rows):
            return None            # raises although the residual is zero: not an existence guard
        raising = [n for (n, r, _c) in rows if r]
        if not raising or raising != list(range(raising[0], 12)):
            return None
        return raising[0] - 1
    return None


def _undo(res, index):
    """UNDO-1: a retry loop that re-rotates the already rotated vertices (`V = rotate(R, V)` with a fresh R per
    iteration) has applied the composition of all R's; undoing only the last one (`rotate(conjugate(R), centre)` after
    the loop) leaves the centre in a rotated frame whenever two retries were needed.  Structural, names are free:
    loop-carried target among the arguments, transform argument assigned in the same loop, inverse of that argument used
    after the loop."""
    n = 0
    for cls in index.shape_classes():
        for name, p in cls.props.items():
            if not BALLISH.search(name) or p.getter is None:
                continue
            fn = p.getter
            for loop in [x for x in ast.walk(fn.node) if isinstance(x, (ast.While, ast.For))]:
                assigned_in_loop = {}
                for a in ast.walk(loop):
                    if isinstance(a, ast.Assign) and len(a.targets) == 1 and isinstance(a.targets[0], ast.Name):
                        assigned_in_loop.setdefault(a.targets[0].id, []).append(a)
                for x, assigns in assigned_in_loop.items():
                    for a in assigns:
                        if not isinstance(a.value, ast.Call):
                            continue
                        argnames = [y.id for arg in a.value.args for y in ast.walk(arg) if isinstance(y, ast.Name)]
                        if x not in argnames:
                            continue          # not loop-carried
                        callee = ast.unparse(a.value.func)
                        if not (callee.endswith("rotate") or callee in ("np.dot", "np.matmul")):
                            continue
                        n += 1
                        fresh = [r for r in argnames if r != x and r in assigned_in_loop
                                 and not any(r in {y.id for y in ast.walk(b.value) if isinstance(y, ast.Name)} for b in assigned_in_loop[r])]
                        after = [y for y in ast.walk(fn.node) if isinstance(y, ast.Call) and getattr(y, "lineno", 0) > loop.end_lineno
                                 and ast.unparse(y.func).endswith(("conjugate", "inverse"))
                                 and any(isinstance(z, ast.Name) and z.id in fresh for arg in y.args for z in ast.walk(arg))]
                        k = f"{cls.name}.{name}:retry-rotation"
                        if fresh and after:
                            res.bad("UNDO-1", k, f"{fn.file}:{a.lineno}", f"{cls.name}.{name}: every retry rotates the already rotated vertices "
                                    f"(`{ast.unparse(a)[:60]}`) with a fresh random rotation, but only the last rotation is undone after the loop "
                                    f"(`{ast.unparse(after[0])[:50]}`): after two retries the returned centre is in a rotated frame and the ball "
                                    "does not contain the shape")
                        else:
                            res.ok("UNDO-1", k)
    res.extra["undo_sites"] = n
