"""C01 - convex polyhedron volume, area, centroid and inertia tensor are exact (structural part)."""

from __future__ import annotations

import ast
from fractions import Fraction

from ..algebra import Poly
from ..degrees import check_degree, declared_degree
from ..dimscan import scan
from ..index import AnalysisError
from ..inertia3d import (NAMES, abs_of_det, check_display, fold, matrix_display, moment_conditions, quadrature_table)
from ..report import Result

EXPLANATION = (
    "Necessary conditions of exactness visible in the code of ConvexPolyhedron: DEG volume 3, surface_area / "
    "get_face_area 2, centroid / face_centroids 1, inertia_tensor 5, every formula homogeneous (E3); AXI the six inertia "
    "components use the index lists of their definition (I_aa <-> sub = the two other axes, I_ab <-> sub = [a, b]), "
    "inside i_nn / i_nm the normal component and the cubed / squared quadrature coordinate carry the same index "
    "(divergence-theorem typing), and the returned matrix is symmetric with each name in its slot; QUAD the triangle "
    "quadrature literals satisfy the 20 degree-3 moment conditions sum_i w_i l1^a l2^b l3^c = 2 a! b! c! / (a+b+c+2)! "
    "in exact rational arithmetic, with the divergence constants 1/6 and 1/8; DET-SIGN the signed tetrahedron volumes "
    "are summed before any absolute value; PAX translate_inertia_tensor is I + V (|d|^2 1 - d (x) d). Agreement with the "
    "exact integral for arbitrary vertex sets, independence of the input order and conditioning are not decided; cache "
    "coherence of _volume/_area/_centroid is C03's."
)


def run(index, tier="quick", seed=0) -> Result:
    res = Result("C01", EXPLANATION)
    sc = scan(index)
    cls = index.cls("ConvexPolyhedron")
    # ---------------------------------------------------------------- DEG
    n = 0
    for member in ("volume", "surface_area", "get_face_area", "centroid", "face_centroids", "inertia_tensor", "center",
                   "edge_lengths", "mean_curvature"):
        for kind in ("getter", "method"):
            key = ("ConvexPolyhedron", member, kind)
            if key not in sc.results:
                continue
            want = declared_degree(cls, member)
            st, txt = check_degree(sc.results[key], want)
            n += 1
            if st == "ok":
                res.ok("DEG", f"ConvexPolyhedron.{member}", sample={"observable": member, "degree": str(want)})
            elif st == "bad":
                res.bad("DEG", f"ConvexPolyhedron.{member}", "coxeter/shapes/convex_polyhedron.py", f"ConvexPolyhedron.{member} has length degree {txt}, declared {want}")
            else:
                res.not_in_fragment.append(f"DEG ConvexPolyhedron.{member}: {txt}")
    if n < 8:
        raise AnalysisError(f"only {n} degree obligations (9 confirmed)")
    for k, (where, what, func) in sc.conflicts.items():
        if func.startswith("ConvexPolyhedron.") or "translate_inertia_tensor" in func:
            res.bad("DEG", k, where, what)
    # ---------------------------------------------------------------- AXI
    fn = cls.methods.get("_compute_inertia_tensor")
    if fn is None:
        raise AnalysisError("anchor vanished: ConvexPolyhedron._compute_inertia_tensor")
    where = f"{fn.file}:{fn.lineno}"
    subs = {}
    for node in ast.walk(fn.node):
        if isinstance(node, ast.Assign) and isinstance(node.targets[0], ast.Name) and node.targets[0].id in NAMES \
                and isinstance(node.value, ast.Call):
            kw = {k.arg: k.value for k in node.value.keywords}
            callee = ast.unparse(node.value.func)
            if "sub" in kw:
                subs[node.targets[0].id] = (callee, fold(kw["sub"]), node.lineno)
    if len(subs) < 6:
        raise AnalysisError(f"only {len(subs)} inertia components with a sub= index list found (6 confirmed)")
    for name, (callee, sub, line) in sorted(subs.items()):
        a, b = NAMES[name]
        want = sorted(set(range(3)) - {a}) if a == b else [a, b]
        got = [int(x) for x in sub] if sub else None
        k = f"ConvexPolyhedron._compute_inertia_tensor:{name}"
        if got is None:
            res.not_in_fragment.append(f"AXI {k}")
        elif sorted(got) != sorted(want):
            res.bad("AXI", k, f"{fn.file}:{line}", f"{name} integrates with sub={got}; its definition needs {want} "
                    f"({'the two other axes' if a == b else 'its own two axes'})")
        elif (a == b) != (callee == "i_nn"):
            res.bad("AXI", k + ":kernel", f"{fn.file}:{line}", f"{name} uses kernel {callee}")
        else:
            res.ok("AXI", k, sample={"component": name, "kernel": callee, "sub": got})
    # kernels: same index on the normal and on the quadrature coordinate
    for kname in ("i_nn", "i_nm"):
        kn = [x for x in ast.walk(fn.node) if isinstance(x, ast.FunctionDef) and x.name == kname]
        if not kn:
            res.bad("AXI", f"kernel:{kname}:missing", where, f"kernel {kname} not found")
            continue
        kn = kn[0]
        k = f"ConvexPolyhedron._compute_inertia_tensor:{kname}"
        if kname == "i_nn":
            e = [c for c in ast.walk(kn) if isinstance(c, ast.Call) and ast.unparse(c.func) == "np.einsum"]
            ok = False
            if e:
                ops = [ast.unparse(a_) for a_ in e[0].args[1:]]
                n_ops = [o for o in ops if o.startswith("nt[") or o.startswith("n[")]
                q_ops = [o for o in ops if o.startswith("q3[")]
                ok = len(n_ops) == 1 and len(q_ops) == 1 and "sub" in n_ops[0] and "sub" in q_ops[0] and "[sub" not in q_ops[0].replace("[:, sub", "")
                ok = ok and "sub[" not in n_ops[0] and "sub[" not in q_ops[0]
            div6 = any(isinstance(r, ast.Return) and isinstance(r.value, ast.BinOp) and isinstance(r.value.op, ast.Div)
                       and fold(r.value.right) == 6 for r in ast.walk(kn))
            if ok and div6:
                res.ok("AXI", k)
            elif not ok:
                res.bad("AXI", k, f"{fn.file}:{kn.lineno}", "i_nn: the normal component and the cubed quadrature coordinate must be selected by the same index list")
            else:
                res.bad("QUAD", k + ":const", f"{fn.file}:{kn.lineno}", "i_nn: divergence-theorem constant must be 1/6 (= 1/3 from d(x^3/3)/dx times 1/2 from the doubled area)")
        else:
            es = [c for c in ast.walk(kn) if isinstance(c, ast.Call) and ast.unparse(c.func) == "np.einsum"]
            good = 0
            for c in es:
                ops = [ast.unparse(a_).replace(" ", "") for a_ in c.args[1:]]
                prod = [o for o in ops if "*" in o]
                nrm = [o for o in ops if o.startswith("n[")]
                if len(prod) == 1 and len(nrm) == 1:
                    sq = [t for t in prod[0].split("*") if t.startswith("q2[")]
                    if len(sq) == 1:
                        idx_sq = sq[0][sq[0].index("sub["):sq[0].index("sub[") + 6]
                        idx_n = nrm[0][nrm[0].index("sub["):nrm[0].index("sub[") + 6] if "sub[" in nrm[0] else None
                        if idx_sq == idx_n:
                            good += 1
            div8 = any(isinstance(r, ast.Return) and isinstance(r.value, ast.BinOp) and isinstance(r.value.op, ast.Div)
                       and fold(r.value.right) == 8 for r in ast.walk(kn))
            neg = any(isinstance(r, ast.Return) and isinstance(r.value, ast.BinOp) and isinstance(r.value.left, ast.UnaryOp)
                      and isinstance(r.value.left.op, ast.USub) for r in ast.walk(kn))
            if good == 2 and div8 and neg:
                res.ok("AXI", k)
            elif good != 2:
                res.bad("AXI", k, f"{fn.file}:{kn.lineno}", "i_nm: in each of the two terms the normal component must carry the index of the *squared* coordinate")
            elif not neg:
                res.bad("AXI", k + ":sign", f"{fn.file}:{kn.lineno}", "i_nm: products of inertia carry a minus sign (I_ab = -int a b dV)")
            else:
                res.bad("QUAD", k + ":const", f"{fn.file}:{kn.lineno}", "i_nm: divergence-theorem constant must be 1/8")
    probs = check_display(matrix_display(fn.node))
    if probs:
        res.bad("AXI", "ConvexPolyhedron._compute_inertia_tensor:display", where, "returned matrix: " + "; ".join(probs))
    else:
        res.ok("AXI", "ConvexPolyhedron._compute_inertia_tensor:display")
    # ---------------------------------------------------------------- QUAD
    nodes, weights, probs = quadrature_table(fn.node)
    if probs:
        for p in probs:
            res.not_in_fragment.append(f"QUAD: {p}")
    else:
        ncond, bad = moment_conditions(nodes, weights, 3)
        res.extra["quadrature"] = {"nodes": [[str(x) for x in l] for l in nodes], "weights": [str(w) for w in weights]}
        for (abc, lhs, rhs) in bad:
            res.bad("QUAD", f"moment:{abc[0]}{abc[1]}{abc[2]}", where, f"triangle quadrature is not exact for l1^{abc[0]} l2^{abc[1]} l3^{abc[2]}: "
                    f"sum w f = {lhs}, exact {rhs} (nodes {res.extra['quadrature']['nodes']}, weights {res.extra['quadrature']['weights']})")
        for i in range(ncond - len(bad)):
            res.ok("QUAD", f"moment#{i}", nontrivial=i < 3)
        if ncond != 20:
            raise AnalysisError("expected 20 moment conditions")
    # ---------------------------------------------------------------- DET-SIGN
    sv = cls.methods.get("_calculate_signed_volume")
    if sv is None:
        raise AnalysisError("anchor vanished: _calculate_signed_volume")
    hits = abs_of_det(sv.node)
    has_det = any(isinstance(x, ast.Call) and ast.unparse(x.func).endswith("linalg.det") for x in ast.walk(sv.node))
    if not has_det:
        res.not_in_fragment.append("DET-SIGN: no determinant in _calculate_signed_volume")
    elif hits:
        res.bad("DET-SIGN", "ConvexPolyhedron._calculate_signed_volume", f"{sv.file}:{hits[0].lineno}", "absolute value of the per-simplex determinants before the sum")
    else:
        res.ok("DET-SIGN", "ConvexPolyhedron._calculate_signed_volume")
    # ---------------------------------------------------------------- PAX
    _pax(res, index)
    return res


def _pax(res, index):
    utils = index.module("coxeter.shapes.utils")
    fn = utils.functions.get("translate_inertia_tensor")
    if fn is None:
        raise AnalysisError("anchor vanished: translate_inertia_tensor")
    where = f"{fn.file}:{fn.lineno}"
    env = {}
    ok_inner = ok_outer = False
    for s in fn.node.body:
        if isinstance(s, ast.Assign) and isinstance(s.targets[0], ast.Name):
            env[s.targets[0].id] = s.value
    # inner = d . d^T (scalar), outer = d^T . d (3x3) for a row vector d
    def dot_args(node):
        for c in ast.walk(node):
            if isinstance(c, ast.Call) and ast.unparse(c.func) in ("np.dot", "np.matmul", "np.inner", "np.outer"):
                return ast.unparse(c.func), [ast.unparse(a) for a in c.args]
        return None, None
    if "inner" in env:
        f, a = dot_args(env["inner"])
        ok_inner = a is not None and ((f in ("np.dot", "np.matmul") and not a[0].endswith(".T") and a[1].endswith(".T")) or f == "np.inner")
    if "outer" in env:
        f, a = dot_args(env["outer"])
        ok_outer = a is not None and ((f in ("np.dot", "np.matmul") and a[0].endswith(".T") and not a[1].endswith(".T")) or f == "np.outer")
    rets = [n for n in ast.walk(fn.node) if isinstance(n, ast.Return)]
    form_ok = False
    if rets:
        # normal form over opaque atoms
        def ev(n):
            if isinstance(n, ast.Name):
                return Poly.atom(n.id)
            if isinstance(n, ast.Call):
                return Poly.atom(ast.unparse(n).replace(" ", ""))
            if isinstance(n, ast.BinOp):
                l, r = ev(n.left), ev(n.right)
                if l is None or r is None:
                    return None
                if isinstance(n.op, ast.Add):
                    return l + r
                if isinstance(n.op, ast.Sub):
                    return l - r
                if isinstance(n.op, ast.Mult):
                    return l * r
            return None
        got = ev(rets[0].value)
        p = fn.params
        if got is not None and len(p) == 3:
            I, V = Poly.atom(p[1]), Poly.atom(p[2])
            want = I + V * (Poly.atom("inner") * Poly.atom("np.eye(3)") - Poly.atom("outer"))
            form_ok = got == want
    if ok_inner and ok_outer and form_ok:
        res.ok("PAX", "translate_inertia_tensor", sample={"form": "I + V (inner * eye(3) - outer)"})
    else:
        res.bad("PAX", "translate_inertia_tensor", where, "translate_inertia_tensor is not I + V (|d|^2 1 - d (x) d) "
                f"(inner ok: {ok_inner}, outer ok: {ok_outer}, combination ok: {form_ok})")
