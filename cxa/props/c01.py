"""C01 - convex polyhedron volume, area, centroid and inertia tensor are exact (structural part)."""

from __future__ import annotations

import ast
from fractions import Fraction

from ..algebra import Poly
from ..degrees import check_degree, declared_degree
from ..dimscan import scan
from ..index import AnalysisError
from ..inertia3d import (NAMES, abs_of_det, component_map, fold, moment_conditions, quadrature_table)
from ..report import Result

EXPLANATION = (
    "Necessary conditions of exactness visible in the code of ConvexPolyhedron: DEG volume 3, surface_area / "
    "get_face_area 2, centroid / face_centroids 1, inertia_tensor 5, every formula homogeneous (E3); AXI the six inertia "
    "components use the index lists of their definition (I_aa <-> sub = the two other axes, I_ab <-> sub = [a, b]), "
    "inside i_nn / i_nm the normal component and the cubed / squared quadrature coordinate carry the same index "
    "(divergence-theorem typing), and the returned matrix is symmetric with each name in its slot; QUAD the triangle "
    "quadrature literals satisfy the 20 degree-3 moment conditions sum_i w_i l1^a l2^b l3^c = 2 a! b! c! / (a+b+c+2)! "
    "in exact rational arithmetic, with the divergence constants 1/6 and 1/8; DET-SIGN the signed tetrahedron volumes "
    "are summed before any absolute value; PAX translate_inertia_tensor is I + V (|d|^2 1 - d (x) d). Agreement with the "
    "exact integral for arbitrary vertex sets, independence of the input order and conditioning are not decided; cache "
    "coherence of _volume/_area/_centroid is C03's."
)


def run(index, tier="quick", seed=0) -> Result:
    res = Result("C01", EXPLANATION)
    sc = scan(index)
    cls = index.cls("ConvexPolyhedron")
    # ---------------------------------------------------------------- DEG
    n = 0
    for member in ("volume", "surface_area", "get_face_area", "centroid", "face_centroids", "inertia_tensor", "center",
                   "edge_lengths", "mean_curvature"):
        for kind in ("getter", "method"):
            key = ("ConvexPolyhedron", member, kind)
            if key not in sc.results:
                continue
            want = declared_degree(cls, member)
            st, txt = check_degree(sc.results[key], want)
            n += 1
            if st == "ok":
                res.ok("DEG", f"ConvexPolyhedron.{member}", sample={"observable": member, "degree": str(want)})
            elif st == "bad":
                res.bad("DEG", f"ConvexPolyhedron.{member}", "coxeter/shapes/convex_polyhedron.py", f"ConvexPolyhedron.{member} has length degree {txt}, declared {want}")
            else:
                res.not_in_fragment.append(f"DEG ConvexPolyhedron.{member}: {txt}")
    if n < 8:
        raise AnalysisError(f"only {n} degree obligations (9 confirmed)")
    for k, (where, what, func) in sc.conflicts.items():
        if func.startswith("ConvexPolyhedron.") or "translate_inertia_tensor" in func:
            res.bad("DEG", k, where, what)
    # ---------------------------------------------------------------- AXI
    fn = cls.methods.get("_compute_inertia_tensor")
    if fn is None:
        raise AnalysisError("anchor vanished: ConvexPolyhedron._compute_inertia_tensor")
    where = f"{fn.file}:{fn.lineno}"
    subs = {}
    comp_of, disp_probs = component_map(fn.node)
    for node in ast.walk(fn.node):
        if isinstance(node, ast.Assign) and isinstance(node.targets[0], ast.Name) and node.targets[0].id in comp_of \
                and isinstance(node.value, ast.Call):
            callee = ast.unparse(node.value.func)
            cands = [k.value for k in node.value.keywords if isinstance(k.value, ast.List)] + \
                    [a for a in node.value.args if isinstance(a, ast.List)]
            if cands:
                subs[comp_of[node.targets[0].id]] = (callee, fold(cands[0]), node.lineno)
    if len(subs) < 6:
        raise AnalysisError(f"only {len(subs)} inertia components with a sub= index list found (6 confirmed)")
    diag_callees = {subs[n_][0] for n_ in ("i_xx", "i_yy", "i_zz") if n_ in subs}
    off_callees = {subs[n_][0] for n_ in ("i_xy", "i_xz", "i_yz") if n_ in subs}
    diag_kernel = sorted(diag_callees)[0] if len(diag_callees) == 1 else "i_nn"
    off_kernel = sorted(off_callees)[0] if len(off_callees) == 1 else "i_nm"
    for name, (callee, sub, line) in sorted(subs.items()):
        a, b = NAMES[name]
        want = sorted(set(range(3)) - {a}) if a == b else [a, b]
        got = [int(x) for x in sub] if sub else None
        k = f"ConvexPolyhedron._compute_inertia_tensor:{name}"
        if got is None:
            res.not_in_fragment.append(f"AXI {k}")
        elif sorted(got) != sorted(want):
            res.bad("AXI", k, f"{fn.file}:{line}", f"{name} integrates with sub={got}; its definition needs {want} "
                    f"({'the two other axes' if a == b else 'its own two axes'})")
        elif (a == b) != (callee == diag_kernel):
            res.bad("AXI", k + ":kernel", f"{fn.file}:{line}", f"{name} uses kernel {callee}")
        else:
            res.ok("AXI", k, sample={"component": name, "kernel": callee, "sub": got})
    # kernels: same index on the normal and on the quadrature coordinate
    for kname, role in ((diag_kernel, "diag"), (off_kernel, "off")):
        kn = [x for x in ast.walk(fn.node) if isinstance(x, ast.FunctionDef) and x.name == kname]
        if not kn:
            raise AnalysisError(f"AXI: the {role} kernel {kname} called for the inertia components is not a nested function of _compute_inertia_tensor")
        kn = kn[0]
        subp = kn.args.args[-1].arg          # the index-list parameter (last)
        k = f"ConvexPolyhedron._compute_inertia_tensor:kernel:{role}"
        es = [c for c in ast.walk(kn) if isinstance(c, ast.Call) and ast.unparse(c.func) == "np.einsum"]

        def idx_of(txt):
            """which element(s) of the index list an operand selects: 'all' | '0' | '1' | None"""
            t = txt.replace(" ", "")
            if f"{subp}[0]" in t and f"{subp}[1]" not in t:
                return "0"
            if f"{subp}[1]" in t and f"{subp}[0]" not in t:
                return "1"
            if subp in t:
                return "all"
            return None

        ret_div = None
        neg = False
        from ..astutil import returns as _returns
        for _r, rv in _returns(kn):
            if isinstance(rv, ast.BinOp) and isinstance(rv.op, ast.Div):
                ret_div = fold(rv.right)
                neg = isinstance(rv.left, ast.UnaryOp) and isinstance(rv.left.op, ast.USub)
        if role == "diag":
            ok = False
            if len(es) == 1:
                ops = [ast.unparse(a_) for a_ in es[0].args[1:]]
                sel = [o for o in ops if idx_of(o) == "all"]
                # exactly two operands are selected by the whole index list: the normal components and the cubed coordinate
                ok = len(sel) == 2
            if ok and ret_div == 6:
                res.ok("AXI", k)
            elif not ok:
                res.bad("AXI", k, f"{fn.file}:{kn.lineno}", f"{kname}: the normal component and the cubed quadrature coordinate must be selected by the same index list")
            else:
                res.bad("QUAD", k + ":const", f"{fn.file}:{kn.lineno}", f"{kname}: divergence-theorem constant must be 1/6 (= 1/3 from d(x^3/3)/dx times 1/2 from the doubled area)")
        else:
            good = 0
            for c in es:
                ops = [ast.unparse(a_).replace(" ", "") for a_ in c.args[1:]]
                prod = [o for o in ops if "*" in o and subp in o]
                nrm = [o for o in ops if "*" not in o and idx_of(o) in ("0", "1")]
                if len(prod) == 1 and len(nrm) == 1:
                    fa = prod[0].split("*")
                    # the squared coordinate is the factor that is itself a power / a "squared" array: decide by
                    # which factor's array also occurs cubed/squared in the enclosing function's definitions
                    sq = [t for t in fa if _is_squared_operand(t, fn.node)]
                    if len(sq) == 1 and idx_of(sq[0]) == idx_of(nrm[0]):
                        good += 1
            if good == 2 and ret_div == 8 and neg:
                res.ok("AXI", k)
            elif good != 2:
                res.bad("AXI", k, f"{fn.file}:{kn.lineno}", f"{kname}: in each of the two terms the normal component must carry the index of the *squared* coordinate")
            elif not neg:
                res.bad("AXI", k + ":sign", f"{fn.file}:{kn.lineno}", f"{kname}: products of inertia carry a minus sign (I_ab = -int a b dV)")
            else:
                res.bad("QUAD", k + ":const", f"{fn.file}:{kn.lineno}", f"{kname}: divergence-theorem constant must be 1/8")
    probs = disp_probs
    if probs:
        res.bad("AXI", "ConvexPolyhedron._compute_inertia_tensor:display", where, "returned matrix: " + "; ".join(probs))
    else:
        res.ok("AXI", "ConvexPolyhedron._compute_inertia_tensor:display")
    # ---------------------------------------------------------------- QUAD
    nodes, weights, probs = quadrature_table(fn.node)
    if probs:
        for p in probs:
            res.not_in_fragment.append(f"QUAD: {p}")
    else:
        ncond, bad = moment_conditions(nodes, weights, 3)
        res.extra["quadrature"] = {"nodes": [[str(x) for x in l] for l in nodes], "weights": [str(w) for w in weights]}
        for (abc, lhs, rhs) in bad:
            res.bad("QUAD", f"moment:{abc[0]}{abc[1]}{abc[2]}", where, f"triangle quadrature is not exact for l1^{abc[0]} l2^{abc[1]} l3^{abc[2]}: "
                    f"sum w f = {lhs}, exact {rhs} (nodes {res.extra['quadrature']['nodes']}, weights {res.extra['quadrature']['weights']})")
        for i in range(ncond - len(bad)):
            res.ok("QUAD", f"moment#{i}", nontrivial=i < 3)
        if ncond != 20:
            raise AnalysisError("expected 20 moment conditions")
    # ---------------------------------------------------------------- DET-SIGN
    sv = cls.methods.get("_calculate_signed_volume")
    if sv is None:
        raise AnalysisError("anchor vanished: _calculate_signed_volume")
    hits = abs_of_det(sv.node)
    has_det = any(isinstance(x, ast.Call) and ast.unparse(x.func).endswith("linalg.det") for x in ast.walk(sv.node))
    if not has_det:
        res.not_in_fragment.append("DET-SIGN: no determinant in _calculate_signed_volume")
    elif hits:
        res.bad("DET-SIGN", "ConvexPolyhedron._calculate_signed_volume", f"{sv.file}:{hits[0].lineno}", "absolute value of the per-simplex determinants before the sum")
    else:
        res.ok("DET-SIGN", "ConvexPolyhedron._calculate_signed_volume")
    # ---------------------------------------------------------------- FC-1 face centroids are area-weighted
    from ..interp import Interp
    fc = index.effective_prop(cls, "face_centroids")
    if fc is None or fc.getter is None:
        raise AnalysisError("anchor vanished: ConvexPolyhedron.face_centroids")
    it = Interp(index)
    r = it.run_entry(fc.getter, cls)
    stores = [e for e in r["events"] if e.type == "write" and e.loc == ("self", "_face_centroids") and e.rhs is not None]
    weighted = False
    unweighted = None

    def _w(v):
        return ("self", "_simplex_areas") in v.deps or ("call", "_find_triangle_array_area") in v.deps

    for e in stores:
        vals = [e.rhs] + ([e.rhs.elem] if e.rhs.elem is not None else [])
        for v in vals:
            if _w(v):
                weighted = True
        # every face's centroid that averages several simplices must be weighted (a fast path for some faces is
        # equal only for triangles and parallelograms)
        if e.mode == "inplace" and str(e.op).startswith("call:") and not _w(e.rhs):
            red = [x for x in r["events"] if x.type == "reduce" and x.stmt is e.stmt and x.fn in ("mean", "sum", "average", "nanmean")]
            if red:
                unweighted = e
    if not stores:
        res.not_in_fragment.append("FC-1: no store into _face_centroids found")
    elif unweighted is not None:
        res.bad("FC-1", "ConvexPolyhedron.face_centroids:unweighted-branch", unweighted.where(), f"`{unweighted.src()[:80]}` averages the triangles of a face "
                "without their areas: correct only for triangles and parallelograms (trapezoid and kite faces are off)")
    elif weighted:
        res.ok("FC-1", "ConvexPolyhedron.face_centroids")
    else:
        res.bad("FC-1", "ConvexPolyhedron.face_centroids", f"{fc.getter.file}:{fc.getter.lineno}", "face centroids do not depend on the simplex areas: "
                "the centroid of a polygonal face is the area-weighted mean of its triangles' centroids, not the mean of its vertices "
                "(equal only for triangles, parallelograms and regular polygons)")
    # ---------------------------------------------------------------- PAX
    _pax(res, index)
    from ..parallel import report as _copy1
    _copy1(res, index, lambda f: f['cls'] == 'ConvexPolyhedron' and f['top'] in ('_compute_inertia_tensor', '_calculate_signed_volume', '_centroid_from_triangulated_surface', '_find_face_centroids', 'get_face_area', '_find_triangle_array_area', 'inertia_tensor'))
    from ..refpoint import check_reference_point
    check_reference_point(res, index, 'ConvexPolyhedron')
    # SYM-1: per-simplex integrands are (anti)symmetric in the corners of the simplex
    from ..cornersym import report as _sym1
    _sym1(res, index, [("ConvexPolyhedron", "_centroid_from_triangulated_surface"), ("ConvexPolyhedron", "_find_simplex_equations")])
    # MEAN-1: no exact measure is computed from an unweighted average of vertex coordinates (the vertex mean of a face /
    # of the solid is its centroid only for triangles, parallelograms, regular polygons and centrally symmetric solids)
    from ..interp import Interp as _Interp
    for member in ("centroid", "center", "inertia_tensor", "face_centroids", "volume", "surface_area"):
        p_ = index.effective_prop(cls, member)
        if p_ is None or p_.getter is None:
            continue
        it_ = _Interp(index)
        r_ = it_.run_entry(p_.getter, cls)
        vm = sorted({d for (v_, _s, _n) in r_["returns"] for d in v_.deps if d[0] == "vertex-mean"})
        k_ = f"{cls.name}.{member}"
        if vm:
            site = [e for e in r_["events"] if e.type == "reduce" and f"{e.fn}@{getattr(e.node, 'lineno', 0)}" == vm[0][1]]
            res.bad("MEAN-1", k_ + ":vertex-mean", site[0].where() if site else f"{p_.getter.file}:{p_.getter.lineno}",
                    f"{k_} depends on an unweighted average of vertex coordinates (`{site[0].src()[:60] if site else vm[0][1]}`): the vertex mean "
                    "is the centroid only for triangles, parallelograms, regular polygons and centrally symmetric solids")
        else:
            res.ok("MEAN-1", k_, nontrivial=False)
    return res


def _is_squared_operand(term, fn_node):
    """is the array named at the head of `term` defined as <something> ** 2 in the enclosing function
    (or passed under a parameter bound to such a name)?"""
    name = term.split("[")[0]
    squared = set()
    for n in ast.walk(fn_node):
        if isinstance(n, ast.Assign) and isinstance(n.targets[0], ast.Name) and isinstance(n.value, ast.BinOp) \
                and isinstance(n.value.op, ast.Pow) and fold(n.value.right) == 2:
            squared.add(n.targets[0].id)
    return name in squared


def _pax(res, index):
    """PAX: translate_inertia_tensor(d, I, V) = I + V (|d|^2 1 - d (x) d).  Symbolic normal form of the returned
    expression; products of the displacement with itself are classified INNER / OUTER by the transposition pattern
    of their operands (row-vector convention after atleast_2d, or the 1-D forms), local names carry no meaning."""
    utils = index.module("coxeter.shapes.utils")
    fn = utils.functions.get("translate_inertia_tensor")
    if fn is None:
        raise AnalysisError("anchor vanished: translate_inertia_tensor")
    where = f"{fn.file}:{fn.lineno}"
    p = fn.params
    if len(p) != 3:
        raise AnalysisError("translate_inertia_tensor no longer takes (displacement, inertia_tensor, volume)")
    env = {}
    promoted = False
    dnames = {p[0]}
    for s_ in fn.node.body:
        if isinstance(s_, ast.Assign) and len(s_.targets) == 1 and isinstance(s_.targets[0], ast.Name):
            v = s_.value
            if isinstance(v, ast.Call) and ast.unparse(v.func) in ("np.atleast_2d", "np.asarray", "np.array", "np.atleast_1d") \
                    and v.args and isinstance(v.args[0], ast.Name) and v.args[0].id in dnames:
                dnames.add(s_.targets[0].id)
                promoted = promoted or ast.unparse(v.func) == "np.atleast_2d"
            else:
                env[s_.targets[0].id] = v

    def is_d(n):
        return isinstance(n, ast.Name) and n.id in dnames

    def is_dt(n):
        if isinstance(n, ast.Attribute) and n.attr == "T" and is_d(n.value):
            return True
        return isinstance(n, ast.Call) and ast.unparse(n.func) in ("np.transpose",) and n.args and is_d(n.args[0])

    def product(a, b, f):
        if f in ("np.inner", "np.vdot") and is_d(a) and is_d(b):
            return Poly.atom("INNER")
        if f == "np.outer" and is_d(a) and is_d(b):
            return Poly.atom("OUTER")
        if f in ("np.dot", "np.matmul", "@"):
            if promoted:
                if is_d(a) and is_dt(b):
                    return Poly.atom("INNER")
                if is_dt(a) and is_d(b):
                    return Poly.atom("OUTER")
                if (is_d(a) and is_d(b)) or (is_dt(a) and is_dt(b)):
                    return Poly.atom("BADPRODUCT")      # (1,3).(1,3): shape error / not a product of the theorem
            elif is_d(a) and is_d(b):
                return Poly.atom("INNER")
        return None

    def ev(n, depth=0):
        if depth > 12:
            return None
        if isinstance(n, ast.Name):
            if n.id == p[1]:
                return Poly.atom("I")
            if n.id == p[2]:
                return Poly.atom("V")
            if n.id in env:
                return ev(env[n.id], depth + 1)
            return None
        if isinstance(n, ast.Constant) and isinstance(n.value, (int, float)):
            return Poly.const(n.value)
        if isinstance(n, ast.Call):
            f = ast.unparse(n.func)
            if f in ("np.squeeze", "np.asarray", "float", "np.float64") and n.args:
                return ev(n.args[0], depth + 1)
            if f in ("np.eye", "np.identity") and n.args and isinstance(n.args[0], ast.Constant) and n.args[0].value == 3:
                return Poly.atom("EYE")
            if f in ("np.dot", "np.matmul", "np.inner", "np.outer", "np.vdot") and len(n.args) == 2:
                return product(n.args[0], n.args[1], f)
            if f == "np.sum" and n.args and isinstance(n.args[0], ast.BinOp):
                b = n.args[0]
                if isinstance(b.op, ast.Mult) and is_d(b.left) and is_d(b.right):
                    return Poly.atom("INNER")
                if isinstance(b.op, ast.Pow) and is_d(b.left) and isinstance(b.right, ast.Constant) and b.right.value == 2:
                    return Poly.atom("INNER")
            return None
        if isinstance(n, ast.BinOp):
            if isinstance(n.op, ast.MatMult):
                return product(n.left, n.right, "@")
            l, r = ev(n.left, depth + 1), ev(n.right, depth + 1)
            if l is None or r is None:
                return None
            if isinstance(n.op, ast.Add):
                return l + r
            if isinstance(n.op, ast.Sub):
                return l - r
            if isinstance(n.op, ast.Mult):
                return l * r
            return None
        if isinstance(n, ast.UnaryOp) and isinstance(n.op, ast.USub):
            v = ev(n.operand, depth + 1)
            return -v if v is not None else None
        return None

    rets = [n for n in ast.walk(fn.node) if isinstance(n, ast.Return) and n.value is not None]
    if len(rets) != 1:
        raise AnalysisError("translate_inertia_tensor: not a single return expression")
    mutated = [n for n in ast.walk(fn.node) if (isinstance(n, ast.Assign) and any(isinstance(t, ast.Subscript) for t in n.targets))
               or isinstance(n, ast.AugAssign)]
    if mutated:
        # locals are updated in place: the single-assignment normal form below would misread them
        raise AnalysisError("PAX: translate_inertia_tensor updates local arrays in place (outside the recognised fragment)")
    got = ev(rets[0].value)      # ev looks through local temporaries itself
    want = Poly.atom("I") + Poly.atom("V") * (Poly.atom("INNER") * Poly.atom("EYE") - Poly.atom("OUTER"))
    if got is None:
        raise AnalysisError("PAX: the expression returned by translate_inertia_tensor is outside the recognised fragment (polynomial in I, V, eye(3) "
                            "and the inner / outer product of the displacement with itself)")
    elif got == want:
        res.ok("PAX", "translate_inertia_tensor", sample={"form": "I + V (INNER * EYE - OUTER)", "row_vector": promoted})
    else:
        res.bad("PAX", "translate_inertia_tensor", where, f"translate_inertia_tensor is not I + V (|d|^2 1 - d (x) d): it computes {got}")

