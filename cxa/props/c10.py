"""C10 - circle, ellipse, sphere and ellipsoid measures equal their defining integrals (structural part)."""

from __future__ import annotations

import ast
from fractions import Fraction

from ..algebra import Poly
from ..degrees import check_degree, declared_degree
from ..dimscan import scan
from ..index import AnalysisError
from ..interp import Interp
from ..report import Result

EXPLANATION = (
    "Closed-form algebra on the source expressions of the four curved classes (E3 + E4 + E5 axis typing): DEG every "
    "measure has its length degree and every elliptic-integral / trig argument is dimensionless; SPEC-1 substituting "
    "a=b(=c)=r into every Ellipse/Ellipsoid closed form (area, volume, planar moments, inertia diagonal) yields the "
    "Circle/Sphere form; SPEC-2 d(pi r^2)/dr = perimeter and d(4/3 pi r^3)/dr = surface area; AX-1 axis typing: every "
    "term of I_x = int y^2 has the axis signature A*y^2 (only b and centroid[1] beside the area), I_y <-> A*x^2, "
    "I_xy <-> A*x*y, and the inertia diagonal of the ellipsoid I_aa <-> V*{b^2, c^2}; IQ-1 iq of circle/sphere is the "
    "constant 1 and that is what the base-class formulas 4 pi A / P^2 and 36 pi V^2 / S^3 normalise to on their own "
    "closed forms, Ellipse.iq is the base formula clamped by min(., 1); SORT-1 formulas that assume ordered axes "
    "(eccentricity, perimeter, Ellipsoid.surface_area) read the semi-axes only through sorted([...]) of all of them. "
    "Accuracy of the elliptic-integral branches for near-ties is numerical and not decided."
)

CURVED = ("Circle", "Ellipse", "Sphere", "Ellipsoid")
AXIS_OF = {"_a": "X", "_b": "Y", "_c": "Z", "_centroid[0]": "X", "_centroid[1]": "Y", "_centroid[2]": "Z"}


def getter_val(index, cname, member, getter_fn=None, self_cls=None):
    cls = index.cls(cname)
    fn = getter_fn or index.effective_prop(cls, member).getter
    it = Interp(index)
    r = it.run_entry(fn, self_cls or cls)
    return r["result"], r


def to_r(sym, r="R"):
    """specialise: a=b=c=r."""
    m = {f"self.{a}": Poly.atom(r) for a in ("_a", "_b", "_c", "_radius")}
    return sym.subs(m)


def axis_signature(sym):
    """per term: exponent of X, Y, Z (semi-axes and centroid components) and of the isotropic radius W."""
    out = []
    for mono, coeff in sym.terms.items():
        sig = {"X": Fraction(0), "Y": Fraction(0), "Z": Fraction(0), "W": Fraction(0)}
        for atom, e in mono:
            if atom == "self._radius":
                sig["W"] += e
            elif atom.startswith("self."):
                a = atom[len("self."):]
                if a in AXIS_OF:
                    sig[AXIS_OF[a]] += e
                else:
                    return None
            elif atom in ("pi",) or atom.startswith("#"):
                continue
            else:
                return None
        out.append(sig)
    return out


def fits(sig, want):
    """explicit axis exponents must not exceed the expected ones; the isotropic radius fills the rest."""
    need = Fraction(0)
    for ax in ("X", "Y", "Z"):
        if sig[ax] > want.get(ax, 0):
            return False
        need += want.get(ax, 0) - sig[ax]
    return sig["W"] == need


def run(index, tier="quick", seed=0) -> Result:
    res = Result("C10", EXPLANATION)
    sc = scan(index)
    # ------------------------------------------------------------ degrees
    n = 0
    for (cname, member, kind), v in sorted(sc.results.items()):
        if cname not in CURVED or kind != "getter":
            continue
        want = declared_degree(index.cls(cname), member)
        if want is None:
            continue
        st, txt = check_degree(v, want)
        if st == "noreturn":
            continue
        n += 1
        label = f"{cname}.{member}"
        if st == "ok":
            res.ok("DEG", label)
        elif st == "bad":
            res.bad("DEG", label, cname, f"{label} has length degree {txt}, declared {want}")
        else:
            res.not_in_fragment.append(f"DEG {label}: {txt}")
    for k, (where, what, func) in sc.conflicts.items():
        if func.split(".")[0] in CURVED:
            res.bad("DEG", k, where, what)
    if n < 40:
        raise AnalysisError(f"only {n} degree obligations on curved classes (>= 40 confirmed)")
    # ------------------------------------------------------------ SPEC-1
    pairs = [("Ellipse", "Circle", "area", None), ("Ellipsoid", "Sphere", "volume", None)]
    for big, small, member, _ in pairs:
        vb, _r = getter_val(index, big, member)
        vs, _r = getter_val(index, small, member)
        _spec(res, f"{big}.{member}->{small}.{member}", vb.sym, vs.sym)
    # planar moments (tuple of three)
    vb, _ = getter_val(index, "Ellipse", "planar_moments_inertia")
    vs, _ = getter_val(index, "Circle", "planar_moments_inertia")
    if vb.items and vs.items and len(vb.items) == 3 and len(vs.items) == 3:
        for i, nm in enumerate(("I_x", "I_y", "I_xy")):
            _spec(res, f"Ellipse.planar_moments_inertia[{nm}]->Circle", vb.items[i].sym, vs.items[i].sym)
    else:
        res.not_in_fragment.append("SPEC-1 planar_moments_inertia: tuple of three not recovered")
    # inertia diagonals
    db = _diag_items(index, "Ellipsoid")
    ds = _diag_items(index, "Sphere")
    if db and ds and len(db) == 3 and len(ds) == 3:
        for i, nm in enumerate(("I_xx", "I_yy", "I_zz")):
            _spec(res, f"Ellipsoid.inertia_tensor[{nm}]->Sphere", db[i].sym, ds[i].sym)
    else:
        res.not_in_fragment.append("SPEC-1 inertia diagonal not recovered")
    # ------------------------------------------------------------ SPEC-2 derivative identities
    for cname, big, small in (("Circle", "area", "perimeter"), ("Sphere", "volume", "surface_area")):
        vb, _ = getter_val(index, cname, big)
        vs, _ = getter_val(index, cname, small)
        k = f"{cname}: d({big})/dr = {small}"
        if vb.sym is None or vs.sym is None:
            res.not_in_fragment.append(f"SPEC-2 {k}")
        elif vb.sym.diff("self._radius") == vs.sym:
            res.ok("SPEC-2", k, sample={"identity": k, "lhs": str(vb.sym.diff('self._radius')), "rhs": str(vs.sym)})
        else:
            res.bad("SPEC-2", k, cname, f"d({big})/dr = {vb.sym.diff('self._radius')} but {small} = {vs.sym}")
    # ------------------------------------------------------------ AX-1
    want2d = {"I_x": {"X": 1, "Y": 3}, "I_y": {"X": 3, "Y": 1}, "I_xy": {"X": 2, "Y": 2}}
    for cname in ("Circle", "Ellipse"):
        v, r = getter_val(index, cname, "planar_moments_inertia")
        p = index.effective_prop(index.cls(cname), "planar_moments_inertia").getter
        if not v.items or len(v.items) != 3:
            res.not_in_fragment.append(f"AX-1 {cname}.planar_moments_inertia")
            continue
        for nm, item in zip(("I_x", "I_y", "I_xy"), v.items):
            k = f"{cname}.planar_moments_inertia:{nm}"
            if item.sym is None:
                res.not_in_fragment.append(f"AX-1 {k}")
                continue
            sigs = axis_signature(item.sym)
            if sigs is None:
                res.not_in_fragment.append(f"AX-1 {k}: foreign atoms")
                continue
            anybad = False
            for mono, sg in zip(item.sym.terms, sigs):
                if fits(sg, want2d[nm]):
                    continue
                anybad = True
                role = "parallel-axis" if any("_centroid[" in a for a, _e in mono) else "centroidal"
                res.bad("AX-1", f"{k}:{role}", f"{p.file}:{p.lineno}",
                        f"{k} = {item.sym}: the {role} term does not have the axis signature of {_defn(nm)} "
                        f"(found exponents {_fmt(sg)})")
            if not anybad:
                res.ok("AX-1", k, sample={"component": k, "expr": str(item.sym)})
    want3d = {"I_xx": [{"X": 1, "Y": 3, "Z": 1}, {"X": 1, "Y": 1, "Z": 3}],
              "I_yy": [{"X": 3, "Y": 1, "Z": 1}, {"X": 1, "Y": 1, "Z": 3}],
              "I_zz": [{"X": 3, "Y": 1, "Z": 1}, {"X": 1, "Y": 3, "Z": 1}]}
    for cname in ("Sphere", "Ellipsoid"):
        items = _diag_items(index, cname)
        if not items or len(items) != 3:
            res.not_in_fragment.append(f"AX-1 {cname}.inertia_tensor diagonal")
            continue
        for nm, item in zip(("I_xx", "I_yy", "I_zz"), items):
            k = f"{cname}.inertia_tensor:{nm}"
            sigs = axis_signature(item.sym) if item.sym is not None else None
            if sigs is None:
                res.not_in_fragment.append(f"AX-1 {k}")
                continue
            ok = all(any(fits(s, w) for w in want3d[nm]) for s in sigs)
            # both squared axes must occur for an ellipsoid
            if cname == "Ellipsoid":
                ok = ok and all(any(fits(s, w) for s in sigs) for w in want3d[nm])
            if ok:
                res.ok("AX-1", k, sample={"component": k, "expr": str(item.sym)})
            else:
                res.bad("AX-1", k, cname, f"{k} = {item.sym} does not have the axis signature V*(sum of the two other squared semi-axes)")
    # ------------------------------------------------------------ CANCEL-1  sums of squared semi-axes are formed by adding
    # the terms that belong to them; forming the total and subtracting the unwanted square, (a^2 + b^2 + c^2) - a^2, is the same
    # polynomial but loses b^2 + c^2 to rounding when a dominates (needle limit: relative error eps * a^2 / (b^2 + c^2))
    ncan = 0
    for cname in CURVED:
        cls_ = index.cls(cname)
        for member in ("inertia_tensor", "planar_moments_inertia", "polar_moment_inertia", "area", "volume", "surface_area", "perimeter", "iq", "eccentricity"):
            p_ = index.effective_prop(cls_, member)
            if p_ is None or p_.getter is None:
                continue
            _v, r_ = getter_val(index, cname, member)
            ncan += 1
            hits = [e for e in r_["events"] if e.type == "self-cancel" and e.func is not None and e.func.module.name.startswith("coxeter.shapes")
                    and all(all(a_.startswith("self._") for (a_, _e) in m_) for m_ in e.monomials)]
            k = f"{cname}.{member}"
            if hits:
                e = hits[0]
                res.bad("CANCEL-1", k + ":total-minus-term", e.where(), f"{k}: `{e.src()[:60]}` forms a sum of squared semi-axes and subtracts one of its own terms "
                        f"({' ; '.join(str(e.right.sym) for e in hits[:3])}): algebraically the remaining terms, numerically their value is lost to rounding when the "
                        "subtracted axis dominates (needle-like shapes inside the supported 1e-3..1e3 range)")
            else:
                res.ok("CANCEL-1", k, nontrivial=False)
    if ncan < 20:
        raise AnalysisError(f"CANCEL-1: only {ncan} curved-class measures examined")
    # ------------------------------------------------------------ IQ-1
    for cname, base in (("Circle", "Shape2D"), ("Sphere", "Shape3D")):
        v, _ = getter_val(index, cname, "iq")
        basefn = index.cls(base).props["iq"].getter
        vb, _ = getter_val(index, cname, "iq", getter_fn=basefn)
        k = f"{cname}.iq"
        one = Poly.const(1)
        if v.sym != one:
            res.bad("IQ-1", k + ":const", cname, f"{k} is {v.sym}, not the constant 1")
        elif vb.sym is None:
            res.not_in_fragment.append(f"IQ-1 {k}: base formula outside the fragment")
        elif vb.sym != one:
            res.bad("IQ-1", k + ":base", base, f"{base}.iq evaluated on {cname}'s closed forms normalises to {vb.sym}, not 1")
        else:
            res.ok("IQ-1", k, sample={"class": cname, "base_formula_on_closed_forms": str(vb.sym)})
    # Ellipse.iq = min(base formula, 1)
    v, r = getter_val(index, "Ellipse", "iq")
    vb, _ = getter_val(index, "Ellipse", "iq", getter_fn=index.cls("Shape2D").props["iq"].getter)
    mins = [e for e in r["events"] if e.type == "reduce" and e.fn in ("min", "amin") and e.target.items]
    ok = False
    for e in mins:
        syms = [i.sym for i in e.target.items]
        if len(syms) == 2 and Poly.const(1) in syms and vb.sym is not None and vb.sym in syms:
            ok = True
    if ok:
        res.ok("IQ-1", "Ellipse.iq", sample={"clamped": str(vb.sym)})
    else:
        res.bad("IQ-1", "Ellipse.iq", "coxeter/shapes/ellipse.py", "Ellipse.iq is not min(4 pi A / P^2, 1)")
    # ------------------------------------------------------------ BR-1 formula branches are selected exactly
    nbr = 0
    for (cname, member, kind), evs in sorted(sc.events_by_entry.items()):
        if cname not in CURVED or kind != "getter" or member in ("gsd_shape_spec",):
            continue
        nbr += 1
        tol = [e for e in evs if e.type == "cmp" and e.form in ("isclose", "allclose") and e.func is not None and e.func.cls is not None
               and e.func.cls.name in CURVED and e.func.name not in ("is_inside",)]
        k = f"{cname}.{member}"
        if tol:
            res.bad("BR-1", f"{tol[0].func.qualname}:{tol[0].form}", tol[0].where(), f"{k}: a closed form is switched by the tolerance test `{tol[0].src()[:50]}`: "
                    f"for nearly equal axes (relative gaps far below the tolerance but not zero) the limit formula replaces the general one")
        else:
            res.ok("BR-1", k, nontrivial=False)
    # ------------------------------------------------------------ BR-2 a degenerate-case shortcut is entered only when it is valid
    # A return taken under an equality test between semi-axes (the sphere / circle limit) may ignore a size attribute that the
    # other returns of the member use only if the test itself ties that attribute down (it is among the data the compared
    # values are computed from, e.g. min and max of *all* axes).  `if self.a == self.c: <sphere formula in a>` ignores b.
    from ..components import PathConds
    SIZE = {"_a", "_b", "_c", "_radius"}
    nb2 = 0
    for cname in CURVED:
        cls = index.cls(cname)
        for pname in sorted(_all_props(index, cls)):
            p_ = index.effective_prop(cls, pname)
            if p_ is None or p_.getter is None or p_.getter.cls is None or p_.getter.cls.name not in CURVED:
                continue
            pc = PathConds()
            it_ = Interp(index, [pc])
            try:
                r_ = it_.run_entry(p_.getter, cls)
            except AnalysisError:
                continue
            rets = r_["returns"]
            if len(rets) < 2:
                continue
            used = [frozenset(a for (o, a) in v.deps if o == "self" and a in SIZE) for (v, s_, n_) in rets]
            allused = frozenset().union(*used)
            k = f"{cname}.{pname}"
            for (v, s_, n_), u in zip(rets, used):
                missing = allused - u
                conds = [(pc.tests[i][0], t) for (i, t) in s_.comp[pc.name] if i in pc.tests]
                eqs = []
                for (tv, truth) in conds:
                    x = tv.extra
                    if x and x[0] == "cmp" and len(x[1].ops) == 1 and ((isinstance(x[1].ops[0], ast.Eq) and truth) or (isinstance(x[1].ops[0], ast.NotEq) and not truth)):
                        eqs.append((x[2], x[3][0], x[1]))
                    elif x and x[0] == "cmp" and len(x[1].ops) > 1 and truth and all(isinstance(o_, ast.Eq) for o_ in x[1].ops):
                        for rr_ in x[3]:
                            eqs.append((x[2], rr_, x[1]))          # a == b == c
                    elif x and x[0] == "isclose" and truth:
                        eqs.append((x[2], x[3], None))
                if not eqs:
                    continue
                nb2 += 1
                tied = frozenset(a for (l_, r__, _n) in eqs for vv in (l_, r__) for (o, a) in vv.deps if o == "self")
                shown = next((ast.unparse(n__) for (_l, _r, n__) in eqs if n__ is not None), "the axes are (nearly) equal")
                loose = sorted(missing - tied)
                if loose:
                    res.bad("BR-2", f"{k}:ignores:{','.join(loose)}", f"{p_.getter.file}:{getattr(n_, 'lineno', p_.getter.lineno)}",
                            f"{k}: the shortcut taken when `{shown[:40]}` holds returns a value "
                            f"that does not depend on {', '.join('self.' + a for a in loose)}, although the general formula does and the test does not tie "
                            f"{'it' if len(loose) == 1 else 'them'} to the axes it compares: wrong whenever only the compared axes are equal")
                else:
                    res.ok("BR-2", k, sample={"shortcut": k, "ignored": sorted(missing), "tied_by_test": sorted(tied)})
    if not any(f_.rule == "BR-2" for f_ in res.findings):
        res.ok("BR-2", "every degenerate-case shortcut of the curved classes ties down what it ignores", nontrivial=False,
               sample={"shortcut_returns_examined": nb2})
    # ------------------------------------------------------------ SORT-1
    for cname, member, axes in (("Ellipse", "eccentricity", ("a", "b")), ("Ellipse", "perimeter", ("a", "b")),
                                ("Ellipsoid", "surface_area", ("a", "b", "c"))):
        fn = index.effective_prop(index.cls(cname), member).getter
        k = f"{cname}.{member}"
        sorted_calls = [n for n in ast.walk(fn.node) if isinstance(n, ast.Call) and isinstance(n.func, ast.Name) and n.func.id == "sorted"]
        inside = set()
        covered = False
        for c in sorted_calls:
            names = {x.attr for x in ast.walk(c) if isinstance(x, ast.Attribute) and isinstance(x.value, ast.Name) and x.value.id == "self"}
            for x in ast.walk(c):
                inside.add(id(x))
            if set(axes) <= names:
                covered = True
        stray = [x for x in ast.walk(fn.node) if isinstance(x, ast.Attribute) and isinstance(x.value, ast.Name)
                 and x.value.id == "self" and x.attr in axes and id(x) not in inside]
        if not covered:
            res.bad("SORT-1", k, f"{fn.file}:{fn.lineno}", f"{k} assumes ordered semi-axes but does not take them from sorted([...]) of all of {axes}")
        elif stray:
            res.bad("SORT-1", k + ":stray", f"{fn.file}:{stray[0].lineno}", f"{k} reads self.{stray[0].attr} directly next to the sorted axes")
        else:
            res.ok("SORT-1", k)
    from ..parallel import report as _copy1
    _copy1(res, index, lambda f: f['cls'] in ('Circle', 'Ellipse', 'Sphere', 'Ellipsoid') and f['top'] not in ('is_inside', 'distance_to_surface', 'compute_form_factor_amplitude', 'to_hoomd'))
    # PAX-2: the parallel-axis shift is applied once, to a tensor taken about the centre.  For the curved classes the centroidal
    # tensor is a closed form in the size attributes only; a tensor that already depends on the centroid (e.g. built from the
    # polar moment, which contains area * |c|^2) and is then passed through translate_inertia_tensor is shifted twice.
    for cname_ in CURVED:
        cls_ = index.cls(cname_)
        pm_ = index.effective_prop(cls_, "inertia_tensor")
        if pm_ is None or pm_.getter is None:
            continue
        rg_ = Interp(index).run_entry(pm_.getter, cls_)
        shifts = [e_ for e_ in rg_["events"] if e_.type == "enter" and not e_.entry and e_.callee.name == "translate_inertia_tensor"]
        k_ = f"{cname_}.inertia_tensor"
        dbl = [e_ for e_ in shifts if len(e_.argvals) > 1 and any(a_ == "_centroid" for (_o, a_) in e_.argvals[1].deps)]
        if dbl:
            res.bad("PAX-2", k_ + ":shifted-twice", dbl[0].where(), f"{k_}: the tensor handed to translate_inertia_tensor already depends on the centre "
                    f"(`{dbl[0].src()[:60]}`): the parallel-axis term is added twice for every shape that is not at the origin")
        else:
            res.ok("PAX-2", k_, nontrivial=bool(shifts))
    # DTYPE-1: centres given as integers (`center=(1, -2, 3)`) are stored as integer arrays when the setter does not fix
    # the dtype; an in-place float update of an array derived from them truncates (or raises) instead of computing
    from ..interp import Interp as _Interp
    for cname_ in ("Circle", "Ellipse", "Sphere", "Ellipsoid"):
        cls_ = index.cls(cname_)
        pc_ = index.effective_prop(cls_, "centroid")
        mi_attrs = set()
        if pc_ is not None and pc_.setter is not None:
            rs_ = _Interp(index).run_entry(pc_.setter, cls_)
            for e_ in rs_["events"]:
                if e_.type == "write" and e_.loc[0] == "self" and e_.rhs is not None and "maybe-int" in e_.rhs.tags:
                    mi_attrs.add(e_.loc[1])
        for member_ in ("inertia_tensor", "planar_moments_inertia", "polar_moment_inertia"):
            pm_ = index.effective_prop(cls_, member_)
            if pm_ is None or pm_.getter is None:
                continue
            rg_ = _Interp(index, config={"maybe_int_attrs": tuple(mi_attrs)}).run_entry(pm_.getter, cls_)
            bad_ = [e_ for e_ in rg_["events"] if e_.type == "int-inplace"]
            k_ = f"{cname_}.{member_}"
            if bad_:
                e_ = bad_[0]
                res.bad("DTYPE-1", f"{k_}:{e_.target}:{e_.op}", e_.where(), f"{k_}: `{e_.src()[:60]}` writes floating-point values into an array whose dtype "
                        f"comes from the caller's centre (stored without dtype in {sorted(mi_attrs)}): for an integer centre such as (1, -2, 3) the "
                        "values are truncated to integers (or numpy refuses the cast)")
            else:
                res.ok("DTYPE-1", k_, nontrivial=bool(mi_attrs))
    return res


def _spec(res, k, big, small):
    if big is None or small is None:
        res.not_in_fragment.append(f"SPEC-1 {k}")
        return
    b = to_r(big)
    s = to_r(small)
    if b is None or s is None:
        res.not_in_fragment.append(f"SPEC-1 {k}: substitution left the fragment")
    elif b == s:
        res.ok("SPEC-1", k, sample={"pair": k, "specialised": str(b)})
    else:
        res.bad("SPEC-1", k, k, f"with a=b(=c)=r the general form gives {b} but the special class has {s}")


def _diag_items(index, cname):
    v, r = getter_val(index, cname, "inertia_tensor")
    for e in r["events"]:
        if e.type == "diag" and e.arg is not None and e.arg.items and e.func.cls is not None and e.func.cls.name == cname:
            return e.arg.items
    return None


def _all_props(index, cls):
    names = set()
    for c in cls.mro:
        names |= set(c.props)
    return names


def _defn(nm):
    return {"I_x": "int y^2 dA (A*y^2)", "I_y": "int x^2 dA (A*x^2)", "I_xy": "int x y dA (A*x*y)"}[nm]


def _fmt(sig):
    return ", ".join(f"{k}^{v}" for k, v in sig.items() if v)
